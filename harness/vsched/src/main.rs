//! vsched — engine B (preemption-bounded exhaustive scheduling on shuttle) and engine C
//! (stateright) checks: `vsched C22|C29 [--tier quick|thorough] [--replay FILE]`.
//! Built with `--cfg oxidize_pdf_verif --cfg oxidize_pdf_verif_sched`.

mod bdfs;
mod c22;
mod c29;
mod lru;

use serde_json::json;
use std::fs::File;
use std::io::Write;
use std::os::fd::{AsRawFd, FromRawFd};
use std::sync::Mutex;

extern "C" {
    fn dup(fd: i32) -> i32;
    fn dup2(old: i32, new: i32) -> i32;
}

static LOG: Mutex<Option<File>> = Mutex::new(None);
static LAST_PANIC: Mutex<Option<String>> = Mutex::new(None);

/// Progress output that keeps working while fd 2 is muted.
pub fn elog(s: &str) {
    let mut g = LOG.lock().unwrap();
    match g.as_mut() {
        Some(f) => {
            let _ = writeln!(f, "{s}");
        }
        None => eprintln!("{s}"),
    }
}

/// shuttle prints to stderr on every deadlock it reports; a defect that deadlocks on every
/// schedule would print millions of lines. fd 2 is pointed at /dev/null while exploring.
pub struct Muted {
    saved: i32,
}
impl Muted {
    pub fn new() -> Option<Muted> {
        if std::env::var("VSCHED_LOUD").is_ok() {
            return None;
        }
        let null = File::options().write(true).open("/dev/null").ok()?;
        unsafe {
            let saved = dup(2);
            if saved < 0 {
                return None;
            }
            let logfd = dup(2);
            if logfd >= 0 {
                *LOG.lock().unwrap() = Some(File::from_raw_fd(logfd));
            }
            dup2(null.as_raw_fd(), 2);
            Some(Muted { saved })
        }
    }
}
impl Drop for Muted {
    fn drop(&mut self) {
        unsafe {
            dup2(self.saved, 2);
        }
        *LOG.lock().unwrap() = None;
        let _ = unsafe { File::from_raw_fd(self.saved) };
    }
}

fn init_panic_handling() {
    // Let shuttle install its (chatty) panic hook now — it does so once per process — and then
    // replace it: job operations panic on purpose in a third of all configurations.
    let r = shuttle::Runner::new(shuttle::scheduler::DfsScheduler::new(Some(1), false), bdfs::shuttle_config());
    r.run(|| {});
    let loud = std::env::var("VSCHED_LOUD").is_ok();
    let prev = std::panic::take_hook();
    std::panic::set_hook(Box::new(move |info| {
        let msg = bdfs::panic_message(info.payload());
        let loc = info.location().map(|l| format!("{}:{}", l.file(), l.line())).unwrap_or_default();
        if !msg.starts_with("C22 harness: job") && !msg.starts_with("deadlock!") {
            *LAST_PANIC.lock().unwrap() = Some(format!("{msg} @ {loc}"));
        }
        if loud {
            prev(info);
        }
    }));
}

fn threads() -> usize {
    vx::default_threads()
}

fn main() {
    let cli = vx::parse_cli();
    init_panic_handling();
    let code = match cli.id.as_str() {
        "C22" => run_c22(&cli),
        "C29" => c29::run(&cli),
        other => {
            println!("MACHINERY-ERROR vsched: unknown property '{other}' (C22, C29)");
            2
        }
    };
    std::process::exit(code);
}

// ------------------------------------------------------------------------------------ C22

fn run_c22(cli: &vx::Cli) -> i32 {
    let mut rep = vx::Report::new("C22", cli.tier);
    let thorough = cli.tier.is_thorough();
    rep.rule("one case = one complete schedule (sequence of shuttle task ids) of one configuration (job outcome vector x workers x stop_on_error x progress callback x canceller); a configuration is non-trivial when it has more than one schedule; distinct outcomes = distinct (end kind, summary, final progress, set of operations that ran)");
    rep.assume("interleaving (sequentially consistent) semantics at shuttle's scheduling points: every atomic/mutex/channel/spawn/join operation of batch/{mod,worker,progress}.rs; the modules use only SeqCst atomics, Mutex and mpsc, and no unsafe");
    rep.assume("thread::sleep in the progress poller is a scheduling point, not a delay (shuttle does not model time); the harness' progress callback yields so that the polling loop is scheduled fairly");
    rep.assume("schedules with more preemptions than the stated bound are not explored (CHESS context bounding); a switch at a blocking, finishing or yielding point is free");
    rep.assume("final ProgressInfo is only observable through the progress callback, so that clause is checked in the callback=on half of the configurations");
    rep.assume("the hook shim turns a panicking worker thread into join()==Err as std does");

    if let Some(path) = &cli.replay {
        return replay_c22(rep, path);
    }

    let probe = {
        let _m = Muted::new();
        c22_panic_probe()
    };
    rep.note("panic_unwind_probe", probe.note.clone());
    let mut cfgs = c22::configs(thorough);
    // development aid: `--cfg n,workers,stop,cb,cancel,bound,o0,o1..` runs that one configuration
    if let Some(i) = cli.rest.iter().position(|a| a == "--cfg") {
        let nums: Vec<u32> = cli.rest.get(i + 1).map(|s| s.split(',').filter_map(|x| x.parse().ok()).collect()).unwrap_or_default();
        let mut ch = vec![nums.len() as u32 + 1];
        ch.extend(nums);
        match c22::Cfg::decode(&ch) {
            Ok((c, _)) => cfgs = vec![c],
            Err(e) => {
                println!("MACHINERY-ERROR property=C22 --cfg: {e}");
                return 2;
            }
        }
    }
    let total_cfgs = cfgs.len();
    let mut excluded = 0usize;
    if !probe.faithful {
        cfgs.retain(|c| !c.outcomes.contains(&c22::PANIC));
        excluded = total_cfgs - cfgs.len();
        elog(&format!(
            "[C22] WARNING: {excluded} configurations with a Panic outcome are EXCLUDED: under this build a sender/receiver dropped while a thread unwinds is not released (shuttle skips its Drop when std::thread::panicking()), so every such run would deadlock for a reason that does not exist under std. See evidence note panic_unwind_probe."
        ));
    }
    elog(&format!(
        "[C22] tier={} configurations={} threads={}",
        cli.tier.name(),
        cfgs.len(),
        threads()
    ));
    let plan = c22::Plan::for_tier(thorough);
    rep.note("iterative_context_bounding_plan", json!({"budget_predicted_schedules_per_configuration": plan.budget, "max_bound_jobs_le_2": plan.max_bound_small, "max_bound_jobs_3": plan.max_bound_n3}));
    let single = cli.rest.iter().any(|a| a == "--cfg");
    // guard against a runaway run only (quick is planned for well under a minute, thorough under 15)
    let deadline = bdfs::deadline(if thorough { 14 * 60 } else { 120 });
    let out = {
        let _m = Muted::new();
        if single {
            // development aid: exactly the bound given on the command line
            let want = cfgs[0].bound;
            let p = c22::Plan { budget: u64::MAX, max_bound_small: want, max_bound_n3: want };
            c22::explore_icb(cfgs, p, threads(), deadline)
        } else {
            c22::explore_icb(cfgs, plan, threads(), deadline)
        }
    };
    let mut machinery: Vec<String> = Vec::new();
    for (c, a) in out.cfgs.iter().zip(out.accs.iter()) {
        elog(&format!(
            "[C22] {:<100} schedules per bound={:?} points={:>10} outcomes={:>3} ends={:?} viol={:?}",
            c.describe(),
            out.rounds[out.cfgs.iter().position(|x| std::ptr::eq(x, c)).unwrap()],
            a.states,
            a.outcomes.len(),
            a.ends,
            a.viol.iter().map(|(k, v)| format!("{k} x{}", v.count)).collect::<Vec<_>>()
        ));
        if let Some(f) = &a.fatal {
            machinery.push(format!("{}: {f}", c.describe()));
        }
        // the canceller's position must really be explored: cancelling before / after the jobs
        // gives different summaries
        if out.capped.is_some() {
            continue;
        }
        if c.cancel && a.outcomes.len() < 2 && a.fatal.is_none() {
            machinery.push(format!(
                "{}: only {} distinct outcome(s) although the canceller can run before or after the jobs",
                c.describe(),
                a.outcomes.len()
            ));
        }
        if a.execs == 0 && a.fatal.is_none() {
            machinery.push(format!("{}: no schedule was executed", c.describe()));
        }
    }
    for (mut st, found) in c22::sections(&out) {
        if excluded > 0 {
            st.caps_hit.push(format!(
                "panic outcomes excluded in this build ({excluded} configurations overall): shuttle does not release channel ends dropped during unwinding"
            ));
            st.exhaustive = false;
        }
        rep.add_section(st, found);
    }
    rep.note("configurations_total", json!(total_cfgs));
    rep.note("configurations_excluded_panic", json!(excluded));
    if let Some(p) = LAST_PANIC.lock().unwrap().clone() {
        rep.note("last_unexpected_panic_message", json!(p));
    }
    for m in machinery {
        rep.machinery_error(m);
    }
    rep.finish()
}

struct Probe {
    faithful: bool,
    note: serde_json::Value,
}

/// Does a channel end that is dropped while a worker unwinds from a panic get released, as it
/// does under std? (shuttle-std 0.1.1 skips `Sender::drop`/`Receiver::drop` when
/// `std::thread::panicking()`.) Two observations: a library-free one on raw shuttle, and the
/// smallest real batch (1 job that panics, 1 worker, no callback, bound 0).
fn c22_panic_probe() -> Probe {
    use bdfs::{End, ExecReport, Limits, Workload};
    use std::sync::Arc;
    struct Raw;
    impl Workload for Raw {
        fn before(&self) {}
        fn body(&self) {
            let (tx, rx) = shuttle::sync::mpsc::channel::<u8>();
            let h = oxidize_pdf::verif_hooks::sched::thread::spawn(move || {
                let _keep = tx;
                panic!("C22 harness: job probe panics");
            });
            let _ = h.join();
            let _ = rx.recv(); // Err(disconnected) under std semantics
        }
        fn after(&self, _e: &End, _s: &[u8], _w: bool) -> ExecReport {
            ExecReport { outcome: 0, violations: vec![], rendered: None }
        }
    }
    let lim = Limits { bound: 0, horizon: 2000, spin_limit: 20 };
    let raw = bdfs::run_item(bdfs::WorkItem::root(0), lim, Arc::new(Raw), None, None);
    let raw_deadlocks = raw.ends.get("deadlock").copied().unwrap_or(0);
    let cfg = c22::Cfg { n: 1, par: 1, stop: false, cb: false, cancel: false, bound: 0, outcomes: vec![c22::PANIC] };
    let b = bdfs::run_item(bdfs::WorkItem::root(0), lim, Arc::new(c22::Load { cfg }), None, None);
    let b_deadlocks = b.ends.get("deadlock").copied().unwrap_or(0);
    let artefact = raw_deadlocks == raw.execs && raw.execs > 0 && b_deadlocks == b.execs && b.execs > 0;
    Probe {
        faithful: !artefact,
        note: json!({
            "raw_shuttle_sender_dropped_during_unwind": {"schedules": raw.execs, "deadlocks": raw_deadlocks},
            "batch_1_panicking_job_1_worker": {"schedules": b.execs, "deadlocks": b_deadlocks},
            "panic_outcomes_explored": !artefact,
            "explanation": "shuttle-std 0.1.1 Sender/Receiver::drop return early when std::thread::panicking(); if the library's channel ends are dropped by an unwinding worker they are never released, which std does not do. Panic outcomes are explored only when the batch probe shows std behaviour (hook provides deferring channel ends)."
        }),
    }
}

fn replay_c22(mut rep: vx::Report, path: &std::path::Path) -> i32 {
    let t = match vx::load_replay(path) {
        Ok(t) => t,
        Err(e) => {
            println!("MACHINERY-ERROR property=C22 cannot read replay file: {e}");
            return 2;
        }
    };
    let (cfg, schedule) = match c22::Cfg::decode(&t.choices) {
        Ok(x) => x,
        Err(e) => {
            println!("MACHINERY-ERROR property=C22 replay file: {e}");
            return 2;
        }
    };
    println!("replay section={} config: {}", t.section, cfg.describe());
    println!("schedule (task ids): {schedule:?}");
    let acc = c22::replay(&cfg, schedule);
    if let Some(f) = &acc.fatal {
        println!("MACHINERY-ERROR property=C22 replay diverged: {f}");
        return 2;
    }
    for n in &acc.notes {
        println!("note: {n}");
    }
    for (k, v) in &acc.viol {
        println!("violation key={k} detail={}", v.detail);
        if let Some(r) = &v.rendered {
            println!("case={}", serde_json::to_string(r).unwrap_or_default());
        }
        rep.replay_hits.push(vx::Violation { key: k.clone(), detail: v.detail.clone() });
    }
    if acc.viol.is_empty() {
        for s in &acc.samples {
            println!("case={}", serde_json::to_string(s).unwrap_or_default());
        }
    }
    rep.replay = Some(t);
    rep.replay_ran = true;
    rep.finish()
}
