fn main() { println!("stub"); }
