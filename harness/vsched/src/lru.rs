//! Abstract bounded LRU map — the oracle for C29. Written from the property text
//! ("bounded least-recently-used map"), deliberately with a different representation from
//! the library (logical timestamps in an unordered Vec instead of a recency queue).
//!
//! Semantics: `get` of a resident key returns its value and makes it the most recently
//! used; `put` stores/overwrites and makes the key the most recently used, and when a new
//! key does not fit, the resident key with the oldest use is dropped first; capacity 0
//! stores nothing.

#[derive(Clone, Debug)]
pub struct ModelLru<K: Copy + Eq, V: Copy> {
    cap: usize,
    clock: u64,
    items: Vec<(K, V, u64)>,
}

impl<K: Copy + Eq, V: Copy> ModelLru<K, V> {
    pub fn new(cap: usize) -> Self {
        ModelLru { cap, clock: 0, items: Vec::new() }
    }
    pub fn get(&mut self, k: K) -> Option<V> {
        self.clock += 1;
        let now = self.clock;
        self.items.iter_mut().find(|e| e.0 == k).map(|e| {
            e.2 = now;
            e.1
        })
    }
    /// Returns the key that was evicted, if any.
    pub fn put(&mut self, k: K, v: V) -> Option<K> {
        if self.cap == 0 {
            return None;
        }
        self.clock += 1;
        let now = self.clock;
        if let Some(e) = self.items.iter_mut().find(|e| e.0 == k) {
            e.1 = v;
            e.2 = now;
            return None;
        }
        let mut evicted = None;
        if self.items.len() >= self.cap {
            let (pos, _) = self.items.iter().enumerate().min_by_key(|(_, e)| e.2).expect("non-empty");
            evicted = Some(self.items.swap_remove(pos).0);
        }
        self.items.push((k, v, now));
        evicted
    }
    pub fn clear(&mut self) {
        self.items.clear();
    }
    pub fn len(&self) -> usize {
        self.items.len()
    }
    pub fn capacity(&self) -> usize {
        self.cap
    }
    /// resident keys, least recently used first
    pub fn order_lru_first(&self) -> Vec<K> {
        let mut v: Vec<_> = self.items.iter().map(|e| (e.2, e.0)).collect();
        v.sort_by_key(|e| e.0);
        v.into_iter().map(|e| e.1).collect()
    }
}

#[cfg(test)]
mod tests {
    use super::*;
    #[test]
    fn basic() {
        let mut m = ModelLru::new(2);
        assert_eq!(m.put(1, 10), None);
        assert_eq!(m.put(2, 20), None);
        assert_eq!(m.get(1), Some(10));
        assert_eq!(m.put(3, 30), Some(2));
        assert_eq!(m.get(2), None);
        assert_eq!(m.order_lru_first(), vec![1, 3]);
        let mut z = ModelLru::new(0);
        assert_eq!(z.put(1, 1), None);
        assert_eq!(z.len(), 0);
    }
}
