//! C22 — batch processing reports every job exactly once under any schedule.
//!
//! The real `BatchProcessor` runs `BatchJob::Custom` jobs whose operation logs `OpRan(i)`
//! and then returns Ok / Err / panics. Every interleaving of dispatcher (= the thread that
//! calls `execute`), workers, result collector, progress poller and canceller with at most
//! `bound` preemptions is explored by `bdfs`.

use crate::bdfs::{self, Accum, End, ExecReport, Limits, Viol, Workload};
use oxidize_pdf::batch::{BatchJob, BatchOptions, BatchProcessor, JobResult};
use oxidize_pdf::error::PdfError;
use oxidize_pdf::verif_hooks::{take_batch_trace, BatchEvent};
use serde_json::{json, Value};
use shuttle::sync::atomic::Ordering;
use std::cell::RefCell;
use std::collections::BTreeMap;
use std::panic::{catch_unwind, AssertUnwindSafe};
use std::sync::Arc;

pub const OK: u8 = 0;
pub const ERR: u8 = 1;
pub const PANIC: u8 = 2;
const OUTCOME_NAMES: [&str; 3] = ["Ok", "Err", "Panic"];

pub const HORIZON: usize = 10_000;
pub const SPIN_LIMIT: usize = 12;

#[derive(Clone, Debug, PartialEq, Eq)]
pub struct Cfg {
    pub n: usize,
    pub par: usize,
    pub stop: bool,
    pub cb: bool,
    pub cancel: bool,
    pub bound: u32,
    pub outcomes: Vec<u8>,
}

impl Cfg {
    pub fn describe(&self) -> String {
        format!(
            "jobs={} [{}] workers={} stop_on_error={} progress_cb={} canceller={} preemptions<={}",
            self.n,
            self.outcomes.iter().map(|&o| OUTCOME_NAMES[o as usize]).collect::<Vec<_>>().join(","),
            self.par,
            self.stop,
            self.cb,
            self.cancel,
            self.bound
        )
    }
    pub fn to_json(&self) -> Value {
        json!({
            "jobs": self.n,
            "outcomes": self.outcomes.iter().map(|&o| OUTCOME_NAMES[o as usize]).collect::<Vec<_>>(),
            "workers": self.par, "stop_on_error": self.stop, "progress_callback": self.cb,
            "canceller": self.cancel, "preemption_bound": self.bound,
        })
    }
    pub fn section(&self) -> String {
        format!("batch-n{}-p{}", self.n, self.par)
    }
    /// [header_len, n, par, stop, cb, cancel, bound, outcomes...]
    pub fn encode(&self) -> Vec<u32> {
        let mut v = vec![0, self.n as u32, self.par as u32, self.stop as u32, self.cb as u32, self.cancel as u32, self.bound];
        v.extend(self.outcomes.iter().map(|&o| o as u32));
        v[0] = v.len() as u32;
        v
    }
    pub fn decode(ch: &[u32]) -> Result<(Cfg, Vec<u8>), String> {
        let hl = *ch.first().ok_or("empty choices")? as usize;
        if hl < 7 || ch.len() < hl {
            return Err("bad header".into());
        }
        let n = ch[1] as usize;
        if hl != 7 + n {
            return Err("header length does not match job count".into());
        }
        let cfg = Cfg {
            n,
            par: ch[2] as usize,
            stop: ch[3] != 0,
            cb: ch[4] != 0,
            cancel: ch[5] != 0,
            bound: ch[6],
            outcomes: ch[7..7 + n].iter().map(|&x| x as u8).collect(),
        };
        if cfg.par == 0 || cfg.outcomes.iter().any(|&o| o > 2) {
            return Err("bad configuration values".into());
        }
        Ok((cfg, ch[hl..].iter().map(|&x| x as u8).collect()))
    }
    /// shuttle task id of the progress poller: main=0, canceller (if any), workers, poller, collector
    fn poller_task(&self) -> u8 {
        (1 + self.cancel as usize + self.par) as u8
    }
    fn weight(&self) -> u64 {
        // rough relative cost, only used to start the big trees first
        let tasks = (2 + self.par + self.cb as usize + self.cancel as usize) as u64;
        tasks.pow(self.bound.min(3) + 1) * (self.n as u64 + 1) * (self.n as u64 + 1)
    }
}

#[derive(Clone, Copy, Debug, PartialEq, Eq)]
enum Ev {
    Started(usize),
    FailRec(usize),
    OpRan(usize),
    CancelStored(bool),
    ExecReturned,
}

#[derive(Clone, Debug, PartialEq, Eq, Hash)]
struct Sum {
    total_jobs: usize,
    successful: usize,
    failed: usize,
    cancelled: bool,
    /// (job name, 0 success / 1 failed / 2 cancelled)
    results: Vec<(String, u8)>,
}

#[derive(Default)]
struct Rec {
    log: Vec<Ev>,
    /// (completed, failed, running, total) of every progress callback, in call order
    progress: Vec<(usize, usize, usize, usize)>,
    summary: Option<Sum>,
    exec_err: Option<String>,
    body_panic: Option<String>,
}

thread_local! {
    static REC: RefCell<Rec> = RefCell::new(Rec::default());
}

/// Move whatever the library traced so far into the merged log (keeps one total order,
/// because every task of an execution runs on this OS thread).
fn flush_lib(r: &mut Rec) {
    for e in take_batch_trace() {
        r.log.push(match e {
            BatchEvent::JobStarted(i) => Ev::Started(i),
            BatchEvent::FailureRecorded(i) => Ev::FailRec(i),
        });
    }
}
fn log(ev: Ev) {
    REC.with(|r| {
        let mut r = r.borrow_mut();
        flush_lib(&mut r);
        r.log.push(ev);
    });
}

pub struct Load {
    pub cfg: Cfg,
}

impl Workload for Load {
    fn before(&self) {
        let _ = take_batch_trace();
        REC.with(|r| *r.borrow_mut() = Rec::default());
    }

    fn body(&self) {
        let cfg = self.cfg.clone();
        let r = catch_unwind(AssertUnwindSafe(move || {
            // the documented defaults, spelled out: BatchOptions::default() asks the OS for the
            // CPU count (a syscall per execution) only to have it overwritten by with_parallelism
            let mut opts = BatchOptions {
                parallelism: 1,
                memory_limit_per_worker: 512 * 1024 * 1024,
                progress_interval: std::time::Duration::from_millis(100),
                stop_on_error: false,
                progress_callback: None,
                job_timeout: Some(std::time::Duration::from_secs(300)),
            }
            .with_parallelism(cfg.par)
            .stop_on_error(cfg.stop);
            if cfg.cb {
                opts = opts.with_progress_callback(|info| {
                    REC.with(|r| {
                        r.borrow_mut().progress.push((
                            info.completed_jobs,
                            info.failed_jobs,
                            info.running_jobs,
                            info.total_jobs,
                        ))
                    });
                    // shuttle models thread::sleep as a plain scheduling point, so the poller
                    // would never be marked as yielding; the user callback yields instead
                    // (a callback may do anything). This is what makes the polling loop fair.
                    shuttle::thread::yield_now();
                });
            }
            let mut proc = BatchProcessor::new(opts);
            for i in 0..cfg.n {
                let o = cfg.outcomes[i];
                proc.add_job(BatchJob::Custom {
                    name: format!("job{i}"),
                    operation: Box::new(move || {
                        log(Ev::OpRan(i));
                        match o {
                            OK => Ok(()),
                            ERR => Err(PdfError::InvalidStructure(format!("job{i} fails"))),
                            _ => panic!("C22 harness: job{i} panics"),
                        }
                    }),
                });
            }
            let canceller = if cfg.cancel {
                let h = proc.verif_cancel_handle();
                Some(shuttle::thread::spawn(move || {
                    let prev = h.swap(true, Ordering::SeqCst);
                    log(Ev::CancelStored(prev));
                }))
            } else {
                None
            };
            let res = proc.execute();
            log(Ev::ExecReturned);
            REC.with(|r| {
                let mut r = r.borrow_mut();
                match res {
                    Ok(s) => {
                        r.summary = Some(Sum {
                            total_jobs: s.total_jobs,
                            successful: s.successful,
                            failed: s.failed,
                            cancelled: s.cancelled,
                            results: s
                                .results
                                .iter()
                                .map(|x| {
                                    (
                                        x.job_name().to_string(),
                                        match x {
                                            JobResult::Success { .. } => 0u8,
                                            JobResult::Failed { .. } => 1,
                                            JobResult::Cancelled { .. } => 2,
                                        },
                                    )
                                })
                                .collect(),
                        })
                    }
                    Err(e) => r.exec_err = Some(e.to_string()),
                }
            });
            if let Some(c) = canceller {
                let _ = c.join();
            }
        }));
        if let Err(p) = r {
            let p = bdfs::rethrow_if_teardown(p);
            let m = bdfs::panic_message(&*p);
            REC.with(|r| r.borrow_mut().body_panic = Some(m));
        }
    }

    fn after(&self, end: &End, schedule: &[u8], want_render: bool) -> ExecReport {
        let mut rec = REC.with(|r| std::mem::take(&mut *r.borrow_mut()));
        flush_lib(&mut rec);
        let cfg = &self.cfg;
        let mut viol: Vec<Viol> = Vec::new();
        let mut fail = |k: &str, d: String| {
            if !viol.iter().any(|v| v.key == k) {
                viol.push(Viol { key: k.to_string(), detail: d })
            }
        };

        let pos = |e: Ev| rec.log.iter().position(|x| *x == e);
        let ran: Vec<bool> = (0..cfg.n).map(|i| pos(Ev::OpRan(i)).is_some()).collect();
        let started: Vec<Option<usize>> = (0..cfg.n).map(|i| pos(Ev::Started(i))).collect();
        let panicked_ops = (0..cfg.n).filter(|&i| ran[i] && cfg.outcomes[i] == PANIC).count();
        let cancel_pos = rec.log.iter().position(|x| matches!(x, Ev::CancelStored(_)));
        let cancel_prev = rec.log.iter().find_map(|x| if let Ev::CancelStored(p) = x { Some(*p) } else { None });

        // ---- did execute() return at all?
        match end {
            End::Diverged(_) => {}
            End::Deadlock(m) => fail("C22/deadlock", format!("no runnable thread: {m}")),
            End::Panic(m) => fail("C22/panic-escaped-a-thread", m.clone()),
            End::Horizon | End::LoneSpin(_) if rec.summary.is_none() => {
                let spinner = if let End::LoneSpin(t) = end { Some(*t) } else { None };
                if cfg.cb && spinner == Some(cfg.poller_task()) && panicked_ops >= 1 && cancel_pos.is_none() {
                    fail(
                        "C22/panic-job-progress-thread-never-ends",
                        format!(
                            "execute() never returns: {panicked_ops} operation(s) panicked, their worker died with running_jobs still counted, so the progress thread (task {}) polls forever for completed+failed>=total while the caller waits in join()",
                            cfg.poller_task()
                        ),
                    );
                } else {
                    fail(
                        "C22/execute-never-returns",
                        format!("execute() did not return: {end:?} (poller task would be {})", cfg.poller_task()),
                    );
                }
            }
            End::Horizon | End::LoneSpin(_) => {
                fail("C22/hang-after-execute-returned", format!("{end:?}"));
            }
            End::Completed => {
                if let Some(m) = &rec.body_panic {
                    fail("C22/execute-panicked", m.clone());
                } else if let Some(e) = &rec.exec_err {
                    fail("C22/execute-returned-error", e.clone());
                } else if rec.summary.is_none() {
                    fail("C22/execute-never-returns", "all threads ended but execute() produced nothing".into());
                }
            }
        }

        // ---- summary oracle
        let mut final_progress = None;
        if let Some(sum) = &rec.summary {
            let want: Vec<String> = (0..cfg.n).map(|i| format!("job{i}")).collect();
            let got: Vec<&str> = sum.results.iter().map(|r| r.0.as_str()).collect();
            let idx_of = |name: &str| want.iter().position(|w| w == name);
            let idxs: Vec<Option<usize>> = got.iter().map(|g| idx_of(g)).collect();
            let in_order = idxs.iter().all(|x| x.is_some()) && idxs.windows(2).all(|w| w[0].unwrap() < w[1].unwrap());
            if !(in_order && got.len() == cfg.n) {
                if in_order {
                    // a strictly ascending subsequence: some results are missing
                    let present: Vec<usize> = idxs.iter().map(|x| x.unwrap()).collect();
                    let missing: Vec<usize> = (0..cfg.n).filter(|i| !present.contains(i)).collect();
                    let explained = missing.iter().all(|&i| {
                        (cfg.outcomes[i] == PANIC && ran[i]) || (started[i].is_none() && panicked_ops == cfg.par)
                    });
                    if explained && panicked_ops >= 1 {
                        fail(
                            "C22/panic-job-result-missing",
                            format!(
                                "results has {} entries for {} jobs; missing {:?}: every missing job either panicked in its operation (the worker thread died before sending a result) or was never picked up because all {} worker(s) had died",
                                got.len(), cfg.n, missing, cfg.par
                            ),
                        );
                    } else {
                        fail(
                            "C22/result-missing",
                            format!("results has {} entries for {} jobs; missing {:?}, got {:?}", got.len(), cfg.n, missing, got),
                        );
                    }
                } else {
                    let mut sorted: Vec<Option<usize>> = idxs.clone();
                    sorted.sort();
                    let is_perm = got.len() == cfg.n && sorted.iter().enumerate().all(|(i, x)| *x == Some(i));
                    if is_perm {
                        fail(
                            "C22/results-not-in-submission-order",
                            format!("results are a permutation of the jobs but not in submission order: {got:?}"),
                        );
                    } else {
                        fail("C22/result-set-wrong", format!("results {got:?} for jobs {want:?}"));
                    }
                }
            }
            let n_ok = sum.results.iter().filter(|r| r.1 == 0).count();
            let n_failed = sum.results.iter().filter(|r| r.1 == 1).count();
            if sum.successful != n_ok || sum.failed != n_failed {
                fail(
                    "C22/summary-counts-mismatch",
                    format!(
                        "summary.successful={} failed={} but results hold {} Success / {} Failed",
                        sum.successful, sum.failed, n_ok, n_failed
                    ),
                );
            }
            if sum.total_jobs != cfg.n {
                fail("C22/summary-total-jobs-wrong", format!("total_jobs={} for {} jobs", sum.total_jobs, cfg.n));
            }
            // every reported status must be the truth about that job
            for (name, st) in &sum.results {
                if let Some(i) = idx_of(name) {
                    let ok = match st {
                        // Success only for an operation that ran and returned Ok; Failed never for
                        // one that ran and returned Ok (an error, a panic, or a job skipped after
                        // cancellation may be reported as failed); Cancelled only for a job whose
                        // operation did not run. The property does not fix whether a skipped job
                        // is listed as Failed or Cancelled, so both conventions are accepted.
                        0 => ran[i] && cfg.outcomes[i] == OK,
                        1 => !(ran[i] && cfg.outcomes[i] == OK),
                        _ => !ran[i],
                    };
                    if !ok {
                        fail(
                            "C22/result-status-contradicts-job-log",
                            format!(
                                "{name} reported as {} but operation ran={} outcome={} wrapper started={}",
                                ["Success", "Failed", "Cancelled"][*st as usize],
                                ran[i],
                                OUTCOME_NAMES[cfg.outcomes[i] as usize],
                                started[i].is_some()
                            ),
                        );
                    }
                }
            }
            // final progress (only observable through the callback; the last call is the
            // "final progress callback" made by execute() after the poller was joined)
            if cfg.cb {
                match rec.progress.last() {
                    None => fail("C22/final-progress-callback-missing", "progress callback never called".into()),
                    Some(&(c, f, r, _t)) => {
                        final_progress = Some((c, f, r));
                        if c != n_ok || f != n_failed || r != 0 {
                            if c == n_ok && f == n_failed && r == panicked_ops && panicked_ops >= 1 {
                                fail(
                                    "C22/panic-job-progress-running-stuck",
                                    format!(
                                        "final ProgressInfo running_jobs={r} (completed={c} failed={f}): the {panicked_ops} job(s) whose operation panicked were counted as running by start_job and never taken back"
                                    ),
                                );
                            } else {
                                fail(
                                    "C22/final-progress-inconsistent",
                                    format!(
                                        "final ProgressInfo completed={c} failed={f} running={r}; results hold {n_ok} Success / {n_failed} Failed ({panicked_ops} panicked operations)"
                                    ),
                                );
                            }
                        }
                    }
                }
            }
        }

        // ---- stop-on-error trace oracle
        if cfg.stop && !matches!(end, End::Diverged(_)) {
            if let Some(f) = rec.log.iter().position(|x| matches!(x, Ev::FailRec(_))) {
                let late: Vec<usize> = (0..cfg.n).filter(|&i| ran[i] && started[i].map_or(true, |s| s > f)).collect();
                if !late.is_empty() {
                    // was the cancel flag ever set by the library? (the canceller swaps, so it saw the value)
                    let lib_stored: Option<bool> = match (cancel_prev, &rec.summary, end) {
                        (Some(prev), _, _) => Some(prev),
                        (None, Some(s), _) => Some(s.cancelled),
                        // the poller loops on `!cancelled`: while it still spins the flag is false
                        (None, None, End::LoneSpin(t)) if *t == cfg.poller_task() && cfg.cb => Some(false),
                        _ => None,
                    };
                    let flag_set_before_start =
                        late.iter().any(|&i| cancel_pos.map_or(false, |c| started[i].map_or(false, |s| c < s)));
                    let first = match rec.log[f] {
                        Ev::FailRec(i) => i,
                        _ => unreachable!(),
                    };
                    if lib_stored == Some(false) && !flag_set_before_start {
                        fail(
                            "C22/stop-on-error-ignored-for-custom-jobs",
                            format!(
                                "stop_on_error=true: job{first}'s failure was recorded, the library never set the cancel flag, and job(s) {late:?} — whose wrapper started only after that — ran their operation"
                            ),
                        );
                    } else {
                        fail(
                            "C22/stop-on-error-late-job-ran",
                            format!(
                                "stop_on_error=true: job{first}'s failure was recorded at log position {f}, job(s) {late:?} started after it and still ran their operation (cancel flag set by library: {lib_stored:?}, set by canceller before their start: {flag_set_before_start})"
                            ),
                        );
                    }
                }
            }
        }

        let outcome = vx::h64(&(
            end.class(),
            &rec.summary,
            final_progress,
            &ran,
            rec.body_panic.is_some(),
            rec.exec_err.is_some(),
        ));
        let rendered = if want_render || !viol.is_empty() {
            Some(json!({
                "config": cfg.to_json(),
                "schedule_task_ids": schedule,
                "end": format!("{end:?}"),
                "log": rec.log.iter().map(|e| format!("{e:?}")).collect::<Vec<_>>(),
                "summary": rec.summary.as_ref().map(|s| json!({
                    "total_jobs": s.total_jobs, "successful": s.successful, "failed": s.failed, "cancelled": s.cancelled,
                    "results": s.results.iter().map(|r| format!("{}:{}", r.0, ["Success","Failed","Cancelled"][r.1 as usize])).collect::<Vec<_>>() })),
                "final_progress_completed_failed_running": final_progress.map(|p| vec![p.0, p.1, p.2]),
                "progress_calls": rec.progress.len(),
                "replay_choices": replay_choices(cfg, schedule),
            }))
        } else {
            None
        };
        ExecReport { outcome, violations: viol, rendered }
    }
}

pub fn replay_choices(cfg: &Cfg, schedule: &[u8]) -> Vec<u32> {
    let mut v = cfg.encode();
    v.extend(schedule.iter().map(|&t| t as u32));
    v
}

pub fn limits(cfg: &Cfg) -> Limits {
    Limits { bound: cfg.bound, horizon: HORIZON, spin_limit: SPIN_LIMIT }
}

/// Every configuration of the tier (bound field = 0; the bound is raised per configuration
/// by iterative context bounding, see `explore_icb`).
pub fn configs(thorough: bool) -> Vec<Cfg> {
    let mut v = Vec::new();
    let (max_n, max_par) = if thorough { (3, 3) } else { (2, 2) };
    for n in 1..=max_n {
        for par in 1..=max_par {
            let total = 3usize.pow(n as u32);
            for code in 0..total {
                let mut outcomes = Vec::with_capacity(n);
                let mut c = code;
                for _ in 0..n {
                    outcomes.push((c % 3) as u8);
                    c /= 3;
                }
                for flags in 0..8u32 {
                    v.push(Cfg {
                        n,
                        par,
                        stop: flags & 1 != 0,
                        cb: flags & 2 != 0,
                        cancel: flags & 4 != 0,
                        bound: 0,
                        outcomes: outcomes.clone(),
                    });
                }
            }
        }
    }
    v
}

/// Iterative context bounding plan: every configuration is explored completely with
/// preemption bound 0, 1, 2, ... and the bound is raised while it is below `max_bound(cfg)` and
/// the *predicted* size of the next tree is within `budget` schedules. The prediction only uses
/// the (deterministic) schedule counts of the finished rounds, so the plan does not depend on
/// the machine.
#[derive(Clone, Copy, Debug)]
pub struct Plan {
    pub budget: u64,
    pub max_bound_small: u32,
    pub max_bound_n3: u32,
}
impl Plan {
    pub fn for_tier(thorough: bool) -> Plan {
        if thorough {
            Plan { budget: 600_000, max_bound_small: 3, max_bound_n3: 2 }
        } else {
            Plan { budget: 300_000, max_bound_small: 2, max_bound_n3: 2 }
        }
    }
    fn max_bound(&self, c: &Cfg) -> u32 {
        if c.n >= 3 {
            self.max_bound_n3
        } else {
            self.max_bound_small
        }
    }
}

/// Predicted number of schedules with one more preemption allowed (measured growth of this
/// harness: the ratio between successive bounds shrinks by about 0.4 then 0.65; the factors
/// below err on the large side).
fn predict_next(b: u32, c_b: u64, c_prev: u64) -> u64 {
    let c = c_b as f64;
    let p = match b {
        0 => c * (30.0 + c / 3.0),
        1 => c * (c / c_prev.max(1) as f64) * 0.5,
        _ => c * (c / c_prev.max(1) as f64) * 0.7,
    };
    p.min(1e18) as u64
}

pub struct RunOut {
    /// configuration with the highest bound that was completed for it
    pub cfgs: Vec<Cfg>,
    /// result of that last round
    pub accs: Vec<Accum>,
    /// schedules per completed bound, bound 0 first
    pub rounds: Vec<Vec<u64>>,
    /// why the bound was not raised further
    pub stopped_because: Vec<String>,
    /// the wall-clock guard fired: the last round is incomplete
    pub capped: Option<String>,
    pub wall_s: f64,
}

fn explore_round(cfgs: &[Cfg], threads: usize, deadline: std::time::Instant) -> (Vec<Accum>, bool) {
    let mut order: Vec<usize> = (0..cfgs.len()).collect();
    order.sort_by_key(|&i| std::cmp::Reverse(cfgs[i].weight()));
    let cfgs: Arc<Vec<Cfg>> = Arc::new(cfgs.to_vec());
    let (c1, c2) = (cfgs.clone(), cfgs.clone());
    bdfs::explore_all(
        cfgs.len(),
        order,
        threads,
        Arc::new(move |i| limits(&c1[i])),
        Arc::new(move |i| Arc::new(Load { cfg: c2[i].clone() }) as Arc<dyn Workload>),
        Some(deadline),
    )
}

pub fn explore_icb(base: Vec<Cfg>, plan: Plan, threads: usize, deadline: std::time::Instant) -> RunOut {
    let n = base.len();
    let mut out = RunOut {
        cfgs: base.clone(),
        accs: (0..n).map(|_| Accum::default()).collect(),
        rounds: vec![Vec::new(); n],
        stopped_because: vec![String::new(); n],
        capped: None,
        wall_s: 0.0,
    };
    // representative of every violation key from the lowest bound that shows it
    let mut first_seen: Vec<BTreeMap<String, (u32, bdfs::FoundV)>> = vec![BTreeMap::new(); n];
    let mut active: Vec<usize> = (0..n).collect();
    let mut b = 0u32;
    let t_all = std::time::Instant::now();
    while !active.is_empty() {
        let round_cfgs: Vec<Cfg> = active
            .iter()
            .map(|&i| {
                let mut c = base[i].clone();
                c.bound = b;
                c
            })
            .collect();
        let t0 = std::time::Instant::now();
        let (accs, capped) = explore_round(&round_cfgs, threads, deadline);
        if capped {
            out.capped = Some(format!("wall cap reached during the round with preemption bound {b}; that round is incomplete and not counted (results are those of bound {})", b.saturating_sub(1)));
        }
        let total: u64 = accs.iter().map(|a| a.execs).sum();
        crate::elog(&format!(
            "[C22] round preemptions<={b}: {} configurations, {} schedules, {:.1}s",
            active.len(),
            total,
            t0.elapsed().as_secs_f64()
        ));
        let mut next = Vec::new();
        for (k, acc) in accs.into_iter().enumerate() {
            let i = active[k];
            for (key, v) in &acc.viol {
                first_seen[i].entry(key.clone()).or_insert_with(|| (b, v.clone()));
            }
            if capped && b > 0 {
                // incomplete round: the numbers of the last complete bound stay; violations met in
                // the partial round are real and are kept
                out.stopped_because[i] = format!("wall cap during the round with bound {b}");
                for (key, v) in acc.viol {
                    out.accs[i].viol.entry(key).or_insert(v);
                }
                continue;
            }
            // a schedule that ends in a hang costs about 20 ordinary ones (its unfinished tasks
            // are unwound and their stacks cannot be reused), so it weighs that much in the budget
            let hangs = acc.ends.get("lone-spin").copied().unwrap_or(0) + acc.ends.get("horizon").copied().unwrap_or(0);
            let c_b = acc.execs;
            let c_prev = out.rounds[i].last().copied().unwrap_or(1);
            let cost_factor = 1.0 + 19.0 * hangs as f64 / c_b.max(1) as f64;
            out.rounds[i].push(c_b);
            out.cfgs[i].bound = b;
            let fatal = acc.fatal.is_some();
            out.accs[i] = acc;
            if capped {
                out.stopped_because[i] = "wall cap".into();
            } else if fatal {
                out.stopped_because[i] = "machinery error".into();
            } else if b >= plan.max_bound(&base[i]) {
                out.stopped_because[i] = format!("tier maximum {}", plan.max_bound(&base[i]));
            } else {
                let pred = (predict_next(b, c_b, c_prev) as f64 * cost_factor) as u64;
                if pred > plan.budget {
                    out.stopped_because[i] =
                        format!("next bound predicted at {pred} schedules, budget {}", plan.budget);
                } else {
                    next.push(i);
                }
            }
        }
        if capped {
            next.clear();
        }
        active = next;
        b += 1;
    }
    out.wall_s = t_all.elapsed().as_secs_f64();
    // counts come from the last round (it contains every schedule of the lower bounds); the
    // representative counterexample is the one with the fewest preemptions
    for i in 0..n {
        for (key, (bound, fv)) in std::mem::take(&mut first_seen[i]) {
            if let Some(e) = out.accs[i].viol.get_mut(&key) {
                if bound < out.cfgs[i].bound {
                    e.detail = fv.detail;
                    e.schedule = fv.schedule;
                    e.rendered = fv.rendered;
                }
            } else {
                // cannot happen (a higher bound explores a superset) — keep it visible if it does
                out.accs[i].viol.insert(key, fv);
            }
        }
    }
    out
}

/// One explicit schedule of one configuration.
pub fn replay(cfg: &Cfg, schedule: Vec<u8>) -> Accum {
    bdfs::run_item(
        bdfs::WorkItem::root(0),
        limits(cfg),
        Arc::new(Load { cfg: cfg.clone() }),
        None,
        Some(schedule),
    )
}

/// Group per-configuration results into evidence sections (one per jobs x workers).
pub fn sections(out: &RunOut) -> Vec<(vx::SectionStats, Vec<vx::FoundViolation>)> {
    let mut groups: BTreeMap<String, Vec<usize>> = BTreeMap::new();
    for (i, c) in out.cfgs.iter().enumerate() {
        groups.entry(c.section()).or_default().push(i);
    }
    let mut res = Vec::new();
    for (name, idxs) in groups {
        let mut st = vx::SectionStats { name: name.clone(), ..Default::default() };
        st.mode = "BDFS, iterative context bounding (bound per configuration in `configurations`)".into();
        let mut found: BTreeMap<String, vx::FoundViolation> = BTreeMap::new();
        let mut per_cfg = Vec::new();
        let mut ends: BTreeMap<&'static str, u64> = BTreeMap::new();
        let mut bounds: BTreeMap<u32, u64> = BTreeMap::new();
        let mut lower_rounds = 0u64;
        for &i in &idxs {
            let (c, a) = (&out.cfgs[i], &out.accs[i]);
            st.states += a.states;
            st.transitions += a.states.saturating_sub(1);
            st.executions += a.execs;
            st.evaluations += a.execs;
            st.distinct_inputs += 1;
            st.distinct_outcomes += a.outcomes.len() as u64;
            if a.execs > 1 {
                st.distinct_nontrivial += 1;
            }
            st.max_depth = st.max_depth.max(a.max_depth);
            *bounds.entry(c.bound).or_default() += 1;
            let r = &out.rounds[i];
            lower_rounds += r[..r.len().saturating_sub(1)].iter().sum::<u64>();
            for (k, v) in &a.ends {
                *ends.entry(k).or_default() += v;
            }
            per_cfg.push(json!({
                "config": c.describe(), "preemption_bound_completed": c.bound,
                "schedules_per_bound": r, "bound_not_raised_because": out.stopped_because[i],
                "scheduling_points": a.states, "distinct_outcomes": a.outcomes.len(), "ends": a.ends,
                "violation_keys": a.viol.iter().map(|(k, v)| json!({"key": k, "schedules": v.count})).collect::<Vec<_>>(),
            }));
            for s in a.samples.iter().take(1) {
                if st.samples.len() < 8 && (i % 7 == 0) {
                    st.samples.push(s.clone());
                }
            }
            for (k, v) in &a.viol {
                // the representative's own bound is in its rendering; decode it from there
                let rep_choices = v
                    .rendered
                    .as_ref()
                    .and_then(|r| r["replay_choices"].as_array())
                    .map(|a| a.iter().map(|x| x.as_u64().unwrap_or(0) as u32).collect::<Vec<u32>>())
                    .unwrap_or_else(|| replay_choices(c, &v.schedule));
                let fv = vx::FoundViolation {
                    key: k.clone(),
                    detail: format!("[{}] {}", c.describe(), v.detail),
                    section: name.clone(),
                    choices: rep_choices,
                    labels: vec!["header_len,n,workers,stop,cb,cancel,bound,outcomes..,then schedule task ids".into()],
                    count: v.count,
                    rendered: v.rendered.clone(),
                };
                match found.get_mut(k) {
                    Some(e) => {
                        e.count += fv.count;
                        if fv.choices.len() < e.choices.len() {
                            let cnt = e.count;
                            *e = fv;
                            e.count = cnt;
                        }
                    }
                    None => {
                        found.insert(k.clone(), fv);
                    }
                }
            }
            if let Some(f) = &a.fatal {
                st.caps_hit.push(format!("machinery: {f}"));
            }
        }
        if let Some(c) = &out.capped {
            st.caps_hit.push(c.clone());
        }
        st.exhaustive = st.caps_hit.is_empty();
        let all: u64 = out.rounds.iter().map(|r| r.iter().sum::<u64>()).sum();
        st.wall_s = out.wall_s * (st.executions + lower_rounds) as f64 / all.max(1) as f64;
        st.extra.insert("preemption_bound_completed".into(), json!(bounds.keys().next().copied().unwrap_or(0)));
        st.extra.insert("configurations_per_completed_bound".into(), json!(bounds));
        st.extra.insert("schedules_in_lower_bound_rounds_not_counted_above".into(), json!(lower_rounds));
        st.extra.insert("horizon_steps".into(), json!(HORIZON));
        st.extra.insert("lone_spin_limit".into(), json!(SPIN_LIMIT));
        st.extra.insert("execution_ends".into(), json!(ends));
        st.extra.insert("configurations".into(), json!(per_cfg));
        res.push((st, found.into_values().collect()));
    }
    res
}
