//! C29 — the object cache behaves as a bounded least-recently-used map.
//!
//! * sequential, engine C: stateright explicit-state search over the real `LruCache`; the
//!   state is an operation history, identified (hashed/compared) by a canonical form that is
//!   measured on the real object through its public API only; the whole reachable graph is
//!   closed, not depth-bounded.
//! * sequential, engine A cross-check: every history up to a length bound, unmerged.
//! * concurrent, engine B: the real `ObjectCache` under the preemption-bounded scheduler;
//!   the recorded call/return history must be linearizable w.r.t. the abstract LRU.

use crate::bdfs::{self, Accum, End, ExecReport, Limits, Viol, Workload};
use crate::lru::ModelLru;
use oxidize_pdf::memory::cache::{LruCache, ObjectCache};
use oxidize_pdf::objects::ObjectId;
use oxidize_pdf::parser::PdfObject;
use serde_json::{json, Value};
use stateright::{Checker, Model, Property};
use std::cell::RefCell;
use std::collections::BTreeMap;
use std::hash::{Hash, Hasher};
use std::panic::{catch_unwind, AssertUnwindSafe};
use std::sync::atomic::{AtomicU64, Ordering};
use std::sync::{Arc, Mutex};

// =============================================================== sequential

const NKEYS: u8 = 5;
const NVALS: u8 = 2;

#[derive(Clone, Copy, Debug, PartialEq, Eq, Hash)]
pub enum Op {
    Put(u8, u8),
    Get(u8),
    Clear,
}

fn all_ops() -> Vec<Op> {
    let mut v = Vec::new();
    for k in 0..NKEYS {
        for x in 0..NVALS {
            v.push(Op::Put(k, x));
        }
    }
    for k in 0..NKEYS {
        v.push(Op::Get(k));
    }
    v.push(Op::Clear);
    v
}

trait Cache {
    fn make(cap: usize) -> Self;
    fn c_put(&mut self, k: u8, v: u8);
    fn c_get(&mut self, k: u8) -> Option<u8>;
    fn c_clear(&mut self);
    fn c_len(&self) -> usize;
    fn c_is_empty(&self) -> bool;
}
impl Cache for LruCache<u8, u8> {
    fn make(cap: usize) -> Self {
        LruCache::new(cap)
    }
    fn c_put(&mut self, k: u8, v: u8) {
        self.put(k, v)
    }
    fn c_get(&mut self, k: u8) -> Option<u8> {
        self.get(&k).copied()
    }
    fn c_clear(&mut self) {
        self.clear()
    }
    fn c_len(&self) -> usize {
        self.len()
    }
    fn c_is_empty(&self) -> bool {
        self.is_empty()
    }
}
impl Cache for ModelLru<u8, u8> {
    fn make(cap: usize) -> Self {
        ModelLru::new(cap)
    }
    fn c_put(&mut self, k: u8, v: u8) {
        let _ = self.put(k, v);
    }
    fn c_get(&mut self, k: u8) -> Option<u8> {
        self.get(k)
    }
    fn c_clear(&mut self) {
        self.clear()
    }
    fn c_len(&self) -> usize {
        self.len()
    }
    fn c_is_empty(&self) -> bool {
        self.len() == 0
    }
}

fn apply<C: Cache>(c: &mut C, op: Op) -> Option<Option<u8>> {
    match op {
        Op::Put(k, v) => {
            c.c_put(k, v);
            None
        }
        Op::Get(k) => Some(c.c_get(k)),
        Op::Clear => {
            c.c_clear();
            None
        }
    }
}

/// probe j: (len after j never-used keys were inserted, then the value read for every original key)
type Canon = Vec<(usize, Vec<Option<u8>>)>;

/// Canonical form of "the cache after `hist`", measured through the public API only: for
/// j = 0..=cap a *fresh* cache replays the history, receives j never-used keys, and only then
/// every original key is read. No probe disturbs the order it measures (each has its own
/// replay); j = 0 gives the contents, the shrinking survivor sets give the recency order.
fn canon<C: Cache>(cap: usize, hist: &[Op]) -> Canon {
    let mut out = Vec::with_capacity(cap + 1);
    for j in 0..=cap {
        let mut c = C::make(cap);
        for &op in hist {
            let _ = apply(&mut c, op);
        }
        for f in 0..j {
            c.c_put(100 + f as u8, 9);
        }
        let len = c.c_len();
        let reads = (0..NKEYS).map(|k| c.c_get(k)).collect();
        out.push((len, reads));
    }
    out
}

/// Run `hist` on the real cache and on the abstract LRU in lockstep. Returns the real
/// canonical form and the first disagreement (key, detail).
fn eval(cap: usize, hist: &[Op]) -> (Canon, Option<(String, String)>) {
    let mut real = <LruCache<u8, u8> as Cache>::make(cap);
    let mut model = <ModelLru<u8, u8> as Cache>::make(cap);
    let mut bad: Option<(String, String)> = None;
    for (i, &op) in hist.iter().enumerate() {
        let r = apply(&mut real, op);
        let m = apply(&mut model, op);
        if bad.is_none() {
            if r != m {
                bad = Some((
                    "C29/seq-get-returns-wrong-value".into(),
                    format!("capacity {cap}, history {hist:?}: step {i} {op:?} returned {:?}, abstract LRU says {:?}", r.unwrap(), m.unwrap()),
                ));
            } else if real.c_len() > cap {
                bad = Some((
                    "C29/seq-capacity-exceeded".into(),
                    format!("capacity {cap}, history {hist:?}: len()={} after step {i} {op:?}", real.c_len()),
                ));
            } else if real.c_len() != model.c_len() || real.c_is_empty() != model.c_is_empty() {
                bad = Some((
                    "C29/seq-len-differs".into(),
                    format!(
                        "capacity {cap}, history {hist:?}: after step {i} {op:?} len()={} is_empty()={}, abstract LRU holds {}",
                        real.c_len(), real.c_is_empty(), model.c_len()
                    ),
                ));
            }
        }
    }
    let cr = canon::<LruCache<u8, u8>>(cap, hist);
    if bad.is_none() {
        let cm = canon::<ModelLru<u8, u8>>(cap, hist);
        if cr != cm {
            let key = if cr[0] != cm[0] { "C29/seq-contents-differ" } else { "C29/seq-eviction-order-not-lru" };
            let j = (0..cr.len()).find(|&j| cr[j] != cm[j]).unwrap();
            bad = Some((
                key.into(),
                format!(
                    "capacity {cap}, history {hist:?}: after inserting {j} fresh key(s) the cache has len {} and keys 0..{NKEYS} read {:?}; abstract LRU: len {} reads {:?}",
                    cr[j].0, cr[j].1, cm[j].0, cm[j].1
                ),
            ));
        }
    }
    (cr, bad)
}

#[derive(Clone, Debug)]
struct St {
    hist: Vec<Op>,
    canon: Canon,
    bad: Option<(String, String)>,
}
impl PartialEq for St {
    fn eq(&self, o: &Self) -> bool {
        self.canon == o.canon && self.bad.is_some() == o.bad.is_some()
    }
}
impl Eq for St {}
impl Hash for St {
    fn hash<H: Hasher>(&self, h: &mut H) {
        self.canon.hash(h);
        self.bad.is_some().hash(h);
    }
}

struct SeqModel {
    cap: usize,
    ops: Vec<Op>,
    transitions: Arc<AtomicU64>,
    samples: Arc<Mutex<Vec<Value>>>,
}
impl Model for SeqModel {
    type State = St;
    type Action = Op;
    fn init_states(&self) -> Vec<St> {
        let (canon, bad) = eval(self.cap, &[]);
        vec![St { hist: vec![], canon, bad }]
    }
    fn actions(&self, s: &St, out: &mut Vec<Op>) {
        if s.bad.is_none() {
            out.extend(self.ops.iter().copied());
        }
    }
    fn next_state(&self, s: &St, a: Op) -> Option<St> {
        let n = self.transitions.fetch_add(1, Ordering::Relaxed) + 1;
        let mut hist = s.hist.clone();
        hist.push(a);
        let (canon, bad) = eval(self.cap, &hist);
        if n.is_power_of_two() {
            self.samples.lock().unwrap().push(json!({
                "capacity": self.cap, "history": format!("{hist:?}"),
                "canonical_form_len_and_reads_per_probe": format!("{canon:?}"),
            }));
        }
        Some(St { hist, canon, bad })
    }
    fn properties(&self) -> Vec<Property<Self>> {
        vec![Property::always("conforms to the abstract LRU", |_, s: &St| s.bad.is_none())]
    }
}

struct SeqRun {
    unique: u64,
    generated: u64,
    transitions: u64,
    max_depth: u64,
    samples: Vec<Value>,
    bad: Option<(Vec<Op>, String, String)>,
}

fn seq_closure_once(cap: usize, threads: usize) -> SeqRun {
    let transitions = Arc::new(AtomicU64::new(0));
    let samples = Arc::new(Mutex::new(Vec::new()));
    let m = SeqModel { cap, ops: all_ops(), transitions: transitions.clone(), samples: samples.clone() };
    let ck = m.checker().threads(threads).spawn_bfs().join();
    let mut bad = None;
    for (_name, path) in ck.discoveries() {
        let s = path.last_state().clone();
        if let Some((k, d)) = s.bad {
            bad = Some((s.hist, k, d));
        }
    }
    let samples = samples.lock().unwrap().clone();
    SeqRun {
        unique: ck.unique_state_count() as u64,
        generated: ck.state_count() as u64,
        transitions: transitions.load(Ordering::Relaxed),
        max_depth: ck.max_depth() as u64,
        samples,
        bad,
    }
}

fn op_code(op: Op) -> u32 {
    all_ops().iter().position(|&o| o == op).unwrap() as u32
}

fn seq_section_name(cap: usize) -> String {
    format!("seq-closure-cap{cap}")
}

fn run_seq_closure(rep: &mut vx::Report, threads: usize) {
    for cap in 0..=4usize {
        let t0 = std::time::Instant::now();
        let a = seq_closure_once(cap, threads);
        let b = seq_closure_once(cap, threads);
        let mut st = vx::SectionStats { name: seq_section_name(cap), ..Default::default() };
        st.mode = "stateright BFS, closure of the reachable graph".into();
        st.states = a.unique;
        st.transitions = a.transitions;
        st.executions = a.transitions;
        st.evaluations = a.transitions;
        st.distinct_inputs = a.unique;
        st.distinct_outcomes = a.unique;
        st.distinct_nontrivial = a.unique;
        st.max_depth = a.max_depth;
        st.samples = a.samples.iter().take(8).cloned().collect();
        st.wall_s = t0.elapsed().as_secs_f64();
        st.exhaustive = true;
        st.extra.insert("capacity".into(), json!(cap));
        st.extra.insert("actions_per_state".into(), json!(all_ops().len()));
        st.extra.insert("states_generated_including_repeats".into(), json!(a.generated));
        st.extra.insert("second_run".into(), json!({"unique_states": b.unique, "transitions": b.transitions}));
        let mut found = Vec::new();
        for r in [&a, &b] {
            if let Some((hist, key, detail)) = &r.bad {
                if found.is_empty() {
                    let mut choices = vec![cap as u32];
                    choices.extend(hist.iter().map(|&o| op_code(o)));
                    found.push(vx::FoundViolation {
                        key: key.clone(),
                        detail: detail.clone(),
                        section: st.name.clone(),
                        choices,
                        labels: vec!["capacity, then op codes (index into put(k,v) k-major, get(k), clear)".into()],
                        count: 1,
                        rendered: Some(json!({"capacity": cap, "history": format!("{hist:?}")})),
                    });
                }
            }
        }
        if found.is_empty() && (a.unique != b.unique || a.transitions != b.transitions) {
            rep.machinery_error(format!(
                "C29 sequential capacity {cap}: two runs disagree (unique states {} vs {}, transitions {} vs {})",
                a.unique, b.unique, a.transitions, b.transitions
            ));
            st.exhaustive = false;
        }
        // the closed graph must be exactly the set of (ordered resident keys, values): sum over n<=cap of P(5,n)*2^n
        if found.is_empty() {
            let mut expect = 0u64;
            for n in 0..=cap.min(NKEYS as usize) {
                let mut p = 1u64;
                for i in 0..n {
                    p *= (NKEYS as u64) - i as u64;
                }
                expect += p * (NVALS as u64).pow(n as u32);
            }
            st.extra.insert("expected_states_by_counting".into(), json!(expect));
            if a.unique != expect {
                rep.machinery_error(format!(
                    "C29 sequential capacity {cap}: closed graph has {} states, counting ordered resident key/value arrangements gives {expect}",
                    a.unique
                ));
            }
        }
        rep.add_section(st, found);
    }
}

fn replay_seq(rep: &mut vx::Report, t: &vx::ReplayTarget) {
    let cap = t.choices.first().copied().unwrap_or(0) as usize;
    let ops = all_ops();
    let hist: Vec<Op> = t.choices[1.min(t.choices.len())..].iter().map(|&c| ops[(c as usize).min(ops.len() - 1)]).collect();
    println!("replay section={} capacity={cap} history={hist:?}", t.section);
    let (canon, bad) = eval(cap, &hist);
    println!("canonical form (len, reads of keys 0..{NKEYS}) per probe: {canon:?}");
    if let Some((k, d)) = bad {
        println!("violation key={k} detail={d}");
        rep.replay_hits.push(vx::Violation { key: k, detail: d });
    }
    rep.replay_ran = true;
}

fn run_seq_unmerged(rep: &mut vx::Report, len: usize) {
    let ops = all_ops();
    rep.explore("seq-histories-unmerged", vx::Explore::full(), move |c: &mut vx::Ctx| {
        let cap = c.choose("capacity", 5);
        let mut hist = Vec::with_capacity(len);
        for _ in 0..len {
            hist.push(ops[c.choose("op", ops.len())]);
        }
        let (canon, bad) = eval(cap, &hist);
        c.input(vx::h64(&(cap, &hist)));
        c.outcome(vx::h64(&canon));
        if canon.len() > 1 && canon[0].0 == cap && cap > 0 {
            c.nontrivial(); // the cache is full at the end of the history
        }
        if let Some((k, d)) = bad {
            c.fail(k, d);
        }
        if c.want_sample() {
            c.sample(json!({"capacity": cap, "history": format!("{hist:?}"), "canonical": format!("{canon:?}")}));
        }
    });
}

// =============================================================== concurrent

const CKEYS: u8 = 3;

#[derive(Clone, Copy, Debug, PartialEq, Eq, Hash, PartialOrd, Ord)]
pub enum COp {
    Put(u8),
    Get(u8),
    Clear,
    Stats,
}
fn cop_alphabet() -> Vec<COp> {
    let mut v = Vec::new();
    for k in 0..CKEYS {
        v.push(COp::Put(k));
    }
    for k in 0..CKEYS {
        v.push(COp::Get(k));
    }
    v.push(COp::Clear);
    v.push(COp::Stats);
    v
}

#[derive(Clone, Copy, Debug, PartialEq, Eq, Hash)]
enum Ret {
    Unit,
    Got(Option<i64>),
    Stats(usize, usize),
}

#[derive(Clone, Debug)]
pub struct CCfg {
    pub cap: usize,
    pub threads: usize,
    pub per: usize,
    pub bound: u32,
    /// thread-major: ops[t*per + i]
    pub ops: Vec<COp>,
}
impl CCfg {
    fn value_of(&self, slot: usize) -> i64 {
        // every put writes a value no other put writes
        10 + slot as i64
    }
    fn section(&self) -> String {
        format!("conc-t{}x{}-cap{}-b{}", self.threads, self.per, self.cap, self.bound)
    }
    fn describe(&self) -> String {
        let per: Vec<String> = (0..self.threads)
            .map(|t| format!("T{}{:?}", t + 1, &self.ops[t * self.per..(t + 1) * self.per]))
            .collect();
        format!("capacity={} {} preemptions<={}", self.cap, per.join(" "), self.bound)
    }
    fn encode(&self) -> Vec<u32> {
        let alpha = cop_alphabet();
        let mut v = vec![0, self.cap as u32, self.threads as u32, self.per as u32, self.bound];
        v.extend(self.ops.iter().map(|o| alpha.iter().position(|a| a == o).unwrap() as u32));
        v[0] = v.len() as u32;
        v
    }
    fn decode(ch: &[u32]) -> Result<(CCfg, Vec<u8>), String> {
        let hl = *ch.first().ok_or("empty choices")? as usize;
        if hl < 5 || ch.len() < hl {
            return Err("bad header".into());
        }
        let (cap, threads, per, bound) = (ch[1] as usize, ch[2] as usize, ch[3] as usize, ch[4]);
        if hl != 5 + threads * per || threads == 0 || threads > 4 {
            return Err("header length does not match thread/op counts".into());
        }
        let alpha = cop_alphabet();
        let ops = ch[5..hl].iter().map(|&c| alpha.get(c as usize).copied().ok_or("bad op code")).collect::<Result<Vec<_>, _>>()?;
        Ok((CCfg { cap, threads, per, bound, ops }, ch[hl..].iter().map(|&x| x as u8).collect()))
    }
}

#[derive(Clone, Debug)]
struct Call {
    slot: usize,
    call: u64,
    ret: u64,
    out: Ret,
}
#[derive(Default)]
struct CRec {
    clock: u64,
    calls: Vec<Call>,
    finals: Option<(Ret, Vec<Ret>)>,
    body_panic: Option<String>,
}
thread_local! {
    static CREC: RefCell<CRec> = RefCell::new(CRec::default());
}
fn tick() -> u64 {
    CREC.with(|r| {
        let mut r = r.borrow_mut();
        r.clock += 1;
        r.clock
    })
}
fn oid(k: u8) -> ObjectId {
    ObjectId::new(1 + k as u32, 0)
}
fn do_op(cache: &ObjectCache, op: COp, value: i64) -> Ret {
    match op {
        COp::Put(k) => {
            cache.put(oid(k), Arc::new(PdfObject::Integer(value)));
            Ret::Unit
        }
        COp::Get(k) => Ret::Got(cache.get(&oid(k)).map(|o| match &*o {
            PdfObject::Integer(v) => *v,
            _ => i64::MIN,
        })),
        COp::Clear => {
            cache.clear();
            Ret::Unit
        }
        COp::Stats => {
            let s = cache.stats();
            Ret::Stats(s.size, s.capacity)
        }
    }
}
fn model_op(m: &mut ModelLru<u8, i64>, op: COp, value: i64) -> Ret {
    match op {
        COp::Put(k) => {
            let _ = m.put(k, value);
            Ret::Unit
        }
        COp::Get(k) => Ret::Got(m.get(k)),
        COp::Clear => {
            m.clear();
            Ret::Unit
        }
        COp::Stats => Ret::Stats(m.len(), m.capacity()),
    }
}

struct CLoad {
    cfg: CCfg,
}

impl CLoad {
    /// Is there a total order of the recorded calls that respects real time (a call that
    /// returned before another one started comes first) and in which the abstract LRU gives
    /// exactly the recorded return values, and afterwards the recorded final observations?
    fn linearizable(&self, calls: &[Call], finals: &(Ret, Vec<Ret>)) -> bool {
        fn rec(
            cfg: &CCfg,
            calls: &[Call],
            done: u32,
            model: &ModelLru<u8, i64>,
            finals: &(Ret, Vec<Ret>),
        ) -> bool {
            let n = calls.len();
            if done.count_ones() as usize == n {
                let mut m = model.clone();
                if model_op(&mut m, COp::Stats, 0) != finals.0 {
                    return false;
                }
                for k in 0..CKEYS {
                    if model_op(&mut m, COp::Get(k), 0) != finals.1[k as usize] {
                        return false;
                    }
                }
                return true;
            }
            for i in 0..n {
                if done & (1 << i) != 0 {
                    continue;
                }
                // i may be next only if nobody still pending returned before i was called
                let blocked = (0..n).any(|j| j != i && done & (1 << j) == 0 && calls[j].ret < calls[i].call);
                if blocked {
                    continue;
                }
                let mut m = model.clone();
                if model_op(&mut m, cfg.ops[calls[i].slot], cfg.value_of(calls[i].slot)) != calls[i].out {
                    continue;
                }
                if rec(cfg, calls, done | (1 << i), &m, finals) {
                    return true;
                }
            }
            false
        }
        rec(&self.cfg, calls, 0, &ModelLru::new(self.cfg.cap), finals)
    }
}

impl Workload for CLoad {
    fn before(&self) {
        CREC.with(|r| *r.borrow_mut() = CRec::default());
    }
    fn body(&self) {
        let cfg = self.cfg.clone();
        let r = catch_unwind(AssertUnwindSafe(move || {
            let cache = Arc::new(ObjectCache::new(cfg.cap));
            let mut hs = Vec::new();
            for t in 0..cfg.threads {
                let cache = cache.clone();
                let ops: Vec<(usize, COp, i64)> =
                    (0..cfg.per).map(|i| (t * cfg.per + i, cfg.ops[t * cfg.per + i], cfg.value_of(t * cfg.per + i))).collect();
                hs.push(shuttle::thread::spawn(move || {
                    for (slot, op, val) in ops {
                        let call = tick();
                        let out = do_op(&cache, op, val);
                        let ret = tick();
                        CREC.with(|r| r.borrow_mut().calls.push(Call { slot, call, ret, out }));
                    }
                }));
            }
            for h in hs {
                let _ = h.join();
            }
            let st = do_op(&cache, COp::Stats, 0);
            let gets = (0..CKEYS).map(|k| do_op(&cache, COp::Get(k), 0)).collect();
            CREC.with(|r| r.borrow_mut().finals = Some((st, gets)));
        }));
        if let Err(p) = r {
            let p = bdfs::rethrow_if_teardown(p);
            CREC.with(|r| r.borrow_mut().body_panic = Some(bdfs::panic_message(&*p)));
        }
    }
    fn after(&self, end: &End, schedule: &[u8], want_render: bool) -> ExecReport {
        let rec = CREC.with(|r| std::mem::take(&mut *r.borrow_mut()));
        let cfg = &self.cfg;
        let mut viol = Vec::new();
        match end {
            End::Diverged(_) => {}
            End::Deadlock(m) => viol.push(Viol { key: "C29/conc-deadlock".into(), detail: m.clone() }),
            End::Panic(m) => viol.push(Viol { key: "C29/conc-panic-in-cache-operation".into(), detail: m.clone() }),
            End::Horizon | End::LoneSpin(_) => {
                viol.push(Viol { key: "C29/conc-hang".into(), detail: format!("{end:?}") })
            }
            End::Completed => {
                if let Some(m) = &rec.body_panic {
                    viol.push(Viol { key: "C29/conc-panic-in-cache-operation".into(), detail: m.clone() });
                } else if rec.calls.len() != cfg.ops.len() || rec.finals.is_none() {
                    viol.push(Viol {
                        key: "C29/conc-operations-lost".into(),
                        detail: format!("{} of {} calls returned", rec.calls.len(), cfg.ops.len()),
                    });
                } else {
                    let finals = rec.finals.as_ref().unwrap();
                    let over = rec
                        .calls
                        .iter()
                        .map(|c| c.out)
                        .chain(std::iter::once(finals.0))
                        .any(|o| matches!(o, Ret::Stats(s, _) if s > cfg.cap));
                    if over {
                        viol.push(Viol {
                            key: "C29/conc-capacity-exceeded".into(),
                            detail: format!("a stats() call reported more than {} entries: calls {:?} final {:?}", cfg.cap, rec.calls, finals),
                        });
                    } else if !self.linearizable(&rec.calls, finals) {
                        viol.push(Viol {
                            key: "C29/conc-history-not-linearizable".into(),
                            detail: format!(
                                "no real-time-respecting order of the calls makes the abstract LRU (capacity {}) return what the threads saw: calls (slot,call,ret,result) {:?}; afterwards stats={:?} gets={:?}",
                                cfg.cap,
                                rec.calls.iter().map(|c| (c.slot, c.call, c.ret, c.out)).collect::<Vec<_>>(),
                                finals.0, finals.1
                            ),
                        });
                    }
                }
            }
        }
        let mut outs: Vec<(usize, Ret)> = rec.calls.iter().map(|c| (c.slot, c.out)).collect();
        outs.sort_by_key(|x| x.0);
        let outcome = vx::h64(&(end.class(), &outs, &rec.finals));
        let rendered = if want_render || !viol.is_empty() {
            Some(json!({
                "config": cfg.describe(),
                "schedule_task_ids": schedule,
                "end": format!("{end:?}"),
                "calls_slot_call_ret_result": rec.calls.iter().map(|c| format!("{:?}", (c.slot, c.call, c.ret, c.out))).collect::<Vec<_>>(),
                "final_stats_and_gets": format!("{:?}", rec.finals),
            }))
        } else {
            None
        };
        ExecReport { outcome, violations: viol, rendered }
    }
}

/// Every op vector over the alphabet, up to renaming of keys (the cache treats keys only by
/// equality, so a vector and its image under a key permutation behave identically): the
/// representative is the vector in which keys first appear in the order 0,1,2.
fn conc_vectors(slots: usize) -> Vec<Vec<COp>> {
    let alpha = cop_alphabet();
    let a = alpha.len();
    let mut out = Vec::new();
    let total = a.pow(slots as u32);
    'v: for code in 0..total {
        let mut c = code;
        let mut v = Vec::with_capacity(slots);
        for _ in 0..slots {
            v.push(alpha[c % a]);
            c /= a;
        }
        let mut next = 0u8;
        for op in &v {
            if let COp::Put(k) | COp::Get(k) = op {
                if *k > next {
                    continue 'v;
                }
                if *k == next {
                    next += 1;
                }
            }
        }
        out.push(v);
    }
    out
}

/// Preemption bounds per shape. 3 threads x 2 ops has ~18x more schedules per op vector than
/// 2 threads x 3 ops at the same bound, so it gets fewer preemptions: quick 2 / 0, thorough 3 / 2
/// (measured: 2x3 has 28 / 140 / 480 schedules per vector at bound 1 / 2 / 3, 3x2 has 13 / 276 / 2550 at 0 / 1 / 2).
fn conc_bounds(thorough: bool) -> (u32, u32) {
    if let Some(v) = std::env::var("VSCHED_C29_BOUNDS").ok() {
        let p: Vec<u32> = v.split(',').filter_map(|x| x.parse().ok()).collect();
        if p.len() == 2 {
            return (p[0], p[1]);
        }
    }
    if thorough {
        (3, 2)
    } else {
        (2, 0)
    }
}

fn conc_configs(thorough: bool) -> Vec<CCfg> {
    let (b23, b32) = conc_bounds(thorough);
    let mut v = Vec::new();
    for (threads, per, bound) in [(2usize, 3usize, b23), (3, 2, b32)] {
        let vecs = conc_vectors(threads * per);
        for cap in 1..=2usize {
            for ops in &vecs {
                v.push(CCfg { cap, threads, per, bound, ops: ops.clone() });
            }
        }
    }
    v
}

fn conc_limits(c: &CCfg) -> Limits {
    Limits { bound: c.bound, horizon: 10_000, spin_limit: 40 }
}

fn run_conc(rep: &mut vx::Report, thorough: bool, threads: usize) {
    let mut cfgs = conc_configs(thorough);
    // development aid (measurement only; the run is then reported as not exhaustive)
    let sampled_for_measurement = std::env::var("VSCHED_C29_EVERY").ok().and_then(|s| s.parse::<usize>().ok());
    if let Some(k) = sampled_for_measurement {
        cfgs = cfgs.into_iter().enumerate().filter(|(i, _)| i % k.max(1) == 0).map(|(_, c)| c).collect();
    }
    crate::elog(&format!("[C29] concurrent: {} configurations (op vectors up to key renaming x capacity)", cfgs.len()));
    let order: Vec<usize> = (0..cfgs.len()).collect();
    let t0 = std::time::Instant::now();
    let cfgs: Arc<Vec<CCfg>> = Arc::new(cfgs);
    let accs: (Vec<Accum>, bool) = {
        let _quiet = crate::Muted::new();
        let (c1, c2) = (cfgs.clone(), cfgs.clone());
        bdfs::explore_all(
            cfgs.len(),
            order,
            threads,
            Arc::new(move |i| conc_limits(&c1[i])),
            Arc::new(move |i| Arc::new(CLoad { cfg: c2[i].clone() }) as Arc<dyn Workload>),
            Some(bdfs::deadline(if thorough { 14 * 60 } else { 120 })),
        )
    };
    let (accs, capped) = accs;
    let wall = t0.elapsed().as_secs_f64();
    let mut groups: BTreeMap<String, Vec<usize>> = BTreeMap::new();
    for (i, c) in cfgs.iter().enumerate() {
        groups.entry(c.section()).or_default().push(i);
    }
    let total_execs: u64 = accs.iter().map(|a| a.execs).sum();
    for (name, idxs) in groups {
        let mut st = vx::SectionStats { name: name.clone(), ..Default::default() };
        let bound = cfgs[idxs[0]].bound;
        st.mode = format!("BDFS(preemptions<={bound})");
        let mut found: BTreeMap<String, vx::FoundViolation> = BTreeMap::new();
        let (mut min_s, mut max_s) = (u64::MAX, 0u64);
        let mut ends: BTreeMap<&'static str, u64> = BTreeMap::new();
        for &i in &idxs {
            let (c, a) = (&cfgs[i], &accs[i]);
            st.states += a.states;
            st.transitions += a.states.saturating_sub(1);
            st.executions += a.execs;
            st.evaluations += a.execs;
            st.distinct_inputs += 1;
            st.distinct_outcomes += a.outcomes.len() as u64;
            if a.outcomes.len() > 1 {
                st.distinct_nontrivial += 1;
            }
            st.max_depth = st.max_depth.max(a.max_depth);
            min_s = min_s.min(a.execs);
            max_s = max_s.max(a.execs);
            for (k, v) in &a.ends {
                *ends.entry(k).or_default() += v;
            }
            if st.samples.len() < 8 && (i % 997 == 0 || a.outcomes.len() > 3) {
                if let Some(s) = a.samples.last() {
                    st.samples.push(json!({"config": c.describe(), "schedules": a.execs, "distinct_return_vectors": a.outcomes.len(), "one_execution": s}));
                }
            }
            if let Some(f) = &a.fatal {
                st.caps_hit.push(format!("machinery: {}: {f}", c.describe()));
                rep.machinery_error(format!("{}: {f}", c.describe()));
            }
            if a.execs == 0 && a.fatal.is_none() && !capped {
                rep.machinery_error(format!("{}: no schedule executed", c.describe()));
            }
            for (k, v) in &a.viol {
                let mut choices = c.encode();
                choices.extend(v.schedule.iter().map(|&t| t as u32));
                let fv = vx::FoundViolation {
                    key: k.clone(),
                    detail: format!("[{}] {}", c.describe(), v.detail),
                    section: name.clone(),
                    choices,
                    labels: vec!["header_len,capacity,threads,ops_per_thread,bound,op codes thread-major (put k0..2,get k0..2,clear,stats), then schedule task ids".into()],
                    count: v.count,
                    rendered: v.rendered.clone(),
                };
                match found.get_mut(k) {
                    Some(e) => {
                        e.count += fv.count;
                        if fv.choices.len() < e.choices.len() {
                            let cnt = e.count;
                            *e = fv;
                            e.count = cnt;
                        }
                    }
                    None => {
                        found.insert(k.clone(), fv);
                    }
                }
            }
        }
        if capped {
            st.caps_hit.push("wall cap reached; the concurrent exploration is incomplete".into());
        }
        if capped {
            st.caps_hit.push("wall cap reached; the concurrent exploration is incomplete".into());
        }
        if let Some(k) = sampled_for_measurement {
            st.caps_hit.push(format!("VSCHED_C29_EVERY={k}: only every {k}-th op vector was run (measurement aid)"));
        }
        st.exhaustive = st.caps_hit.is_empty();
        st.wall_s = wall * (st.executions as f64) / (total_execs.max(1) as f64);
        st.extra.insert("preemption_bound_completed".into(), json!(bound));
        st.extra.insert("op_vectors".into(), json!(idxs.len()));
        st.extra.insert("schedules_per_vector_min_max".into(), json!([min_s, max_s]));
        st.extra.insert("execution_ends".into(), json!(ends));
        st.extra.insert("vectors_with_more_than_one_observable_result".into(), json!(st.distinct_nontrivial));
        crate::elog(&format!(
            "[C29] {name}: op vectors={} schedules={} (per vector {min_s}..{max_s}) scheduling points={} vectors with >1 outcome={} ends={ends:?}",
            idxs.len(), st.executions, st.states, st.distinct_nontrivial
        ));
        rep.add_section(st, found.into_values().collect());
    }
}

fn replay_conc(rep: &mut vx::Report, t: &vx::ReplayTarget) -> Result<(), String> {
    let (cfg, schedule) = CCfg::decode(&t.choices)?;
    println!("replay section={} config: {}", t.section, cfg.describe());
    println!("schedule (task ids): {schedule:?}");
    let acc = bdfs::run_item(bdfs::WorkItem::root(0), conc_limits(&cfg), Arc::new(CLoad { cfg }), None, Some(schedule));
    if let Some(f) = &acc.fatal {
        return Err(format!("replay diverged: {f}"));
    }
    for n in &acc.notes {
        println!("note: {n}");
    }
    for (k, v) in &acc.viol {
        println!("violation key={k} detail={}", v.detail);
        rep.replay_hits.push(vx::Violation { key: k.clone(), detail: v.detail.clone() });
    }
    for s in &acc.samples {
        println!("case={}", serde_json::to_string(s).unwrap_or_default());
    }
    rep.replay_ran = true;
    Ok(())
}

// =============================================================== entry

pub fn run(cli: &vx::Cli) -> i32 {
    let mut rep = vx::Report::new("C29", cli.tier);
    let thorough = cli.tier.is_thorough();
    let threads = vx::default_threads();
    rep.rule("sequential: one state = one operation history of the real LruCache, merged by a canonical form measured through the public API (contents + full recency order); every (state, action) pair is one transition executed on the real cache and compared with the abstract LRU; unmerged cross-check: every history of the stated length. concurrent: one case = one complete schedule of one op vector (up to key renaming) on the real ObjectCache; a vector is non-trivial when its schedules produce more than one distinct vector of return values");
    rep.assume("merging of histories trusts that the cache has no state that the probes (contents, len, full recency order via fresh-key insertion) cannot observe");
    rep.assume("concurrent: interleaving semantics at shuttle's RwLock acquire/release points; ObjectCache holds all state behind one RwLock and has no unsafe");
    rep.assume("concurrent: key-renaming symmetry — the cache uses keys only through Eq/Hash, so op vectors are enumerated up to a permutation of the 3 keys");
    rep.assume("put values are unique per (thread, position) so that a read identifies the write it saw");

    if let Some(path) = &cli.replay {
        let t = match vx::load_replay(path) {
            Ok(t) => t,
            Err(e) => {
                println!("MACHINERY-ERROR property=C29 cannot read replay file: {e}");
                return 2;
            }
        };
        if t.section.starts_with("seq-closure") {
            replay_seq(&mut rep, &t);
            rep.replay = Some(t);
        } else if t.section.starts_with("conc-") {
            if let Err(e) = replay_conc(&mut rep, &t) {
                println!("MACHINERY-ERROR property=C29 {e}");
                return 2;
            }
            rep.replay = Some(t);
        } else {
            // the recorded path is capacity + one choice per operation
            let len = t.choices.len().saturating_sub(1).max(1);
            rep.replay = Some(t);
            run_seq_unmerged(&mut rep, len);
        }
        return rep.finish();
    }

    run_seq_closure(&mut rep, threads.min(8));
    run_seq_unmerged(&mut rep, if thorough { 5 } else { 4 });
    run_conc(&mut rep, thorough, threads);
    rep.finish()
}
