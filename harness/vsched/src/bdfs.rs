//! Engine B: preemption-bounded exhaustive DFS over shuttle's public `Scheduler` trait.
//!
//! CHESS-style context bounding. At every scheduling point shuttle hands us the runnable
//! tasks; they are put in canonical order
//!
//!   * the running task first, if it is still runnable and did not ask to yield,
//!   * then every other runnable task in ascending task id;
//!
//! choosing a task other than a still-runnable, non-yielding current task costs one
//! preemption; options that would exceed the bound are not generated; the DFS over what
//! remains is complete. A yielding task must hand over when anything else is runnable.
//! The search is stateless: every execution replays the recorded prefix from the start and
//! the option list met at every replayed level must equal the recorded one, otherwise the
//! run is a machinery error (uncontrolled nondeterminism), never a verdict.
//!
//! Hangs: a hard horizon of `horizon` scheduling points, and — so that a genuine livelock
//! does not cost the whole horizon on every schedule — a lone-spinner rule: a task that
//! yields `spin_limit` times in a row while it is the *only* runnable task can never be
//! released by anybody else and is reported as a hang at once.
//!
//! The tree of one configuration can be split between OS threads: an idle worker receives
//! the unexplored alternatives of the shallowest open level of a busy one as a `WorkItem`
//! (fixed prefix + index range at the next level). Every tree node is counted exactly once,
//! so the sums equal the sequential enumeration.

use serde_json::Value;
use shuttle::scheduler::{Schedule, Scheduler, Task, TaskId};
use std::cell::RefCell;
use std::collections::{BTreeMap, HashSet, VecDeque};
use std::panic::{catch_unwind, AssertUnwindSafe};
use std::rc::Rc;
use std::sync::atomic::{AtomicBool, AtomicUsize, Ordering};
use std::sync::{Arc, Condvar, Mutex};
use std::time::Duration;

pub const MAX_OPTS: usize = 12;
/// a busy worker hands over part of its tree at most once per this many executions
const DONATE_EVERY: u64 = 400;

#[derive(Clone, Copy, Debug)]
pub struct Limits {
    pub bound: u32,
    pub horizon: usize,
    pub spin_limit: usize,
}

/// How one execution ended.
#[derive(Clone, Debug, PartialEq, Eq)]
pub enum End {
    /// every task finished
    Completed,
    /// `horizon` scheduling points reached
    Horizon,
    /// task `.0` yielded `spin_limit` times in a row while nothing else was runnable
    LoneSpin(u8),
    /// shuttle found no runnable task while attached tasks were unfinished
    Deadlock(String),
    /// a panic escaped a task (the harness wraps its own body, so this is unexpected)
    Panic(String),
    /// replay met a different option list: machinery error
    Diverged(String),
}

impl End {
    pub fn class(&self) -> &'static str {
        match self {
            End::Completed => "completed",
            End::Horizon => "horizon",
            End::LoneSpin(_) => "lone-spin",
            End::Deadlock(_) => "deadlock",
            End::Panic(_) => "escaped-panic",
            End::Diverged(_) => "diverged",
        }
    }
}

#[derive(Clone, Debug)]
pub struct Viol {
    pub key: String,
    pub detail: String,
}

pub struct ExecReport {
    pub outcome: u64,
    pub violations: Vec<Viol>,
    /// human-readable rendering; requested for samples, always given with violations
    pub rendered: Option<Value>,
}

/// One configuration: what runs inside an execution and how it is judged afterwards.
pub trait Workload: Send + Sync + 'static {
    /// runs on the exploring OS thread before the execution starts
    fn before(&self);
    /// task 0 of the execution (inside shuttle)
    fn body(&self);
    /// runs on the exploring OS thread after the execution ended (however it ended)
    fn after(&self, end: &End, schedule: &[u8], want_render: bool) -> ExecReport;
}

#[derive(Clone, Debug)]
pub struct WorkItem {
    pub cfg: usize,
    /// (chosen option index, number of options) for levels 0..prefix.len()
    pub prefix: Vec<(u8, u8)>,
    /// option index range explored at level prefix.len()
    pub lo: u8,
    pub hi: Option<u8>,
    /// true for the initial item of a configuration (its root level is counted here)
    pub root: bool,
}

impl WorkItem {
    pub fn root(cfg: usize) -> Self {
        WorkItem { cfg, prefix: Vec::new(), lo: 0, hi: None, root: true }
    }
}

#[derive(Clone, Copy)]
struct Level {
    opts: [u8; MAX_OPTS],
    n: u8,
    idx: u8,
    hi: u8,
}

struct Core {
    lim: Limits,
    item: WorkItem,
    stack: Vec<Level>,
    depth: usize,
    preempt: u32,
    steps: usize,
    lone: usize,
    lone_task: u8,
    sched: Vec<u8>,
    end: Option<End>,
    in_exec: bool,
    first: bool,
    fatal: Option<String>,
    replay: Option<Vec<u8>>,
    // counters
    new_states: u64,
    execs: u64,
    max_depth: u64,
    max_preempt_seen: u32,
    next_donation: u64,
    replay_note: Option<String>,
}

impl Core {
    fn new(lim: Limits, item: WorkItem, replay: Option<Vec<u8>>) -> Self {
        Core {
            lim,
            item,
            stack: Vec::with_capacity(256),
            depth: 0,
            preempt: 0,
            steps: 0,
            lone: 0,
            lone_task: u8::MAX,
            sched: Vec::with_capacity(256),
            end: None,
            in_exec: false,
            first: true,
            fatal: None,
            replay,
            new_states: 0,
            execs: 0,
            max_depth: 0,
            max_preempt_seen: 0,
            next_donation: DONATE_EVERY,
            replay_note: None,
        }
    }

    fn diverge(&mut self, msg: String) -> Option<TaskId> {
        self.end = Some(End::Diverged(msg.clone()));
        self.fatal = Some(msg);
        None
    }

    fn next(&mut self, runnable: &[&Task], current: Option<TaskId>, is_yielding: bool) -> Option<TaskId> {
        if self.end.is_some() {
            return None;
        }
        self.steps += 1;
        if self.steps > self.lim.horizon {
            self.end = Some(End::Horizon);
            return None;
        }
        let mut ids = [0u8; MAX_OPTS];
        let mut n = 0usize;
        for t in runnable {
            if t.runnable() {
                if n >= MAX_OPTS {
                    return self.diverge("more runnable tasks than MAX_OPTS".into());
                }
                ids[n] = usize::from(t.id()) as u8;
                n += 1;
            }
        }
        if n == 0 {
            // only blocked tasks that may wake spuriously (condvar waiters): offer them all
            for t in runnable {
                if n < MAX_OPTS {
                    ids[n] = usize::from(t.id()) as u8;
                    n += 1;
                }
            }
        }
        let cur = current.map(|t| usize::from(t) as u8);
        let cur_runnable = cur.map_or(false, |c| ids[..n].contains(&c));
        if is_yielding && n == 1 && cur_runnable {
            let c = cur.unwrap();
            if self.lone_task == c {
                self.lone += 1;
            } else {
                self.lone_task = c;
                self.lone = 1;
            }
            if self.lone > self.lim.spin_limit {
                self.end = Some(End::LoneSpin(c));
                return None;
            }
        } else if n > 1 || !cur_runnable {
            self.lone = 0;
            self.lone_task = u8::MAX;
        }
        let keep = cur_runnable && !is_yielding;
        let mut opts = [0u8; MAX_OPTS];
        let mut m = 0usize;
        if keep {
            let c = cur.unwrap();
            opts[0] = c;
            m = 1;
            if self.preempt < self.lim.bound {
                for &t in &ids[..n] {
                    if t != c {
                        opts[m] = t;
                        m += 1;
                    }
                }
            }
        } else if is_yielding && cur_runnable && n > 1 {
            let c = cur.unwrap();
            for &t in &ids[..n] {
                if t != c {
                    opts[m] = t;
                    m += 1;
                }
            }
        } else {
            opts[..n].copy_from_slice(&ids[..n]);
            m = n;
        }
        let d = self.depth;
        let choice: u8;
        if let Some(list) = self.replay.clone() {
            // explicit schedule: follow it, then canonical defaults
            if d < list.len() {
                let want = list[d];
                if !ids[..n].contains(&want) {
                    // the code under test changed since the schedule was recorded: say so and go on
                    // with canonical choices (a replay against a repaired tree must still end)
                    if self.replay_note.is_none() {
                        self.replay_note = Some(format!(
                            "recorded schedule not feasible on this tree: task {want} is not runnable at step {d} (runnable {:?}); continued with default choices",
                            &ids[..n]
                        ));
                    }
                    self.replay = Some(list[..d].to_vec());
                    self.depth += 1;
                    self.sched.push(opts[0]);
                    return Some(TaskId::from(opts[0] as usize));
                }
                choice = want;
            } else {
                choice = opts[0];
            }
        } else if d < self.stack.len() {
            let lv = &self.stack[d];
            if lv.n as usize != m || lv.opts[..m] != opts[..m] {
                let msg = format!(
                    "uncontrolled nondeterminism: level {d} had options {:?}, now {:?}",
                    &lv.opts[..lv.n as usize],
                    &opts[..m]
                );
                return self.diverge(msg);
            }
            choice = lv.opts[lv.idx as usize];
        } else {
            let p = self.item.prefix.len();
            let (idx, hi, counted) = if d < p {
                let (i, pn) = self.item.prefix[d];
                if pn as usize != m || i as usize >= m {
                    return self.diverge(format!(
                        "uncontrolled nondeterminism: donated prefix level {d} had {pn} options, now {m}"
                    ));
                }
                (i, i + 1, false)
            } else if d == p {
                let hi = self.item.hi.map(|h| h as usize).unwrap_or(m).min(m);
                if self.item.lo as usize >= hi {
                    return self.diverge(format!(
                        "uncontrolled nondeterminism: donated range {}..{:?} at level {d} but {m} options",
                        self.item.lo, self.item.hi
                    ));
                }
                (self.item.lo, hi as u8, self.item.root)
            } else {
                (0u8, m as u8, true)
            };
            self.stack.push(Level { opts, n: m as u8, idx, hi });
            if counted {
                self.new_states += 1;
            }
            choice = opts[idx as usize];
        }
        if keep && Some(choice) != cur {
            self.preempt += 1;
            if self.preempt > self.max_preempt_seen {
                self.max_preempt_seen = self.preempt;
            }
        }
        self.depth += 1;
        self.sched.push(choice);
        Some(TaskId::from(choice as usize))
    }

    /// Move to the next unexplored path. Returns false when this item is exhausted.
    fn backtrack(&mut self) -> bool {
        loop {
            match self.stack.last_mut() {
                None => return false,
                Some(l) => {
                    if l.idx + 1 < l.hi {
                        l.idx += 1;
                        return true;
                    }
                    self.stack.pop();
                }
            }
        }
    }

    /// Split off the unexplored alternatives of the shallowest open level.
    fn donate(&mut self) -> Option<WorkItem> {
        let p = self.item.prefix.len();
        for d in p..self.stack.len() {
            let l = self.stack[d];
            if l.idx + 1 < l.hi {
                let prefix: Vec<(u8, u8)> = self.stack[..d].iter().map(|x| (x.idx, x.n)).collect();
                let item = WorkItem { cfg: self.item.cfg, prefix, lo: l.idx + 1, hi: Some(l.hi), root: false };
                self.stack[d].hi = l.idx + 1;
                return Some(item);
            }
        }
        None
    }
}

/// Per-configuration accumulator (merged across work items).
#[derive(Default)]
pub struct Accum {
    pub execs: u64,
    pub states: u64,
    pub max_depth: u64,
    pub max_preempt: u32,
    pub outcomes: HashSet<u64>,
    pub ends: BTreeMap<&'static str, u64>,
    pub viol: BTreeMap<String, FoundV>,
    pub samples: Vec<Value>,
    pub fatal: Option<String>,
    pub notes: Vec<String>,
}

#[derive(Clone)]
pub struct FoundV {
    pub detail: String,
    pub schedule: Vec<u8>,
    pub rendered: Option<Value>,
    pub count: u64,
}

impl Accum {
    pub fn merge(&mut self, o: Accum) {
        self.execs += o.execs;
        self.states += o.states;
        self.max_depth = self.max_depth.max(o.max_depth);
        self.max_preempt = self.max_preempt.max(o.max_preempt);
        self.outcomes.extend(o.outcomes);
        for (k, v) in o.ends {
            *self.ends.entry(k).or_default() += v;
        }
        for (k, v) in o.viol {
            match self.viol.get_mut(&k) {
                Some(e) => {
                    e.count += v.count;
                    if (v.schedule.len(), &v.schedule) < (e.schedule.len(), &e.schedule) {
                        e.detail = v.detail;
                        e.schedule = v.schedule;
                        e.rendered = v.rendered;
                    }
                }
                None => {
                    self.viol.insert(k, v);
                }
            }
        }
        for s in o.samples {
            if self.samples.len() < 6 {
                self.samples.push(s);
            }
        }
        if self.fatal.is_none() {
            self.fatal = o.fatal;
        }
        self.notes.extend(o.notes);
    }
}

/// Where a worker gets its work items from and where finished ones go. One `Runner` (one
/// continuation pool) serves all the items a worker processes: creating a runner per item
/// costs several mmap/munmap calls, which dominates when there are 10^5 small configurations.
pub trait Source {
    fn next(&self) -> Option<(WorkItem, Limits, Arc<dyn Workload>, Option<Vec<u8>>)>;
    fn done(&self, cfg: usize, acc: Accum);
}

thread_local! {
    static CURRENT: RefCell<Option<Arc<dyn Workload>>> = const { RefCell::new(None) };
}

struct Shared {
    core: RefCell<Option<Core>>,
    acc: RefCell<Accum>,
    source: Rc<dyn Source>,
    pool: Option<Arc<Pool>>,
}

impl Shared {
    fn workload(&self) -> Arc<dyn Workload> {
        CURRENT.with(|c| c.borrow().clone()).expect("no current workload")
    }

    fn finish_exec(&self, forced_end: Option<End>) {
        let (end, sched) = {
            let mut g = self.core.borrow_mut();
            let c = match g.as_mut() {
                Some(c) => c,
                None => return,
            };
            if !c.in_exec {
                return;
            }
            c.in_exec = false;
            c.execs += 1;
            let d = c.depth as u64;
            if d > c.max_depth {
                c.max_depth = d;
            }
            // If we stopped the execution ourselves (horizon / lone spinner) that is the verdict,
            // even when shuttle's teardown of the stopped tasks then panicked: a catch_unwind on
            // a task stack (the hook's thread shim) may swallow the teardown unwind and run on.
            let own = c.end.take();
            let end = match (own, forced_end) {
                (Some(e @ (End::Horizon | End::LoneSpin(_) | End::Diverged(_))), _) => e,
                (_, Some(f)) => f,
                (Some(e), None) => e,
                (None, None) => End::Completed,
            };
            if c.first_exec_too_short() {
                let msg = format!(
                    "uncontrolled nondeterminism: execution ended at depth {} inside the donated prefix of length {}",
                    c.depth,
                    c.item.prefix.len()
                );
                c.fatal = Some(msg);
            }
            (end, std::mem::take(&mut c.sched))
        };
        let mut acc = self.acc.borrow_mut();
        let n = acc.execs + 1;
        if n % 50_000 == 0 && std::env::var_os("VSCHED_TRACE").is_some() {
            let g = self.core.borrow();
            let c = g.as_ref().unwrap();
            crate::elog(&format!(
                "[trace] cfg {} item(prefix {} lo {} hi {:?}) execs {} stack {} last end {:?} len {}",
                c.item.cfg, c.item.prefix.len(), c.item.lo, c.item.hi, n, c.stack.len(), end, sched.len()
            ));
        }
        let want = n.is_power_of_two() && n <= 4096;
        let rep = self.workload().after(&end, &sched, want);
        acc.execs += 1;
        *acc.ends.entry(end.class()).or_default() += 1;
        acc.outcomes.insert(rep.outcome);
        if let End::Diverged(m) = &end {
            if acc.fatal.is_none() {
                acc.fatal = Some(m.clone());
            }
        }
        if want && acc.samples.len() < 6 {
            if let Some(r) = &rep.rendered {
                acc.samples.push(r.clone());
            }
        }
        for v in rep.violations {
            match acc.viol.get_mut(&v.key) {
                Some(e) => {
                    e.count += 1;
                    if sched.len() < e.schedule.len() {
                        e.detail = v.detail;
                        e.schedule = sched.clone();
                        e.rendered = rep.rendered.clone();
                    }
                }
                None => {
                    acc.viol.insert(
                        v.key,
                        FoundV { detail: v.detail, schedule: sched.clone(), rendered: rep.rendered.clone(), count: 1 },
                    );
                }
            }
        }
        if let Some(c) = self.core.borrow_mut().as_mut() {
            c.sched = sched;
        }
    }

    /// The current item is exhausted (or broken): hand its numbers to the source.
    fn close_item(&self) {
        let core = match self.core.borrow_mut().take() {
            Some(c) => c,
            None => return,
        };
        let mut acc = self.acc.replace(Accum::default());
        acc.states = core.new_states + core.execs; // scheduling points created here + one leaf per execution
        acc.max_depth = core.max_depth;
        acc.max_preempt = core.max_preempt_seen;
        if acc.fatal.is_none() {
            acc.fatal = core.fatal.clone();
        }
        if let Some(n) = &core.replay_note {
            acc.notes.push(n.clone());
        }
        if acc.fatal.is_some() {
            if let Some(p) = &self.pool {
                p.stop.store(true, Ordering::SeqCst);
            }
        }
        self.source.done(core.item.cfg, acc);
    }
}

impl Core {
    fn first_exec_too_short(&self) -> bool {
        self.replay.is_none() && self.stack.len() <= self.item.prefix.len() && !self.item.prefix.is_empty()
    }
}

struct Sched(Rc<Shared>);

impl Scheduler for Sched {
    fn new_execution(&mut self) -> Option<Schedule> {
        let sh = &self.0;
        sh.finish_exec(None);
        loop {
            let mut close = false;
            {
                let mut g = sh.core.borrow_mut();
                if let Some(c) = g.as_mut() {
                    if let Some(p) = &sh.pool {
                        if c.execs % 256 == 0 && p.deadline.map_or(false, |d| std::time::Instant::now() > d) {
                            p.capped.store(true, Ordering::SeqCst);
                            p.stop.store(true, Ordering::SeqCst);
                        }
                    }
                    let stop = sh.pool.as_ref().map_or(false, |p| p.stop.load(Ordering::Relaxed));
                    if c.fatal.is_some() || stop {
                        close = true;
                    } else {
                        if let Some(pool) = &sh.pool {
                            if c.replay.is_none()
                                && !c.first
                                && c.execs >= c.next_donation
                                && pool.idle.load(Ordering::Relaxed) > 0
                            {
                                // keep the current path; hand over the shallowest open alternatives
                                // (the largest unexplored subtree)
                                if let Some(item) = c.donate() {
                                    pool.push(item);
                                }
                                c.next_donation = c.execs + DONATE_EVERY;
                            }
                        }
                        if !c.first && (c.replay.is_some() || !c.backtrack()) {
                            close = true;
                        } else {
                            c.first = false;
                            c.depth = 0;
                            c.preempt = 0;
                            c.steps = 0;
                            c.lone = 0;
                            c.lone_task = u8::MAX;
                            c.sched.clear();
                            c.end = None;
                            c.in_exec = true;
                        }
                    }
                } else {
                    // no current item: fetch one
                    match sh.source.next() {
                        None => return None,
                        Some((item, lim, wl, replay)) => {
                            CURRENT.with(|c| *c.borrow_mut() = Some(wl));
                            *g = Some(Core::new(lim, item, replay));
                            continue;
                        }
                    }
                }
            }
            if close {
                sh.close_item();
                continue;
            }
            sh.workload().before();
            return Some(Schedule::new(0));
        }
    }

    fn next_task(&mut self, runnable: &[&Task], current: Option<TaskId>, is_yielding: bool) -> Option<TaskId> {
        match self.0.core.borrow_mut().as_mut() {
            Some(c) => c.next(runnable, current, is_yielding),
            None => None,
        }
    }

    fn next_u64(&mut self) -> u64 {
        0
    }
}

pub fn shuttle_config() -> shuttle::Config {
    let mut c = shuttle::Config::new();
    c.stack_size = 0x20000;
    c.failure_persistence = shuttle::FailurePersistence::None;
    c.max_steps = shuttle::MaxSteps::None;
    c.max_time = None;
    c.silence_warnings = true;
    c
}

/// A stopped execution (horizon / lone spinner) is torn down by unwinding every unfinished
/// task with a non-panic payload. A `catch_unwind` in a task body must let that through.
/// While that happens no task is current.
pub fn rethrow_if_teardown(p: Box<dyn std::any::Any + Send>) -> Box<dyn std::any::Any + Send> {
    if shuttle::current::get_current_task().is_none() {
        // the original payload must reach the coroutine root unchanged
        std::panic::resume_unwind(p);
    }
    p
}

pub fn panic_message(p: &(dyn std::any::Any + Send)) -> String {
    if let Some(s) = p.downcast_ref::<&str>() {
        s.to_string()
    } else if let Some(s) = p.downcast_ref::<String>() {
        s.clone()
    } else {
        "<non-string panic>".into()
    }
}

/// Process work items from `source` until it has none left. One shuttle runner serves them
/// all; a new one is only needed after shuttle panicked out of `run` (deadlock report).
pub fn run_worker(source: Rc<dyn Source>, pool: Option<Arc<Pool>>) {
    let sh = Rc::new(Shared { core: RefCell::new(None), acc: RefCell::new(Accum::default()), source, pool });
    loop {
        let runner = shuttle::Runner::new(Sched(sh.clone()), shuttle_config());
        let r = catch_unwind(AssertUnwindSafe(|| {
            runner.run(|| {
                let w = CURRENT.with(|c| c.borrow().clone()).expect("no current workload");
                w.body()
            })
        }));
        match r {
            Ok(_) => break,
            Err(p) => {
                // shuttle reports deadlock (and a panic escaping a task) by panicking out of run()
                let msg = panic_message(&*p);
                let end = if msg.starts_with("deadlock!") { End::Deadlock(msg) } else { End::Panic(msg) };
                sh.finish_exec(Some(end));
            }
        }
    }
    CURRENT.with(|c| *c.borrow_mut() = None);
}

/// Explore one work item to exhaustion (or follow one explicit schedule when `replay` is given).
pub fn run_item(
    item: WorkItem,
    lim: Limits,
    workload: Arc<dyn Workload>,
    _pool: Option<Arc<Pool>>,
    replay: Option<Vec<u8>>,
) -> Accum {
    struct One {
        item: RefCell<Option<(WorkItem, Limits, Arc<dyn Workload>, Option<Vec<u8>>)>>,
        out: RefCell<Accum>,
    }
    impl Source for One {
        fn next(&self) -> Option<(WorkItem, Limits, Arc<dyn Workload>, Option<Vec<u8>>)> {
            self.item.borrow_mut().take()
        }
        fn done(&self, _cfg: usize, acc: Accum) {
            self.out.borrow_mut().merge(acc);
        }
    }
    let one = Rc::new(One { item: RefCell::new(Some((item, lim, workload, replay))), out: RefCell::new(Accum::default()) });
    run_worker(one.clone(), None);
    let acc = one.out.replace(Accum::default());
    acc
}

// ---------------------------------------------------------------- work pool

pub struct Pool {
    q: Mutex<VecDeque<WorkItem>>,
    cv: Condvar,
    outstanding: AtomicUsize,
    pub idle: AtomicUsize,
    pub stop: AtomicBool,
    /// wall-clock guard against a runaway exploration; hitting it is reported, never silent
    pub deadline: Option<std::time::Instant>,
    pub capped: AtomicBool,
}

impl Pool {
    pub fn new(items: Vec<WorkItem>, deadline: Option<std::time::Instant>) -> Arc<Self> {
        let n = items.len();
        Arc::new(Pool {
            q: Mutex::new(items.into()),
            cv: Condvar::new(),
            outstanding: AtomicUsize::new(n),
            idle: AtomicUsize::new(0),
            stop: AtomicBool::new(false),
            deadline,
            capped: AtomicBool::new(false),
        })
    }
    pub fn push(&self, item: WorkItem) {
        self.outstanding.fetch_add(1, Ordering::SeqCst);
        self.q.lock().unwrap().push_back(item);
        self.cv.notify_one();
    }
    fn take(&self) -> Option<WorkItem> {
        let mut q = self.q.lock().unwrap();
        loop {
            if let Some(it) = q.pop_front() {
                return Some(it);
            }
            if self.outstanding.load(Ordering::SeqCst) == 0 {
                self.cv.notify_all();
                return None;
            }
            self.idle.fetch_add(1, Ordering::SeqCst);
            let (g, _) = self.cv.wait_timeout(q, Duration::from_millis(2)).unwrap();
            q = g;
            self.idle.fetch_sub(1, Ordering::SeqCst);
        }
    }
    pub fn done_one(&self) {
        if self.outstanding.fetch_sub(1, Ordering::SeqCst) == 1 {
            self.cv.notify_all();
        }
    }
}

pub type LimitsFn = Arc<dyn Fn(usize) -> Limits + Send + Sync>;
pub type WorkloadFn = Arc<dyn Fn(usize) -> Arc<dyn Workload> + Send + Sync>;

struct PoolSource {
    pool: Arc<Pool>,
    limits: LimitsFn,
    workload: WorkloadFn,
    results: Arc<Vec<Mutex<Accum>>>,
}
impl Source for PoolSource {
    fn next(&self) -> Option<(WorkItem, Limits, Arc<dyn Workload>, Option<Vec<u8>>)> {
        let item = self.pool.take()?;
        let cfg = item.cfg;
        Some((item, (self.limits)(cfg), (self.workload)(cfg), None))
    }
    fn done(&self, cfg: usize, acc: Accum) {
        self.results[cfg].lock().unwrap().merge(acc);
        self.pool.done_one();
    }
}

/// Explore every configuration exhaustively on `threads` OS threads. `limits(i)` and
/// `workload(i)` give the bound and the program of configuration i. `order` lists the
/// configurations in the order they should be started. Returns one accumulator per configuration.
pub fn explore_all(
    ncfg: usize,
    order: Vec<usize>,
    threads: usize,
    limits: LimitsFn,
    workload: WorkloadFn,
    deadline: Option<std::time::Instant>,
) -> (Vec<Accum>, bool) {
    let pool = Pool::new(order.into_iter().map(WorkItem::root).collect(), deadline);
    let results: Arc<Vec<Mutex<Accum>>> = Arc::new((0..ncfg).map(|_| Mutex::new(Accum::default())).collect());
    std::thread::scope(|s| {
        for t in 0..threads.max(1) {
            let pool = pool.clone();
            let results = results.clone();
            let limits = limits.clone();
            let workload = workload.clone();
            std::thread::Builder::new()
                .name(format!("bdfs-{t}"))
                .stack_size(8 << 20)
                .spawn_scoped(s, move || {
                    let src = Rc::new(PoolSource { pool: pool.clone(), limits, workload, results });
                    run_worker(src, Some(pool));
                })
                .expect("spawn explorer thread");
        }
    });
    let results = Arc::try_unwrap(results).ok().expect("results still shared");
    let capped = pool.capped.load(Ordering::SeqCst);
    (results.into_iter().map(|m| m.into_inner().unwrap()).collect(), capped)
}

/// Wall-clock guard for a whole run (seconds): `VSCHED_WALL_CAP_S`, else the tier default.
pub fn deadline(default_s: u64) -> std::time::Instant {
    let s = std::env::var("VSCHED_WALL_CAP_S").ok().and_then(|x| x.parse().ok()).unwrap_or(default_s);
    std::time::Instant::now() + Duration::from_secs(s)
}
