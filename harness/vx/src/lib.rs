//! vx — stateless choice-tree explorer (engine A), evidence writer, known-findings
//! matcher and replay plumbing shared by every check.
//!
//! A check body is a deterministic closure over `Ctx`; every source of variation is a
//! `ctx.choose(label, n)` call. The explorer enumerates every complete path of the
//! resulting tree (FULL) or every path with at most k non-default answers at
//! `choose_dev` points (DEV(k)). Nothing here samples.

use serde_json::{json, Value};
use std::cell::RefCell;
use std::collections::{BTreeMap, HashSet};
use std::hash::{BuildHasherDefault, Hash, Hasher};
use std::panic::{catch_unwind, AssertUnwindSafe};
use std::sync::atomic::{AtomicBool, AtomicU64, AtomicUsize, Ordering};
use std::sync::{Condvar, Mutex};
use std::time::{Duration, Instant};

pub mod kf;
pub mod proc;

pub const ENGINE_VERSION: &str = "vx-1";

// ---------------------------------------------------------------- hashing

#[derive(Default, Clone, Copy)]
pub struct IdHasher(u64);
impl Hasher for IdHasher {
    fn finish(&self) -> u64 {
        self.0
    }
    fn write(&mut self, b: &[u8]) {
        for &x in b {
            self.0 = (self.0 ^ x as u64).wrapping_mul(0x100000001b3);
        }
    }
    fn write_u64(&mut self, v: u64) {
        self.0 = v;
    }
}
type IdSet = HashSet<u64, BuildHasherDefault<IdHasher>>;

/// Deterministic 64-bit hash (SipHash-1-3 with zero keys) of anything `Hash`.
pub fn h64<T: Hash + ?Sized>(t: &T) -> u64 {
    #[allow(deprecated)]
    let mut h = std::hash::SipHasher::new();
    t.hash(&mut h);
    h.finish()
}
pub fn hbytes(b: &[u8]) -> u64 {
    h64(b)
}
pub fn hmix(a: u64, b: u64) -> u64 {
    h64(&(a, b))
}

// ---------------------------------------------------------------- panic capture

thread_local! {
    static LAST_PANIC: RefCell<Option<String>> = const { RefCell::new(None) };
    static QUIET: RefCell<bool> = const { RefCell::new(false) };
}

/// Install a panic hook that records message + location in a thread local and stays
/// silent for panics caught by `guard`.
pub fn install_panic_hook() {
    let prev = std::panic::take_hook();
    std::panic::set_hook(Box::new(move |info| {
        let msg = if let Some(s) = info.payload().downcast_ref::<&str>() {
            s.to_string()
        } else if let Some(s) = info.payload().downcast_ref::<String>() {
            s.clone()
        } else {
            "<non-string panic>".to_string()
        };
        let loc = info
            .location()
            .map(|l| format!("{}:{}", l.file(), l.line()))
            .unwrap_or_default();
        LAST_PANIC.with(|p| *p.borrow_mut() = Some(format!("{msg} @ {loc}")));
        let quiet = QUIET.with(|q| *q.borrow());
        if !quiet {
            prev(info);
        }
    }));
}

/// Run `f`, converting a panic into `Err("message @ file:line")`.
pub fn guard<T>(f: impl FnOnce() -> T) -> Result<T, String> {
    let was = QUIET.with(|q| std::mem::replace(&mut *q.borrow_mut(), true));
    let r = catch_unwind(AssertUnwindSafe(f));
    QUIET.with(|q| *q.borrow_mut() = was);
    match r {
        Ok(v) => Ok(v),
        Err(_) => Err(LAST_PANIC
            .with(|p| p.borrow_mut().take())
            .unwrap_or_else(|| "panic".into())),
    }
}

/// Strip the machine-specific prefix from a panic location so keys are stable.
pub fn panic_site(msg: &str) -> String {
    match msg.rfind(" @ ") {
        Some(i) => {
            let loc = &msg[i + 3..];
            let loc = loc.rsplit("oxidize-pdf-core/").next().unwrap_or(loc);
            loc.to_string()
        }
        None => "unknown".into(),
    }
}

// ---------------------------------------------------------------- choices

#[derive(Clone, Copy, Debug, PartialEq, Eq)]
pub struct Choice {
    pub c: u32,
    pub n: u32,
    pub dev: bool,
}

#[derive(Clone, Debug)]
pub struct Violation {
    pub key: String,
    pub detail: String,
}

pub struct Ctx<'a> {
    prefix: &'a [Choice],
    pub(crate) trail: Vec<Choice>,
    labels: Vec<&'static str>,
    want_sample: bool,
    sample: Option<Value>,
    input_hash: Option<u64>,
    outcome_hash: Option<u64>,
    nontrivial: bool,
    extra_evals: u64,
    violations: Vec<Violation>,
    diverged: Option<String>,
    record_labels: bool,
}

impl<'a> Ctx<'a> {
    fn new(prefix: &'a [Choice], want_sample: bool, record_labels: bool) -> Self {
        Ctx {
            prefix,
            trail: Vec::with_capacity(16),
            labels: Vec::new(),
            want_sample,
            sample: None,
            input_hash: None,
            outcome_hash: None,
            nontrivial: false,
            extra_evals: 0,
            violations: Vec::new(),
            diverged: None,
            record_labels,
        }
    }
    fn pick(&mut self, label: &'static str, n: usize, dev: bool) -> usize {
        assert!(n >= 1, "choose({label}) with empty menu");
        let pos = self.trail.len();
        let c = if pos < self.prefix.len() {
            let p = self.prefix[pos];
            if p.n as usize != n || p.dev != dev {
                if self.diverged.is_none() {
                    self.diverged = Some(format!(
                        "replay divergence at depth {pos} ({label}): recorded n={} dev={}, now n={n} dev={dev}",
                        p.n, p.dev
                    ));
                }
                (p.c as usize).min(n - 1)
            } else {
                p.c as usize
            }
        } else {
            0
        };
        self.trail.push(Choice { c: c as u32, n: n as u32, dev });
        if self.record_labels {
            self.labels.push(label);
        }
        c
    }
    /// Fully enumerated choice point. Index 0 is the default answer.
    pub fn choose(&mut self, label: &'static str, n: usize) -> usize {
        self.pick(label, n, false)
    }
    /// Choice point whose non-default answers count against the deviation bound.
    pub fn choose_dev(&mut self, label: &'static str, n: usize) -> usize {
        self.pick(label, n, true)
    }
    pub fn flag(&mut self, label: &'static str) -> bool {
        self.choose(label, 2) == 1
    }
    pub fn pick_from<'b, T>(&mut self, label: &'static str, xs: &'b [T]) -> &'b T {
        &xs[self.choose(label, xs.len())]
    }
    pub fn pick_dev<'b, T>(&mut self, label: &'static str, xs: &'b [T]) -> &'b T {
        &xs[self.choose_dev(label, xs.len())]
    }
    /// Hash of the generated input (bytes, program, history) — for distinct-input counts.
    pub fn input(&mut self, h: u64) {
        self.input_hash = Some(match self.input_hash {
            Some(p) => hmix(p, h),
            None => h,
        });
    }
    /// Hash of the observation class — for distinct-outcome counts.
    pub fn outcome(&mut self, h: u64) {
        self.outcome_hash = Some(match self.outcome_hash {
            Some(p) => hmix(p, h),
            None => h,
        });
    }
    /// Mark this case as non-trivial by the check's stated rule.
    pub fn nontrivial(&mut self) {
        self.nontrivial = true;
    }
    /// The body evaluated `n` further cases internally (plain loops over a dense range).
    pub fn add_evaluations(&mut self, n: u64) {
        self.extra_evals += n;
    }
    pub fn want_sample(&self) -> bool {
        self.want_sample
    }
    pub fn sample(&mut self, v: Value) {
        if self.want_sample {
            self.sample = Some(v);
        }
    }
    pub fn fail(&mut self, key: impl Into<String>, detail: impl Into<String>) {
        let mut d: String = detail.into();
        if d.len() > 4000 {
            let mut cut = 4000;
            while !d.is_char_boundary(cut) {
                cut -= 1;
            }
            d.truncate(cut);
            d.push_str("…");
        }
        self.violations.push(Violation { key: key.into(), detail: d });
    }
    pub fn failed(&self) -> bool {
        !self.violations.is_empty()
    }
    pub fn choices(&self) -> Vec<u32> {
        self.trail.iter().map(|c| c.c).collect()
    }
}

// ---------------------------------------------------------------- exploration

#[derive(Clone, Debug)]
pub struct Explore {
    /// None = FULL; Some(k) = at most k non-default answers at `choose_dev` points.
    pub dev_bound: Option<u32>,
    pub threads: usize,
    pub max_execs: Option<u64>,
    pub wall_cap: Option<Duration>,
    /// keep exact distinct sets up to this many entries each
    pub distinct_cap: usize,
}
impl Default for Explore {
    fn default() -> Self {
        Explore {
            dev_bound: None,
            threads: default_threads(),
            max_execs: None,
            wall_cap: None,
            distinct_cap: 30_000_000,
        }
    }
}
impl Explore {
    pub fn full() -> Self {
        Self::default()
    }
    pub fn dev(k: u32) -> Self {
        Explore { dev_bound: Some(k), ..Self::default() }
    }
    pub fn threads(mut self, t: usize) -> Self {
        self.threads = t.max(1);
        self
    }
    pub fn wall(mut self, d: Duration) -> Self {
        self.wall_cap = Some(d);
        self
    }
    pub fn max_execs(mut self, n: u64) -> Self {
        self.max_execs = Some(n);
        self
    }
}

pub fn default_threads() -> usize {
    std::env::var("VERIF_THREADS")
        .ok()
        .and_then(|s| s.parse().ok())
        .unwrap_or_else(|| std::thread::available_parallelism().map(|n| n.get()).unwrap_or(4))
}

#[derive(Clone, Debug)]
pub struct FoundViolation {
    pub key: String,
    pub detail: String,
    pub section: String,
    pub choices: Vec<u32>,
    pub labels: Vec<String>,
    pub count: u64,
    pub rendered: Option<Value>,
}

#[derive(Clone, Debug, Default)]
pub struct SectionStats {
    pub name: String,
    pub mode: String,
    pub states: u64,
    pub transitions: u64,
    pub executions: u64,
    pub evaluations: u64,
    pub distinct_inputs: u64,
    pub distinct_outcomes: u64,
    pub distinct_nontrivial: u64,
    pub max_depth: u64,
    pub caps_hit: Vec<String>,
    pub exhaustive: bool,
    pub samples: Vec<Value>,
    pub wall_s: f64,
    pub extra: BTreeMap<String, Value>,
}

struct Shared {
    queue: Mutex<Vec<Vec<Choice>>>,
    cv: Condvar,
    outstanding: AtomicUsize,
    idle: AtomicUsize,
    stop: AtomicBool,
    execs: AtomicU64,
    capped: AtomicBool,
}

#[derive(Default)]
struct Local {
    states: u64,
    execs: u64,
    evals: u64,
    max_depth: u64,
    inputs: IdSet,
    outcomes: IdSet,
    nontriv: IdSet,
    samples: Vec<(u64, Value)>,
    viol: BTreeMap<String, FoundViolation>,
    machinery: Option<String>,
}

fn dev_cost(p: &[Choice]) -> u32 {
    p.iter().filter(|c| c.dev && c.c != 0).count() as u32
}

struct RunOut {
    trail: Vec<Choice>,
    labels: Vec<&'static str>,
    sample: Option<Value>,
    input: Option<u64>,
    outcome: Option<u64>,
    nontrivial: bool,
    extra: u64,
    viol: Vec<Violation>,
    diverged: Option<String>,
}

fn run_one<F: Fn(&mut Ctx)>(body: &F, prefix: &[Choice], want_sample: bool, labels: bool) -> RunOut {
    let mut ctx = Ctx::new(prefix, want_sample, labels);
    let r = guard(|| body(&mut ctx));
    if let Err(p) = r {
        let site = panic_site(&p);
        ctx.violations.push(Violation { key: format!("panic@{site}"), detail: p });
    }
    if ctx.trail.len() < prefix.len() && ctx.diverged.is_none() {
        // a panic may cut the path short; only a completed body is held to the prefix length
        if ctx.violations.is_empty() {
            ctx.diverged = Some(format!(
                "replay divergence: prefix has {} choices but the body made only {}",
                prefix.len(),
                ctx.trail.len()
            ));
        }
    }
    RunOut {
        trail: ctx.trail,
        labels: ctx.labels,
        sample: ctx.sample,
        input: ctx.input_hash,
        outcome: ctx.outcome_hash,
        nontrivial: ctx.nontrivial,
        extra: ctx.extra_evals,
        viol: ctx.violations,
        diverged: ctx.diverged,
    }
}


fn take_shared(shared: &Shared, stack: &mut Vec<Vec<Choice>>, nthreads: usize) -> Option<Vec<Choice>> {
    let mut q = shared.queue.lock().unwrap();
    loop {
        if shared.stop.load(Ordering::SeqCst) {
            let n = q.len();
            q.clear();
            if n > 0 {
                shared.outstanding.fetch_sub(n, Ordering::SeqCst);
            }
            shared.cv.notify_all();
            return None;
        }
        if let Some(p) = q.pop() {
            let extra = (q.len() / (2 * nthreads)).min(64);
            for _ in 0..extra {
                if let Some(x) = q.pop() {
                    stack.push(x);
                }
            }
            return Some(p);
        }
        if shared.outstanding.load(Ordering::SeqCst) == 0 {
            shared.cv.notify_all();
            return None;
        }
        shared.idle.fetch_add(1, Ordering::SeqCst);
        let (g, _) = shared.cv.wait_timeout(q, Duration::from_millis(5)).unwrap();
        q = g;
        shared.idle.fetch_sub(1, Ordering::SeqCst);
    }
}

/// Enumerate the choice tree of `body`. Returns stats and the violations found
/// (first occurrence per key, with counts).
pub fn explore<F>(section: &str, cfg: &Explore, body: F) -> (SectionStats, Vec<FoundViolation>, Option<String>)
where
    F: Fn(&mut Ctx) + Sync,
{
    let t0 = Instant::now();
    let shared = Shared {
        queue: Mutex::new(vec![Vec::new()]),
        cv: Condvar::new(),
        outstanding: AtomicUsize::new(1),
        idle: AtomicUsize::new(0),
        stop: AtomicBool::new(false),
        execs: AtomicU64::new(0),
        capped: AtomicBool::new(false),
    };
    let caps: Mutex<Vec<String>> = Mutex::new(Vec::new());
    let nthreads = cfg.threads.max(1);
    let locals: Vec<Local> = std::thread::scope(|s| {
        let hs: Vec<_> = (0..nthreads)
            .map(|_| {
                let shared = &shared;
                let body = &body;
                let caps = &caps;
                s.spawn(move || {
                    let mut loc = Local::default();
                    let mut stack: Vec<Vec<Choice>> = Vec::new();
                    loop {
                        let prefix = match stack.pop() {
                            Some(p) => p,
                            None => match take_shared(shared, &mut stack, nthreads) {
                                Some(p) => p,
                                None => break,
                            },
                        };
                        let idx = shared.execs.fetch_add(1, Ordering::Relaxed) + 1;
                        let want_sample = idx.is_power_of_two() || idx == 3;
                        let out = run_one(body, &prefix, want_sample, want_sample);
                        // determinism: the first 64 executions are run twice
                        if idx <= 64 {
                            let again = run_one(body, &prefix, false, false);
                            let same = again.trail == out.trail
                                && again.input == out.input
                                && again.outcome == out.outcome
                                && again.viol.iter().map(|v| &v.key).collect::<Vec<_>>()
                                    == out.viol.iter().map(|v| &v.key).collect::<Vec<_>>();
                            if !same && loc.machinery.is_none() {
                                loc.machinery = Some(format!(
                                    "non-deterministic body in section {section}: execution {idx} differed on re-run (choices {:?})",
                                    out.trail.iter().map(|c| c.c).collect::<Vec<_>>()
                                ));
                            }
                        }
                        if let Some(d) = out.diverged {
                            if loc.machinery.is_none() {
                                loc.machinery = Some(format!("section {section}: {d}"));
                            }
                            shared.stop.store(true, Ordering::SeqCst);
                        }
                        let p = prefix.len();
                        let len = out.trail.len();
                        loc.execs += 1;
                        loc.evals += 1 + out.extra;
                        loc.states += (len.saturating_sub(p) + 1) as u64;
                        loc.max_depth = loc.max_depth.max(len as u64);
                        if let Some(h) = out.input {
                            if loc.inputs.len() < cfg.distinct_cap / nthreads {
                                loc.inputs.insert(h);
                            }
                            if out.nontrivial && loc.nontriv.len() < cfg.distinct_cap / nthreads {
                                loc.nontriv.insert(h);
                            }
                        } else if out.nontrivial {
                            let h = h64(&out.trail.iter().map(|c| c.c).collect::<Vec<_>>());
                            if loc.nontriv.len() < cfg.distinct_cap / nthreads {
                                loc.nontriv.insert(h);
                            }
                        }
                        if let Some(h) = out.outcome {
                            if loc.outcomes.len() < cfg.distinct_cap / nthreads {
                                loc.outcomes.insert(h);
                            }
                        }
                        if let Some(sv) = out.sample {
                            loc.samples.push((idx, sv));
                        } else if want_sample {
                            loc.samples.push((
                                idx,
                                json!({"choices": out.trail.iter().map(|c| c.c).collect::<Vec<_>>(),
                                       "labels": out.labels}),
                            ));
                        }
                        for v in out.viol {
                            let e = loc.viol.entry(v.key.clone()).or_insert_with(|| FoundViolation {
                                key: v.key.clone(),
                                detail: v.detail.clone(),
                                section: section.to_string(),
                                choices: out.trail.iter().map(|c| c.c).collect(),
                                labels: Vec::new(),
                                count: 0,
                                rendered: None,
                            });
                            // keep the execution with the fewest non-default choices as the representative
                            let cost_new = out.trail.iter().filter(|c| c.c != 0).count();
                            let cost_old = e.choices.iter().filter(|&&c| c != 0).count();
                            if e.count > 0 && (cost_new, out.trail.len()) < (cost_old, e.choices.len()) {
                                e.choices = out.trail.iter().map(|c| c.c).collect();
                                e.detail = v.detail.clone();
                            }
                            e.count += 1;
                        }
                        // children
                        let over_exec = cfg.max_execs.map(|m| idx >= m).unwrap_or(false);
                        let over_wall = cfg.wall_cap.map(|w| t0.elapsed() >= w).unwrap_or(false);
                        if over_exec || over_wall {
                            if !shared.capped.swap(true, Ordering::SeqCst) {
                                caps.lock().unwrap().push(if over_exec {
                                    format!("max_execs={} reached", cfg.max_execs.unwrap())
                                } else {
                                    format!("wall cap {:?} reached", cfg.wall_cap.unwrap())
                                });
                            }
                            shared.stop.store(true, Ordering::SeqCst);
                        }
                        if !shared.stop.load(Ordering::SeqCst) {
                            let base_cost = dev_cost(&out.trail[..p.min(len)]);
                            let mut cost = base_cost;
                            let mut added = 0usize;
                            // generate deepest-first so that the LIFO stack explores shallow alternatives last
                            let mut kids: Vec<Vec<Choice>> = Vec::new();
                            for i in p..len {
                                let ch = out.trail[i];
                                debug_assert_eq!(ch.c, 0);
                                let allowed = match cfg.dev_bound {
                                    Some(k) if ch.dev => cost + 1 <= k,
                                    _ => true,
                                };
                                if allowed {
                                    for alt in 1..ch.n {
                                        let mut np = Vec::with_capacity(i + 1);
                                        np.extend_from_slice(&out.trail[..i]);
                                        np.push(Choice { c: alt, n: ch.n, dev: ch.dev });
                                        kids.push(np);
                                        added += 1;
                                    }
                                }
                                // default taken at i: cost unchanged
                                let _ = &mut cost;
                            }
                            if added > 0 {
                                shared.outstanding.fetch_add(added, Ordering::SeqCst);
                                kids.reverse();
                                stack.extend(kids);
                                if stack.len() > 1 && shared.idle.load(Ordering::Relaxed) > 0 {
                                    let give = stack.len() / 2;
                                    let donated: Vec<_> = stack.drain(..give).collect();
                                    let mut q = shared.queue.lock().unwrap();
                                    q.extend(donated);
                                    drop(q);
                                    shared.cv.notify_all();
                                }
                            }
                        }
                        if shared.outstanding.fetch_sub(1, Ordering::SeqCst) == 1 {
                            shared.cv.notify_all();
                        }
                        if shared.stop.load(Ordering::SeqCst) {
                            // drop local work
                            let n = stack.len();
                            stack.clear();
                            if n > 0 {
                                shared.outstanding.fetch_sub(n, Ordering::SeqCst);
                            }
                            shared.cv.notify_all();
                        }
                    }
                    loc
                })
            })
            .collect();
        hs.into_iter().map(|h| h.join().expect("explorer worker died")).collect()
    });

    let mut st = SectionStats { name: section.to_string(), ..Default::default() };
    st.mode = match cfg.dev_bound {
        None => "FULL".into(),
        Some(k) => format!("DEV({k})"),
    };
    let mut inputs = IdSet::default();
    let mut outcomes = IdSet::default();
    let mut nontriv = IdSet::default();
    let mut samples: Vec<(u64, Value)> = Vec::new();
    let mut viol: BTreeMap<String, FoundViolation> = BTreeMap::new();
    let mut machinery = None;
    for l in locals {
        st.states += l.states;
        st.executions += l.execs;
        st.evaluations += l.evals;
        st.max_depth = st.max_depth.max(l.max_depth);
        inputs.extend(l.inputs);
        outcomes.extend(l.outcomes);
        nontriv.extend(l.nontriv);
        samples.extend(l.samples);
        for (k, v) in l.viol {
            match viol.get_mut(&k) {
                Some(e) => {
                    e.count += v.count;
                    let a = (v.choices.iter().filter(|&&c| c != 0).count(), v.choices.len());
                    let b = (e.choices.iter().filter(|&&c| c != 0).count(), e.choices.len());
                    if a < b {
                        e.choices = v.choices;
                        e.detail = v.detail;
                    }
                }
                None => {
                    viol.insert(k, v);
                }
            }
        }
        if machinery.is_none() {
            machinery = l.machinery;
        }
    }
    st.transitions = st.states.saturating_sub(1).max(if st.states > 0 { 1 } else { 0 });
    st.distinct_inputs = inputs.len() as u64;
    st.distinct_outcomes = outcomes.len() as u64;
    st.distinct_nontrivial = nontriv.len() as u64;
    st.caps_hit = caps.into_inner().unwrap();
    st.exhaustive = st.caps_hit.is_empty() && machinery.is_none();
    samples.sort_by_key(|s| s.0);
    st.samples = samples.into_iter().map(|(i, v)| json!({"execution": i, "case": v})).collect();
    st.wall_s = t0.elapsed().as_secs_f64();

    // re-run each violation's representative once to capture labels + rendered sample
    let mut found: Vec<FoundViolation> = viol.into_values().collect();
    for f in found.iter_mut() {
        let prefix: Vec<Choice> = f.choices.iter().map(|&c| Choice { c, n: 0, dev: false }).collect();
        let out = run_replay(&body, &prefix);
        f.labels = out.labels.iter().map(|s| s.to_string()).collect();
        f.rendered = out.sample;
    }
    (st, found, machinery)
}

/// Replay a bare choice vector (menu sizes unknown): menu sizes are taken from the body.
fn run_replay<F: Fn(&mut Ctx)>(body: &F, choices: &[Choice]) -> RunOut {
    // Build the prefix incrementally so recorded n/dev match what the body asks.
    let mut prefix: Vec<Choice> = Vec::new();
    loop {
        let out = run_one(body, &prefix, true, true);
        if prefix.len() >= choices.len() || prefix.len() >= out.trail.len() {
            return out;
        }
        let i = prefix.len();
        let t = out.trail[i];
        let c = choices[i].c.min(t.n.saturating_sub(1));
        prefix.push(Choice { c, n: t.n, dev: t.dev });
        if choices[i].c == 0 {
            // fast-forward over defaults
            while prefix.len() < choices.len() && prefix.len() < out.trail.len() && choices[prefix.len()].c == 0 {
                let t = out.trail[prefix.len()];
                prefix.push(Choice { c: 0, n: t.n, dev: t.dev });
            }
        }
    }
}

/// Run exactly one path given by `choices`; returns (violations, rendered sample, labels).
pub fn replay_path<F: Fn(&mut Ctx)>(body: &F, choices: &[u32]) -> (Vec<Violation>, Option<Value>, Vec<String>) {
    let pre: Vec<Choice> = choices.iter().map(|&c| Choice { c, n: 0, dev: false }).collect();
    let out = run_replay(body, &pre);
    (out.viol, out.sample, out.labels.iter().map(|s| s.to_string()).collect())
}

// ---------------------------------------------------------------- report / evidence

#[derive(Clone, Copy, PartialEq, Eq, Debug)]
pub enum Tier {
    Quick,
    Thorough,
}
impl Tier {
    pub fn name(self) -> &'static str {
        match self {
            Tier::Quick => "quick",
            Tier::Thorough => "thorough",
        }
    }
    pub fn is_thorough(self) -> bool {
        self == Tier::Thorough
    }
}

pub struct ReplayTarget {
    pub section: String,
    pub choices: Vec<u32>,
    pub key: Option<String>,
}

pub struct Report {
    pub property: String,
    pub tier: Tier,
    pub seed: i64,
    pub level: &'static str,
    pub sections: Vec<SectionStats>,
    pub violations: Vec<FoundViolation>,
    pub machinery_errors: Vec<String>,
    pub assumptions: Vec<String>,
    pub rule: String,
    pub notes: BTreeMap<String, Value>,
    pub replay: Option<ReplayTarget>,
    pub replay_hits: Vec<Violation>,
    pub replay_ran: bool,
    t0: Instant,
}

pub fn verif_root() -> std::path::PathBuf {
    std::env::var("VERIF_ROOT").map(Into::into).unwrap_or_else(|_| "/verif".into())
}
pub fn repo_root() -> std::path::PathBuf {
    std::env::var("VERIF_REPO").map(Into::into).unwrap_or_else(|_| "/repo".into())
}

impl Report {
    pub fn new(property: &str, tier: Tier) -> Self {
        let seed = std::env::var("VERIF_SEED").ok().and_then(|s| s.parse().ok()).unwrap_or(0);
        Report {
            property: property.to_string(),
            tier,
            seed,
            level: "model_checking",
            sections: Vec::new(),
            violations: Vec::new(),
            machinery_errors: Vec::new(),
            assumptions: Vec::new(),
            rule: String::new(),
            notes: BTreeMap::new(),
            replay: None,
            replay_hits: Vec::new(),
            replay_ran: false,
            t0: Instant::now(),
        }
    }
    pub fn assume(&mut self, s: &str) {
        self.assumptions.push(s.to_string());
    }
    pub fn rule(&mut self, s: &str) {
        self.rule = s.to_string();
    }
    pub fn note(&mut self, k: &str, v: Value) {
        self.notes.insert(k.to_string(), v);
    }
    pub fn machinery_error(&mut self, s: String) {
        self.machinery_errors.push(s);
    }
    pub fn is_replay(&self) -> bool {
        self.replay.is_some()
    }

    /// Explore one named sub-space. In replay mode only the targeted section runs, and only
    /// the recorded path.
    pub fn explore<F>(&mut self, section: &str, cfg: Explore, body: F)
    where
        F: Fn(&mut Ctx) + Sync,
    {
        if let Some(t) = &self.replay {
            if t.section != section {
                return;
            }
            let (viol, rendered, labels) = replay_path(&body, &t.choices);
            self.replay_ran = true;
            println!("replay section={section} choices={:?}", t.choices);
            println!("labels={labels:?}");
            if let Some(r) = rendered {
                println!("case={}", serde_json::to_string(&r).unwrap_or_default());
            }
            for v in &viol {
                println!("violation key={} detail={}", v.key, v.detail);
            }
            self.replay_hits.extend(viol);
            return;
        }
        let (st, found, mach) = explore(section, &cfg, body);
        eprintln!(
            "[{}] section {:<28} {:>8} mode={} execs={} states={} distinct_in={} out={} nontrivial={} viol_keys={} {:.1}s{}",
            self.property,
            st.name,
            "",
            st.mode,
            st.executions,
            st.states,
            st.distinct_inputs,
            st.distinct_outcomes,
            st.distinct_nontrivial,
            found.len(),
            st.wall_s,
            if st.caps_hit.is_empty() { String::new() } else { format!(" CAPS={:?}", st.caps_hit) }
        );
        self.sections.push(st);
        self.violations.extend(found);
        if let Some(m) = mach {
            self.machinery_errors.push(m);
        }
    }

    /// Record a section whose enumeration was done outside the choice-tree explorer
    /// (scheduler engine, stateright, subprocess sweep).
    pub fn add_section(&mut self, st: SectionStats, found: Vec<FoundViolation>) {
        eprintln!(
            "[{}] section {:<28} mode={} execs={} states={} transitions={} viol_keys={} {:.1}s{}",
            self.property,
            st.name,
            st.mode,
            st.executions,
            st.states,
            st.transitions,
            found.len(),
            st.wall_s,
            if st.caps_hit.is_empty() { String::new() } else { format!(" CAPS={:?}", st.caps_hit) }
        );
        self.sections.push(st);
        self.violations.extend(found);
    }

    /// Write evidence, replay artefacts, print verdict lines; returns the process exit code.
    pub fn finish(mut self) -> i32 {
        let root = verif_root();
        if let Some(t) = &self.replay {
            if !self.replay_ran {
                println!("replay: section {} not found in this check", t.section);
                return 2;
            }
            let hit = match &t.key {
                Some(k) => self.replay_hits.iter().any(|v| &v.key == k),
                None => !self.replay_hits.is_empty(),
            };
            if hit {
                println!("VIOLATION property={} replay=<given>", self.property);
                return 1;
            }
            println!("replay: no violation on this path");
            return 0;
        }
        let findings = kf::load(&root.join("known_findings.json"));
        let mut known_lines: Vec<String> = Vec::new();
        let mut new_viol: Vec<&FoundViolation> = Vec::new();
        for v in &self.violations {
            match findings.iter().find(|f| f.property == self.property && f.status == "open" && f.key == v.key) {
                Some(f) => {
                    let line = format!("KNOWN-FINDING: property={} {} [{}] {}", self.property, f.id, f.key, f.what);
                    if !known_lines.contains(&line) {
                        known_lines.push(line);
                    }
                }
                None => new_viol.push(v),
            }
        }
        let mut replay_paths = Vec::new();
        let rdir = root.join("replays").join(&self.property);
        for v in &new_viol {
            let _ = std::fs::create_dir_all(&rdir);
            let name = format!("{:016x}.json", h64(&(&v.key, &v.section)));
            let path = rdir.join(name);
            let doc = json!({
                "property": self.property, "key": v.key, "section": v.section,
                "choices": v.choices, "labels": v.labels, "detail": v.detail,
                "occurrences": v.count, "case": v.rendered, "engine": ENGINE_VERSION,
                "tier": self.tier.name(),
            });
            let _ = std::fs::write(&path, serde_json::to_vec_pretty(&doc).unwrap());
            replay_paths.push(path);
        }

        // aggregate
        let mut states = 0u64;
        let mut transitions = 0u64;
        let mut execs = 0u64;
        let mut evals = 0u64;
        let mut dn = 0u64;
        let mut di = 0u64;
        let mut dout = 0u64;
        let mut exhaustive = true;
        let mut caps = Vec::new();
        let mut samples = Vec::new();
        let mut secs = Vec::new();
        for s in &self.sections {
            states += s.states;
            transitions += s.transitions;
            execs += s.executions;
            evals += s.evaluations;
            dn += s.distinct_nontrivial;
            di += s.distinct_inputs;
            dout += s.distinct_outcomes;
            exhaustive &= s.exhaustive;
            for c in &s.caps_hit {
                caps.push(format!("{}: {}", s.name, c));
            }
            // a few samples per section: first, second, a middle one, last
            let n = s.samples.len();
            let mut pick: Vec<usize> = vec![0, 1, n / 2, n.saturating_sub(1)];
            pick.dedup();
            for i in pick {
                if i < n {
                    samples.push(json!({"section": s.name, "sample": s.samples[i]}));
                }
            }
            let mut o = json!({
                "name": s.name, "mode": s.mode, "states": s.states, "transitions": s.transitions,
                "executions": s.executions, "evaluations": s.evaluations,
                "distinct_inputs": s.distinct_inputs, "distinct_outcomes": s.distinct_outcomes,
                "distinct_nontrivial": s.distinct_nontrivial, "max_depth": s.max_depth,
                "exhaustive": s.exhaustive, "caps_hit": s.caps_hit, "wall_s": (s.wall_s*1000.0).round()/1000.0,
            });
            for (k, v) in &s.extra {
                o[k] = v.clone();
            }
            secs.push(o);
        }
        if samples.is_empty() {
            samples.push(json!("no executions"));
        }
        let mut coverage = json!({
            "states": states.max(1),
            "transitions": transitions.max(1),
            "traces_validated_against_impl": execs,
            "evaluations": evals.max(1),
            "distinct_nontrivial": dn,
            "distinct_inputs": di,
            "distinct_outcomes": dout,
            "rule": self.rule,
            "exhaustive": exhaustive && self.machinery_errors.is_empty(),
            "caps_hit": caps,
            "sections": secs,
            "samples": samples,
            "known_findings_matched": known_lines,
            "violation_keys": self.violations.iter().map(|v| json!({"key": v.key, "section": v.section, "count": v.count})).collect::<Vec<_>>(),
            "engine": ENGINE_VERSION,
        });
        for (k, v) in &self.notes {
            coverage[k] = v.clone();
        }
        let ev = json!({
            "property_id": self.property,
            "tier": self.tier.name(),
            "seed": self.seed,
            "level": self.level,
            "coverage": coverage,
            "assumptions": self.assumptions,
            "wall_s": (self.t0.elapsed().as_secs_f64()*100.0).round()/100.0,
            "violations": new_viol.len(),
            "machinery_errors": self.machinery_errors,
        });
        let edir = root.join("evidence");
        let _ = std::fs::create_dir_all(&edir);
        let epath = edir.join(format!("{}.json", self.property));
        if let Err(e) = std::fs::write(&epath, serde_json::to_vec_pretty(&ev).unwrap()) {
            eprintln!("cannot write evidence {}: {e}", epath.display());
            return 2;
        }
        for l in &known_lines {
            println!("{l}");
        }
        if !self.machinery_errors.is_empty() {
            for m in &self.machinery_errors {
                println!("MACHINERY-ERROR property={} {m}", self.property);
            }
            return 2;
        }
        if !new_viol.is_empty() {
            for (v, p) in new_viol.iter().zip(replay_paths.iter()) {
                println!("VIOLATION property={} replay={} key={} occurrences={} detail={}", self.property, p.display(), v.key, v.count, one_line(&v.detail, 300));
            }
            self.violations.clear();
            return 1;
        }
        println!(
            "OK property={} tier={} executions={} states={} exhaustive={} wall={:.1}s",
            self.property,
            self.tier.name(),
            execs,
            states,
            exhaustive,
            self.t0.elapsed().as_secs_f64()
        );
        0
    }
}

pub fn one_line(s: &str, max: usize) -> String {
    let mut o: String = s.chars().map(|c| if c == '\n' || c == '\r' { ' ' } else { c }).collect();
    if o.chars().count() > max {
        o = o.chars().take(max).collect::<String>() + "…";
    }
    o
}

pub fn hex(b: &[u8]) -> String {
    let mut s = String::with_capacity(b.len() * 2);
    for x in b {
        s.push_str(&format!("{x:02x}"));
    }
    s
}

/// Printable rendering of bytes for samples (ASCII kept, the rest \xNN), truncated.
pub fn show_bytes(b: &[u8], max: usize) -> String {
    let mut s = String::new();
    for &x in b.iter().take(max) {
        if (0x20..0x7f).contains(&x) && x != b'\\' {
            s.push(x as char);
        } else if x == b'\n' {
            s.push_str("\\n");
        } else if x == b'\r' {
            s.push_str("\\r");
        } else {
            s.push_str(&format!("\\x{x:02x}"));
        }
    }
    if b.len() > max {
        s.push_str(&format!("…(+{} bytes)", b.len() - max));
    }
    s
}

/// Parse the common CLI: `<ID> [--tier quick|thorough] [--replay FILE]`.
pub struct Cli {
    pub id: String,
    pub tier: Tier,
    pub replay: Option<std::path::PathBuf>,
    pub rest: Vec<String>,
}
pub fn parse_cli() -> Cli {
    let mut args = std::env::args().skip(1);
    let id = args.next().unwrap_or_default();
    let mut tier = match std::env::var("VERIF_TIER").as_deref() {
        Ok("thorough") => Tier::Thorough,
        _ => Tier::Quick,
    };
    let mut replay = None;
    let mut rest = Vec::new();
    while let Some(a) = args.next() {
        match a.as_str() {
            "--tier" => {
                tier = match args.next().as_deref() {
                    Some("thorough") => Tier::Thorough,
                    _ => Tier::Quick,
                }
            }
            "--replay" => replay = args.next().map(Into::into),
            _ => rest.push(a),
        }
    }
    Cli { id, tier, replay, rest }
}

pub fn load_replay(path: &std::path::Path) -> Result<ReplayTarget, String> {
    let b = std::fs::read(path).map_err(|e| format!("{}: {e}", path.display()))?;
    let v: Value = serde_json::from_slice(&b).map_err(|e| e.to_string())?;
    Ok(ReplayTarget {
        section: v["section"].as_str().unwrap_or_default().to_string(),
        choices: v["choices"].as_array().map(|a| a.iter().map(|x| x.as_u64().unwrap_or(0) as u32).collect()).unwrap_or_default(),
        key: v["key"].as_str().map(|s| s.to_string()),
    })
}
