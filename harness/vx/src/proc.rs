//! Small helpers for checks that isolate cases in worker subprocesses (C01) or
//! compare across processes (C15, C20).
use std::io::{Read, Write};
use std::process::{Child, Command, Stdio};

pub fn self_exe() -> std::path::PathBuf {
    std::env::current_exe().expect("current_exe")
}

/// Spawn this binary again with the given arguments, piping stdin/stdout.
pub fn spawn_self(args: &[&str], mem_limit_bytes: Option<u64>) -> std::io::Result<Child> {
    let mut c = Command::new(self_exe());
    c.args(args).stdin(Stdio::piped()).stdout(Stdio::piped()).stderr(Stdio::null());
    if let Some(m) = mem_limit_bytes {
        c.env("VX_RLIMIT_AS", m.to_string());
    }
    c.spawn()
}

/// To be called first thing in a worker subprocess: applies RLIMIT_AS if requested.
pub fn apply_limits_from_env() {
    if let Ok(v) = std::env::var("VX_RLIMIT_AS") {
        if let Ok(n) = v.parse::<u64>() {
            unsafe {
                let lim = libc::rlimit { rlim_cur: n as libc::rlim_t, rlim_max: n as libc::rlim_t };
                libc::setrlimit(libc::RLIMIT_AS, &lim);
            }
        }
    }
}

pub fn run_self_collect(args: &[&str], stdin: &[u8]) -> std::io::Result<(i32, Vec<u8>)> {
    let mut ch = spawn_self(args, None)?;
    ch.stdin.take().unwrap().write_all(stdin)?;
    let mut out = Vec::new();
    ch.stdout.take().unwrap().read_to_end(&mut out)?;
    let st = ch.wait()?;
    Ok((st.code().unwrap_or(-1), out))
}
