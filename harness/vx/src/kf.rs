//! known_findings.json reader. The file is committed and never written at run time.
use serde::Deserialize;

#[derive(Deserialize, Clone, Debug)]
pub struct Finding {
    pub id: String,
    pub property: String,
    /// "open" suppresses a violation with exactly this key; "fixed" suppresses nothing.
    pub status: String,
    pub key: String,
    #[serde(default)]
    pub r#where: String,
    #[serde(default)]
    pub what: String,
    #[serde(default)]
    pub commit: String,
}

/// Load `known_findings.json` plus every `known_findings.d/*.json` next to it.
pub fn load(path: &std::path::Path) -> Vec<Finding> {
    let mut all = load_one(path);
    if let Some(dir) = path.parent().map(|p| p.join("known_findings.d")) {
        if let Ok(rd) = std::fs::read_dir(&dir) {
            let mut files: Vec<_> = rd.flatten().map(|e| e.path()).filter(|p| p.extension().map(|e| e == "json").unwrap_or(false)).collect();
            files.sort();
            for f in files {
                all.extend(load_one(&f));
            }
        }
    }
    all
}

fn load_one(path: &std::path::Path) -> Vec<Finding> {
    match std::fs::read(path) {
        Ok(b) => match serde_json::from_slice::<Vec<Finding>>(&b) {
            Ok(v) => v,
            Err(e) => {
                eprintln!("{} unreadable ({e}); treating as empty", path.display());
                Vec::new()
            }
        },
        Err(_) => Vec::new(),
    }
}
