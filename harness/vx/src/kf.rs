//! known_findings.json reader. The file is committed and never written at run time.
use serde::Deserialize;

#[derive(Deserialize, Clone, Debug)]
pub struct Finding {
    pub id: String,
    pub property: String,
    /// "open" suppresses a violation with exactly this key; "fixed" suppresses nothing.
    pub status: String,
    pub key: String,
    #[serde(default)]
    pub r#where: String,
    #[serde(default)]
    pub what: String,
    #[serde(default)]
    pub commit: String,
}

pub fn load(path: &std::path::Path) -> Vec<Finding> {
    match std::fs::read(path) {
        Ok(b) => match serde_json::from_slice::<Vec<Finding>>(&b) {
            Ok(v) => v,
            Err(e) => {
                eprintln!("known_findings.json unreadable ({e}); treating as empty");
                Vec::new()
            }
        },
        Err(_) => Vec::new(),
    }
}
