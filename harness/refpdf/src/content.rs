//! refpdf::content — not written yet.
