//! Content-stream parser, written from ISO 32000-1 §7.8.2 (content streams), §8.9.7
//! (inline images) and the operator tables the Annex A summary points to (Tables 57, 59,
//! 60, 61, 74, 77, 87, 92, 105, 107, 108, 109, 113, 320, 32). Independent of /repo.
//!
//! A content stream is a sequence of *instructions* in postfix form: operands (ordinary
//! direct objects, §7.3, never indirect references or streams) followed by an operator,
//! which is a keyword — a run of regular characters that is not a number and not one of
//! `true false null`. `'` and `"` are regular characters and therefore ordinary keywords.
//!
//! API
//! * [`parse_content`]: lenient — every keyword is an operator (known or not); `Err` only
//!   when the byte string cannot be tokenised at all (unterminated string/array/dict,
//!   stray closing delimiter, inline image without `EI`).
//! * [`parse_content_strict`] / [`parse`] with `strict = true`: same operator list, plus an
//!   [`Issue`] for everything a conforming writer must not produce: invalid tokens,
//!   `NaN`/`inf`-like number tokens, unknown operators outside `BX … EX`, operand count /
//!   type not matching the operator tables, indirect references as operands, operands left
//!   over at the end, unbalanced `q/Q`, `BT/ET`, `BMC|BDC/EMC`, `BX/EX`.
//! * Inline images become ONE [`Op`] with `operator == b"BI"` and
//!   `operands == [Obj::Dict(parameters in source order), Obj::Str(raw image data)]`.
//!   The data length is taken from `/L` (or `/Length`, PDF 2.0) when that lands exactly on
//!   an `EI` keyword; otherwise the data ends at the first `<white-space>EI` that is followed by a
//!   non-regular character or the end of the stream.
//! * [`operand_spec`] gives the operand kinds of every operator of Annex A;
//!   [`check_operands`] applies it (handles the variable-arity colour operators).
//! * [`write_content`] serialises an operator list again (used to hand-build streams).

use crate::syntax::{is_regular, is_ws, parse_number_token, write_obj, Dict, Obj, Parser};

#[derive(Clone, PartialEq)]
pub struct Op {
    pub operator: Vec<u8>,
    pub operands: Vec<Obj>,
}

impl std::fmt::Debug for Op {
    fn fmt(&self, f: &mut std::fmt::Formatter<'_>) -> std::fmt::Result {
        for o in &self.operands {
            write!(f, "{o:?} ")?;
        }
        write!(f, "{}", String::from_utf8_lossy(&self.operator))
    }
}

impl Op {
    pub fn new(operator: &str, operands: Vec<Obj>) -> Op {
        Op { operator: operator.as_bytes().to_vec(), operands }
    }
    pub fn is(&self, name: &str) -> bool {
        self.operator == name.as_bytes()
    }
    pub fn name(&self) -> String {
        String::from_utf8_lossy(&self.operator).into_owned()
    }
    /// operand `i` as a number (integer or real)
    pub fn num(&self, i: usize) -> Option<f64> {
        self.operands.get(i).and_then(|o| o.as_num())
    }
}

/// Operand kinds used by the operator tables.
#[derive(Debug, Clone, Copy, PartialEq, Eq)]
pub enum Kind {
    /// integer or real
    Num,
    /// integer only (`J`, `j`, `Tr`)
    Int,
    Name,
    Str,
    /// array of numbers (`d`)
    NumArray,
    /// array of strings and numbers (`TJ`)
    TextArray,
    /// property list: a name (resource) or an inline dictionary (`DP`, `BDC`)
    Props,
    /// dictionary (only the parameter dictionary of the `BI` pseudo-instruction)
    Dict,
    /// VARIABLE: 1..=32 numbers (`SC`, `sc`) — stands for the whole operand list
    Components,
    /// VARIABLE: 0..=32 numbers optionally followed by a name, at least one operand
    /// (`SCN`, `scn`) — stands for the whole operand list
    ComponentsOrPattern,
}

const NUM1: &[Kind] = &[Kind::Num];
const NUM2: &[Kind] = &[Kind::Num, Kind::Num];
const NUM3: &[Kind] = &[Kind::Num, Kind::Num, Kind::Num];
const NUM4: &[Kind] = &[Kind::Num, Kind::Num, Kind::Num, Kind::Num];
const NUM6: &[Kind] = &[Kind::Num, Kind::Num, Kind::Num, Kind::Num, Kind::Num, Kind::Num];
const NONE: &[Kind] = &[];
const NAME1: &[Kind] = &[Kind::Name];
const INT1: &[Kind] = &[Kind::Int];

/// Operand list of every content-stream operator (ISO 32000-1 Annex A and the tables it
/// refers to). `None` for a keyword that is not an operator. For `SC sc SCN scn` the
/// one-element slice is a variable-arity marker (see [`Kind`]); use [`check_operands`].
/// `BI` describes the combined inline-image instruction this module produces; `ID`/`EI`
/// never appear as separate operators in the output and map to the empty list.
pub fn operand_spec(op: &[u8]) -> Option<&'static [Kind]> {
    Some(match op {
        // general graphics state, Table 57
        b"w" => NUM1,
        b"J" => INT1,
        b"j" => INT1,
        b"M" => NUM1,
        b"d" => &[Kind::NumArray, Kind::Num],
        b"ri" => NAME1,
        b"i" => NUM1,
        b"gs" => NAME1,
        // special graphics state, Table 57
        b"q" | b"Q" => NONE,
        b"cm" => NUM6,
        // path construction, Table 59
        b"m" | b"l" => NUM2,
        b"c" => NUM6,
        b"v" | b"y" => NUM4,
        b"h" => NONE,
        b"re" => NUM4,
        // path painting, Table 60; clipping, Table 61
        b"S" | b"s" | b"f" | b"F" | b"f*" | b"B" | b"B*" | b"b" | b"b*" | b"n" => NONE,
        b"W" | b"W*" => NONE,
        // text objects, Table 107
        b"BT" | b"ET" => NONE,
        // text state, Table 105
        b"Tc" | b"Tw" | b"Tz" | b"TL" | b"Ts" => NUM1,
        b"Tf" => &[Kind::Name, Kind::Num],
        b"Tr" => INT1,
        // text positioning, Table 108
        b"Td" | b"TD" => NUM2,
        b"Tm" => NUM6,
        b"T*" => NONE,
        // text showing, Table 109
        b"Tj" | b"'" => &[Kind::Str],
        b"\"" => &[Kind::Num, Kind::Num, Kind::Str],
        b"TJ" => &[Kind::TextArray],
        // Type 3 fonts, Table 113
        b"d0" => NUM2,
        b"d1" => NUM6,
        // colour, Table 74
        b"CS" | b"cs" => NAME1,
        b"SC" | b"sc" => &[Kind::Components],
        b"SCN" | b"scn" => &[Kind::ComponentsOrPattern],
        b"G" | b"g" => NUM1,
        b"RG" | b"rg" => NUM3,
        b"K" | b"k" => NUM4,
        // shading, Table 77
        b"sh" => NAME1,
        // inline images, Table 92
        b"BI" => &[Kind::Dict, Kind::Str],
        b"ID" | b"EI" => NONE,
        // XObjects, Table 87
        b"Do" => NAME1,
        // marked content, Table 320
        b"MP" | b"BMC" => NAME1,
        b"DP" | b"BDC" => &[Kind::Name, Kind::Props],
        b"EMC" => NONE,
        // compatibility, Table 32
        b"BX" | b"EX" => NONE,
        _ => return None,
    })
}

/// All operators of Annex A (73 entries; `BI`/`ID`/`EI` listed separately as in the standard).
pub const ALL_OPERATORS: &[&str] = &[
    "b", "B", "b*", "B*", "BDC", "BI", "BMC", "BT", "BX", "c", "cm", "CS", "cs", "d", "d0", "d1", "Do", "DP", "EI", "EMC", "ET", "EX", "f", "F", "f*", "G", "g", "gs", "h", "i", "ID", "j", "J", "K", "k",
    "l", "m", "M", "MP", "n", "q", "Q", "re", "RG", "rg", "ri", "s", "S", "SC", "sc", "SCN", "scn", "sh", "T*", "Tc", "Td", "TD", "Tf", "Tj", "TJ", "TL", "Tm", "Tr", "Ts", "Tw", "Tz", "v", "w", "W", "W*",
    "y", "'", "\"",
];

fn kind_matches(k: Kind, o: &Obj) -> bool {
    match k {
        Kind::Num => matches!(o, Obj::Int(_)) || matches!(o, Obj::Real(r) if r.is_finite()),
        Kind::Int => matches!(o, Obj::Int(_)),
        Kind::Name => matches!(o, Obj::Name(_)),
        Kind::Str => matches!(o, Obj::Str(_)),
        Kind::NumArray => matches!(o, Obj::Array(a) if a.iter().all(|x| kind_matches(Kind::Num, x))),
        Kind::TextArray => matches!(o, Obj::Array(a) if a.iter().all(|x| kind_matches(Kind::Num, x) || matches!(x, Obj::Str(_)))),
        Kind::Props => matches!(o, Obj::Name(_) | Obj::Dict(_)),
        Kind::Dict => matches!(o, Obj::Dict(_)),
        Kind::Components | Kind::ComponentsOrPattern => false,
    }
}

/// Check an operand list against [`operand_spec`]. `Err(("count"|"type"|"unknown", message))`.
pub fn check_operands(op: &[u8], operands: &[Obj]) -> Result<(), (&'static str, String)> {
    let name = String::from_utf8_lossy(op).into_owned();
    let Some(spec) = operand_spec(op) else { return Err(("unknown", format!("'{name}' is not a content-stream operator"))) };
    match spec {
        [Kind::Components] => {
            if operands.is_empty() || operands.len() > 32 {
                return Err(("count", format!("'{name}' takes 1..=32 numbers, got {}", operands.len())));
            }
            if let Some(bad) = operands.iter().find(|o| !kind_matches(Kind::Num, o)) {
                return Err(("type", format!("'{name}' operand {bad:?} is not a number")));
            }
            Ok(())
        }
        [Kind::ComponentsOrPattern] => {
            if operands.is_empty() || operands.len() > 33 {
                return Err(("count", format!("'{name}' takes 0..=32 numbers and an optional name, got {}", operands.len())));
            }
            let (last, init) = operands.split_last().unwrap();
            let nums = if matches!(last, Obj::Name(_)) { init } else { operands };
            if let Some(bad) = nums.iter().find(|o| !kind_matches(Kind::Num, o)) {
                return Err(("type", format!("'{name}' operand {bad:?} is not a number")));
            }
            Ok(())
        }
        _ => {
            if operands.len() != spec.len() {
                return Err(("count", format!("'{name}' takes {} operand(s), got {}", spec.len(), operands.len())));
            }
            for (i, (k, o)) in spec.iter().zip(operands).enumerate() {
                if !kind_matches(*k, o) {
                    return Err(("type", format!("'{name}' operand {i} should be {k:?}, got {} {o:?}", o.type_name())));
                }
            }
            Ok(())
        }
    }
}

#[derive(Debug, Clone, Copy, PartialEq, Eq)]
pub enum IssueKind {
    /// a token the syntax does not allow (raw bytes in names, `#` misuse, stray text …)
    Token,
    /// a number-like token that is not a PDF number (`NaN`, `inf`, `-inf`, `1e5`, `1.2.3`, `--1`)
    Number,
    /// keyword that is not an operator of Annex A, outside a `BX … EX` section
    UnknownOperator,
    /// wrong number of operands
    OperandCount,
    /// operand of the wrong type (including indirect references, non-finite reals)
    OperandType,
    /// operands left on the stack at the end of the stream
    Dangling,
    /// unbalanced `q/Q`, `BT/ET`, marked content, `BX/EX`
    Nesting,
}

#[derive(Debug, Clone, PartialEq)]
pub struct Issue {
    pub kind: IssueKind,
    /// byte offset of the token the issue is about
    pub pos: usize,
    /// index in `ops` of the instruction the issue is about (`ops.len()` for end-of-stream issues)
    pub op_index: usize,
    pub msg: String,
}

#[derive(Debug, Clone, Default)]
pub struct Parsed {
    pub ops: Vec<Op>,
    /// only filled when parsing with `strict = true`
    pub issues: Vec<Issue>,
    /// operands after the last operator
    pub trailing_operands: Vec<Obj>,
}

/// Lenient parse: the operator list, or `Err` when the bytes cannot be tokenised.
pub fn parse_content(bytes: &[u8]) -> Result<Vec<Op>, String> {
    parse(bytes, false).map(|p| p.ops)
}

/// Strict parse: operator list plus every deviation from the standard found on the way.
pub fn parse_content_strict(bytes: &[u8]) -> Result<(Vec<Op>, Vec<Issue>), String> {
    parse(bytes, true).map(|p| (p.ops, p.issues))
}

fn looks_non_finite(tok: &[u8]) -> bool {
    let t: Vec<u8> = tok.iter().map(|c| c.to_ascii_lowercase()).collect();
    let t = t.strip_prefix(b"+").or_else(|| t.strip_prefix(b"-")).unwrap_or(&t);
    matches!(t, b"nan" | b"inf" | b"infinity")
}

fn contains_ref_or_bad_real(o: &Obj) -> Option<String> {
    match o {
        Obj::Ref(n, g) => Some(format!("indirect reference {n} {g} R")),
        Obj::Stream(_) => Some("stream object".into()),
        Obj::Real(r) if !r.is_finite() => Some("non-finite real".into()),
        Obj::Array(a) => a.iter().find_map(contains_ref_or_bad_real),
        Obj::Dict(d) => d.iter().find_map(|(_, v)| contains_ref_or_bad_real(v)),
        _ => None,
    }
}

pub fn parse(bytes: &[u8], strict: bool) -> Result<Parsed, String> {
    let mut p = Parser::new(bytes, 0);
    let mut out = Parsed::default();
    let mut stack: Vec<Obj> = Vec::new();
    let mut stack_pos: usize = 0;
    // nesting bookkeeping (strict only)
    let mut q_depth: i64 = 0;
    let mut bt_open = false;
    let mut mc_depth: i64 = 0;
    let mut bx_depth: i64 = 0;
    let issue = |out: &mut Parsed, kind: IssueKind, pos: usize, msg: String| {
        if strict {
            let op_index = out.ops.len();
            out.issues.push(Issue { kind, pos, op_index, msg });
        }
    };
    loop {
        p.skip_ws();
        let Some(c) = p.peek() else { break };
        let tok_pos = p.pos;
        if stack.is_empty() {
            stack_pos = tok_pos;
        }
        match c {
            b'/' | b'(' | b'<' | b'[' => {
                let before = p.issues.len();
                let o = p.parse_object().map_err(|e| e.to_string())?;
                for m in p.issues.drain(before..).collect::<Vec<_>>() {
                    issue(&mut out, IssueKind::Token, tok_pos, m);
                }
                stack.push(o);
            }
            b')' | b'>' | b']' | b'{' | b'}' => {
                return Err(format!("syntax error at byte {tok_pos}: unexpected delimiter '{}'", c as char));
            }
            _ => {
                // a run of regular characters: number, true/false/null, or operator keyword
                let mut e = p.pos;
                while e < bytes.len() && is_regular(bytes[e]) {
                    e += 1;
                }
                let tok = &bytes[tok_pos..e];
                p.pos = e;
                let numeric_start = matches!(c, b'+' | b'-' | b'.' | b'0'..=b'9');
                if numeric_start {
                    match parse_number_token(tok) {
                        Ok(n) => {
                            stack.push(n);
                            continue;
                        }
                        Err(m) => {
                            issue(&mut out, IssueKind::Number, tok_pos, format!("{m} at byte {tok_pos}"));
                            // falls through: treated as an (unknown) keyword
                        }
                    }
                }
                match tok {
                    b"true" => {
                        stack.push(Obj::Bool(true));
                        continue;
                    }
                    b"false" => {
                        stack.push(Obj::Bool(false));
                        continue;
                    }
                    b"null" => {
                        stack.push(Obj::Null);
                        continue;
                    }
                    _ => {}
                }
                if tok == b"BI" {
                    let (dict, data) = inline_image(&mut p)?;
                    if strict && !stack.is_empty() {
                        issue(&mut out, IssueKind::OperandCount, stack_pos, format!("'BI' takes no operands, got {}", stack.len()));
                    }
                    for m in p.issues.drain(..).collect::<Vec<_>>() {
                        issue(&mut out, IssueKind::Token, tok_pos, m);
                    }
                    stack.clear();
                    out.ops.push(Op { operator: b"BI".to_vec(), operands: vec![Obj::Dict(dict), Obj::Str(data)] });
                    continue;
                }
                let operands = std::mem::take(&mut stack);
                if strict {
                    if !numeric_start && looks_non_finite(tok) {
                        issue(&mut out, IssueKind::Number, tok_pos, format!("non-finite number token {:?} at byte {tok_pos}", String::from_utf8_lossy(tok)));
                    } else if tok.iter().any(|b| !(0x21..=0x7e).contains(b)) {
                        issue(&mut out, IssueKind::Token, tok_pos, format!("keyword with non-printable bytes at byte {tok_pos}"));
                    }
                    for o in &operands {
                        if let Some(what) = contains_ref_or_bad_real(o) {
                            issue(&mut out, IssueKind::OperandType, stack_pos, format!("{what} as operand of '{}'", String::from_utf8_lossy(tok)));
                        }
                    }
                    match check_operands(tok, &operands) {
                        Ok(()) => {}
                        Err(("unknown", m)) => {
                            if bx_depth <= 0 && !(numeric_start || looks_non_finite(tok)) {
                                issue(&mut out, IssueKind::UnknownOperator, tok_pos, format!("{m} (byte {tok_pos})"));
                            }
                        }
                        Err(("count", m)) => issue(&mut out, IssueKind::OperandCount, tok_pos, format!("{m} (byte {tok_pos})")),
                        Err((_, m)) => issue(&mut out, IssueKind::OperandType, tok_pos, format!("{m} (byte {tok_pos})")),
                    }
                    match tok {
                        b"q" => q_depth += 1,
                        b"Q" => {
                            q_depth -= 1;
                            if q_depth < 0 {
                                issue(&mut out, IssueKind::Nesting, tok_pos, format!("'Q' without matching 'q' at byte {tok_pos}"));
                                q_depth = 0;
                            }
                        }
                        b"BT" => {
                            if bt_open {
                                issue(&mut out, IssueKind::Nesting, tok_pos, format!("'BT' inside a text object at byte {tok_pos}"));
                            }
                            bt_open = true;
                        }
                        b"ET" => {
                            if !bt_open {
                                issue(&mut out, IssueKind::Nesting, tok_pos, format!("'ET' without 'BT' at byte {tok_pos}"));
                            }
                            bt_open = false;
                        }
                        b"BMC" | b"BDC" => mc_depth += 1,
                        b"EMC" => {
                            mc_depth -= 1;
                            if mc_depth < 0 {
                                issue(&mut out, IssueKind::Nesting, tok_pos, format!("'EMC' without 'BMC'/'BDC' at byte {tok_pos}"));
                                mc_depth = 0;
                            }
                        }
                        b"BX" => bx_depth += 1,
                        b"EX" => {
                            bx_depth -= 1;
                            if bx_depth < 0 {
                                issue(&mut out, IssueKind::Nesting, tok_pos, format!("'EX' without 'BX' at byte {tok_pos}"));
                                bx_depth = 0;
                            }
                        }
                        _ => {}
                    }
                }
                out.ops.push(Op { operator: tok.to_vec(), operands });
            }
        }
    }
    if strict {
        let end = bytes.len();
        if !stack.is_empty() {
            issue(&mut out, IssueKind::Dangling, stack_pos, format!("{} operand(s) after the last operator", stack.len()));
        }
        if q_depth > 0 {
            issue(&mut out, IssueKind::Nesting, end, format!("{q_depth} 'q' without 'Q'"));
        }
        if bt_open {
            issue(&mut out, IssueKind::Nesting, end, "'BT' without 'ET'".into());
        }
        if mc_depth > 0 {
            issue(&mut out, IssueKind::Nesting, end, format!("{mc_depth} marked-content sequence(s) not closed"));
        }
        if bx_depth > 0 {
            issue(&mut out, IssueKind::Nesting, end, format!("{bx_depth} 'BX' without 'EX'"));
        }
    }
    out.trailing_operands = stack;
    Ok(out)
}

/// After the `BI` keyword: key/value pairs, `ID`, one white-space byte, data, `EI`.
fn inline_image(p: &mut Parser) -> Result<(Dict, Vec<u8>), String> {
    let mut d = Dict::new();
    loop {
        p.skip_ws();
        match p.peek() {
            None => return Err("inline image: no 'ID' after 'BI'".into()),
            Some(b'/') => {
                let k = match p.parse_object().map_err(|e| e.to_string())? {
                    Obj::Name(n) => n,
                    _ => unreachable!(),
                };
                p.skip_ws();
                if p.at_end() {
                    return Err("inline image: key without value".into());
                }
                // a value is an ordinary object, but never a keyword other than true/false/null
                let v = p.parse_object().map_err(|e| format!("inline image value: {e}"))?;
                d.0.push((k, v));
            }
            Some(_) => {
                if p.keyword(b"ID") {
                    break;
                }
                return Err(format!("inline image: expected a name key or 'ID' at byte {}", p.pos));
            }
        }
    }
    let b = p.b;
    // §8.9.7: ID is followed by a single white-space character
    if p.peek().map(is_ws).unwrap_or(false) {
        p.pos += 1;
    } else if !p.at_end() {
        p.issues.push(format!("'ID' not followed by a white-space character at byte {}", p.pos));
    }
    let start = p.pos;
    let ei_at = |at: usize| -> bool { b.len() >= at + 2 && &b[at..at + 2] == b"EI" && b.get(at + 2).map(|c| !is_regular(*c)).unwrap_or(true) };
    // PDF 2.0 /L (/Length): trusted only when it lands on white-space* EI
    let declared = d.get("L").or_else(|| d.get("Length")).and_then(|o| o.as_int());
    if let Some(l) = declared {
        if l >= 0 && start + (l as usize) <= b.len() {
            let mut e = start + l as usize;
            while e < b.len() && is_ws(b[e]) {
                e += 1;
            }
            if ei_at(e) {
                p.pos = e + 2;
                return Ok((d, b[start..start + l as usize].to_vec()));
            }
        }
    }
    // scan: first EI keyword that is preceded by white space (the byte after ID counts)
    let mut at = start;
    while at + 2 <= b.len() {
        if ei_at(at) && (at == start || is_ws(b[at - 1])) {
            let data_end = if at == start { start } else { at - 1 };
            p.pos = at + 2;
            return Ok((d, b[start..data_end].to_vec()));
        }
        at += 1;
    }
    Err(format!("inline image: no 'EI' after 'ID' at byte {start}"))
}

/// Serialise an operator list: operands separated by single spaces, one instruction per
/// line. Inline images (`BI` with `[Dict, Str]`) are written in the `BI … ID data EI` form.
pub fn write_content(ops: &[Op]) -> Vec<u8> {
    let mut out = Vec::new();
    for op in ops {
        if op.operator == b"BI" && op.operands.len() == 2 {
            if let (Obj::Dict(d), Obj::Str(data)) = (&op.operands[0], &op.operands[1]) {
                out.extend_from_slice(b"BI");
                for (k, v) in d.iter() {
                    out.push(b' ');
                    crate::syntax::write_name(k, &mut out);
                    out.push(b' ');
                    write_obj(v, &mut out);
                }
                out.extend_from_slice(b"\nID\n");
                out.extend_from_slice(data);
                out.extend_from_slice(b"\nEI\n");
                continue;
            }
        }
        for o in &op.operands {
            write_obj(o, &mut out);
            out.push(b' ');
        }
        out.extend_from_slice(&op.operator);
        out.push(b'\n');
    }
    out
}

#[cfg(test)]
mod tests {
    use super::*;

    fn ops(s: &[u8]) -> Vec<Op> {
        parse_content(s).unwrap()
    }
    fn strict_ok(s: &[u8]) -> Vec<Op> {
        let (o, i) = parse_content_strict(s).unwrap();
        assert!(i.is_empty(), "{i:?}");
        o
    }
    fn kinds(s: &[u8]) -> Vec<IssueKind> {
        parse_content_strict(s).unwrap().1.into_iter().map(|i| i.kind).collect()
    }

    #[test]
    fn table_is_complete() {
        // Annex A lists 73 operators
        assert_eq!(ALL_OPERATORS.len(), 73);
        for o in ALL_OPERATORS {
            assert!(operand_spec(o.as_bytes()).is_some(), "{o}");
        }
        let mut s: Vec<&str> = ALL_OPERATORS.to_vec();
        s.sort();
        s.dedup();
        assert_eq!(s.len(), 73);
        assert!(operand_spec(b"R").is_none());
        assert!(operand_spec(b"obj").is_none());
    }

    #[test]
    fn spec_example_7_8_2_and_text() {
        // ISO 32000-1 §9.2.2 EXAMPLE (Hello-world text object)
        let o = strict_ok(b"BT\n/F13 12 Tf\n288 720 Td\n(ABC) Tj\nET");
        assert_eq!(o.len(), 5);
        assert_eq!(o[1], Op::new("Tf", vec![Obj::name("F13"), Obj::Int(12)]));
        assert_eq!(o[2], Op::new("Td", vec![Obj::Int(288), Obj::Int(720)]));
        assert_eq!(o[3], Op::new("Tj", vec![Obj::str(b"ABC")]));
        // §9.4.3 TJ example
        let o = strict_ok(b"BT [(A) 120 (W) 120 (A) 95 (Y again)] TJ ET");
        assert_eq!(o[1].operands[0].as_array().unwrap().len(), 7);
        // §8.5.2.1-like path: 'x y m', curves, closing and painting, star operators
        let o = strict_ok(b"q 1 0 0 1 50 50 cm 0 0 m 10 10 l 1 2 3 4 5 6 c 1 2 3 4 v 1 2 3 4 y h 0 0 5 5 re W* n f* B* b* S Q");
        assert_eq!(o.iter().map(|x| x.name()).collect::<Vec<_>>().join(" "), "q cm m l c v y h re W* n f* B* b* S Q");
    }

    #[test]
    fn quote_operators_and_no_whitespace() {
        // ' and " are regular characters: they form keywords of their own after a delimiter
        let o = strict_ok(b"BT (a)' 1 2(b)\" [(x)-3.5(y)]TJ/F1 9 Tf T* ET");
        assert_eq!(o[1], Op::new("'", vec![Obj::str(b"a")]));
        assert_eq!(o[2], Op::new("\"", vec![Obj::Int(1), Obj::Int(2), Obj::str(b"b")]));
        assert_eq!(o[3].name(), "TJ");
        assert_eq!(o[3].operands[0].as_array().unwrap()[1], Obj::Real(-3.5));
        assert_eq!(o[4], Op::new("Tf", vec![Obj::name("F1"), Obj::Int(9)]));
        assert_eq!(o[5].name(), "T*");
    }

    #[test]
    fn strings_with_every_byte() {
        for b in 0u16..256 {
            let s = [b'x', b as u8, b'y'];
            let mut c = Vec::new();
            write_obj(&Obj::str(&s), &mut c);
            c.extend_from_slice(b" Tj");
            let o = ops(&c);
            // a raw CR inside a literal string reads back as LF (§7.3.4.2) — write_string escapes it
            assert_eq!(o[0], Op::new("Tj", vec![Obj::str(&s)]), "byte {b}");
        }
        assert_eq!(ops(b"(a\rb) Tj")[0].operands[0], Obj::str(b"a\nb"));
        assert_eq!(ops(b"<4869> Tj")[0].operands[0], Obj::str(b"Hi"));
    }

    #[test]
    fn marked_content() {
        // §14.6 examples
        let o = strict_ok(b"/Span << /ActualText (Dru\\355) /MCID 0 >> BDC (x) Tj EMC /P /MC0 BDC EMC /T BMC EMC /N MP /N <</A 1>> DP");
        assert_eq!(o[0].name(), "BDC");
        assert_eq!(o[0].operands[1].dict_get("ActualText"), Some(&Obj::str(b"Dru\xed")));
        assert_eq!(o[3], Op::new("BDC", vec![Obj::name("P"), Obj::name("MC0")]));
    }

    #[test]
    fn colour_operators() {
        strict_ok(b"/DeviceRGB cs 1 0 0 sc /Pattern CS /P1 SCN 0.5 0.5 0.5 /P2 scn 0.1 0.2 0.3 0.4 K 0 g 1 G 1 1 1 rg 0 0 0 RG 0 0 0 1 k /Sh0 sh");
        assert_eq!(kinds(b"sc"), vec![IssueKind::OperandCount]);
        assert_eq!(kinds(b"/P sc"), vec![IssueKind::OperandType]);
        assert_eq!(kinds(b"1 2 rg"), vec![IssueKind::OperandCount]);
        assert_eq!(kinds(b"1 2 (x) rg"), vec![IssueKind::OperandType]);
    }

    #[test]
    fn inline_image_forms() {
        // §8.9.7 EXAMPLE shape
        let src = b"q BI /W 2 /H 2 /BPC 8 /CS /G ID \x00\xff EI x\nEI Q";
        let o = ops(src);
        assert_eq!(o.len(), 5); // q BI x EI Q: the second EI is a stray keyword
        assert_eq!(o[1].name(), "BI");
        assert_eq!(o[1].operands[0].dict_get("W"), Some(&Obj::Int(2)));
        // first white-space EI white-space ends the data when no /L is given
        assert_eq!(o[1].operands[1], Obj::str(b"\x00\xff"));
        assert_eq!(o[2].name(), "x");
        // with /L the embedded " EI " is data
        let o = strict_ok(b"q BI /W 2 /H 2 /BPC 8 /CS /G /L 7 ID \x00\xff EI x\nEI Q");
        assert_eq!(o.len(), 3);
        assert_eq!(o[1].operands[1], Obj::str(b"\x00\xff EI x"));
        assert_eq!(o[2].name(), "Q");
        // empty data; ASCIIHex data with EOD
        assert_eq!(ops(b"BI ID EI")[0].operands[1], Obj::str(b""));
        assert_eq!(ops(b"BI /F /AHx ID 00ff>\nEI")[0].operands[1], Obj::str(b"00ff>"));
        assert!(parse_content(b"BI /W 1 ID abc").is_err());
        assert!(parse_content(b"BI /W ID abc EI").is_err() || parse_content(b"BI /W ID abc EI").is_ok());
        // round trip through write_content
        let o = ops(src);
        assert_eq!(ops(&write_content(&o)), o);
    }

    #[test]
    fn strict_flags() {
        assert_eq!(kinds(b"NaN 0 m"), vec![IssueKind::Number, IssueKind::OperandCount]);
        assert_eq!(kinds(b"inf w"), vec![IssueKind::Number, IssueKind::OperandCount]);
        assert_eq!(kinds(b"-inf w"), vec![IssueKind::Number, IssueKind::OperandCount]);
        assert_eq!(kinds(b"1e5 w"), vec![IssueKind::Number, IssueKind::OperandCount]);
        assert_eq!(kinds(b"1.0 J"), vec![IssueKind::OperandType]);
        assert_eq!(kinds(b"1 J"), vec![]);
        assert_eq!(kinds(b"0 0 foo"), vec![IssueKind::UnknownOperator]);
        assert_eq!(kinds(b"BX 0 0 foo EX"), vec![]);
        assert_eq!(kinds(b"1 0 R Do"), vec![IssueKind::UnknownOperator, IssueKind::OperandCount]);
        assert_eq!(kinds(b"[1 0 R] 0 d"), vec![IssueKind::OperandType, IssueKind::OperandType]);
        assert_eq!(kinds(b"[1 (a)] 0 d"), vec![IssueKind::OperandType]);
        assert_eq!(kinds(b"[1 (a) /N] TJ"), vec![IssueKind::OperandType]);
        assert_eq!(kinds(b"q 1 2"), vec![IssueKind::Dangling, IssueKind::Nesting]);
        assert_eq!(kinds(b"Q ET EMC EX"), vec![IssueKind::Nesting; 4]);
        assert_eq!(kinds(b"/A\x80 gs"), vec![IssueKind::Token]);
        assert_eq!(kinds(b"/Img#201 Do"), vec![]);
        assert_eq!(kinds(b"1 2 m l"), vec![IssueKind::OperandCount]);
        assert_eq!(kinds(b"true Tj"), vec![IssueKind::OperandType]);
        assert!(parse_content(b"(abc Tj").is_err());
        assert!(parse_content(b"[1 2 0 d").is_err());
        assert!(parse_content(b"1 2 ) m").is_err());
        assert!(parse_content(b"<< /A 1 > BDC").is_err());
        // comments are white space
        assert_eq!(ops(b"1 % one\n2 m % (move\n").len(), 1);
        assert_eq!(ops(b"").len(), 0);
    }

    #[test]
    fn numbers() {
        let o = ops(b"+1 -.5 4. 0.005 -0 1000000000 cm");
        assert_eq!(o[0].operands, vec![Obj::Int(1), Obj::Real(-0.5), Obj::Real(4.0), Obj::Real(0.005), Obj::Int(0), Obj::Int(1000000000)]);
        // "1 0 R" is not a reference in a content stream: two integers and a keyword
        let o = ops(b"1 0 R");
        assert_eq!(o[0], Op::new("R", vec![Obj::Int(1), Obj::Int(0)]));
    }

    /// equality up to the serializer's number form (6 decimals, integral reals written as integers)
    fn equiv(a: &Obj, b: &Obj) -> bool {
        match (a, b) {
            (Obj::Array(x), Obj::Array(y)) => x.len() == y.len() && x.iter().zip(y).all(|(p, q)| equiv(p, q)),
            (Obj::Dict(x), Obj::Dict(y)) => x.len() == y.len() && x.iter().zip(y.iter()).all(|((k1, v1), (k2, v2))| k1 == k2 && equiv(v1, v2)),
            _ => match (a.as_num(), b.as_num()) {
                (Some(p), Some(q)) => (p - q).abs() <= 1e-6,
                _ => a == b,
            },
        }
    }

    /// Binding to the outside world: page content written by third-party producers (qpdf,
    /// pdfTeX, Quartz, …) must tokenise, must satisfy the operand table (guards the table
    /// against demanding more than conforming writers emit) and must survive
    /// write_content -> parse_content unchanged.
    #[test]
    fn real_world_page_content() {
        let root = std::env::var("VERIF_REPO").unwrap_or_else(|_| "/repo".into());
        let mut pages_seen = 0;
        let mut ops_seen = 0;
        let mut operators: std::collections::BTreeSet<String> = Default::default();
        for name in ["interop_base.pdf", "Cold_Email_Hacks.pdf", "issue_272_higgs_arxiv_1207_7214.pdf", "issue_286_indexed_images.pdf", "issue_498_actual_text_interop.pdf"] {
            let Ok(b) = std::fs::read(format!("{root}/oxidize-pdf-core/tests/fixtures/{name}")) else { panic!("{name} missing") };
            let f = crate::file::PdfFile::parse(&b).unwrap_or_else(|e| panic!("{name}: {e}"));
            for (pi, pg) in f.pages().unwrap().iter().enumerate().take(40) {
                let c = f.page_content(pg).unwrap_or_else(|e| panic!("{name} p{pi}: {e}"));
                let (o, issues) = parse_content_strict(&c).unwrap_or_else(|e| panic!("{name} p{pi}: {e}"));
                let table: Vec<&Issue> = issues.iter().filter(|i| matches!(i.kind, IssueKind::OperandCount | IssueKind::OperandType | IssueKind::UnknownOperator | IssueKind::Number | IssueKind::Dangling)).collect();
                assert!(table.is_empty(), "{name} p{pi}: {:?}", &table[..table.len().min(3)]);
                let back = parse_content(&write_content(&o)).unwrap();
                assert!(back.len() == o.len() && back.iter().zip(&o).all(|(a, b)| a.operator == b.operator && a.operands.len() == b.operands.len() && a.operands.iter().zip(&b.operands).all(|(x, y)| equiv(x, y))), "{name} p{pi}: write/parse round trip");
                pages_seen += 1;
                ops_seen += o.len();
                operators.extend(o.iter().map(|x| x.name()));
            }
        }
        eprintln!("{pages_seen} pages, {ops_seen} operators, {} distinct: {operators:?}", operators.len());
        assert!(pages_seen >= 10 && ops_seen > 5000 && operators.len() >= 25);
    }

    #[test]
    fn write_roundtrip() {
        let src = b"q 0.5 0 0 -1.25 3 4 cm /GS1 gs [1 2.5] 0 d BT /F1 12 Tf (a\\(b\\\\) Tj [(x) -10 <00ff>] TJ /Span <</ActualText (y) /MCID 3>> BDC EMC ET Q";
        let o = strict_ok(src);
        let w = write_content(&o);
        assert_eq!(strict_ok(&w), o);
    }
}
