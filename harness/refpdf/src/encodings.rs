//! Single-byte Latin text encodings of ISO 32000-1 Annex D, transcribed from the standard:
//! Table D.2 ("Latin character set and encodings": glyph name -> octal code in
//! StandardEncoding / MacRomanEncoding / WinAnsiEncoding / PDFDocEncoding) plus the Adobe
//! Glyph List (AGLFN) Unicode value of each of the 229 glyph names.
//!
//! Nothing here is derived from /repo. Validation (unit tests below, run at setup):
//!  * WinAnsi column  vs Python `codecs` cp1252      — every cell both define;
//!  * MacRoman column vs Python `codecs` mac_roman   — every cell both define;
//!  * PDFDoc column   vs `refpdf::textstr::pdfdoc_to_unicode` (an independent
//!    code->Unicode transcription of Table D.3);
//!  * Standard column vs a second, code-ordered transcription of the PostScript
//!    StandardEncoding vector (PLRM Appendix E) — no third-party table is installed.
//!
//! Cell classes. `Cell::Def(c)`: the table assigns the code to a glyph whose Unicode value is
//! `c`. `Cell::Undef`: the table assigns nothing to the code — a conforming implementation
//! may do anything there, so checks must exclude these cells from decode comparison and count
//! them (see `undefined_codes`).
//!
//! Deliberate points, all from the text of Annex D:
//!  * WinAnsi 0xA0 and MacRoman 0xCA: footnote "The SPACE character shall also be encoded as
//!    312 in MacRomanEncoding and as 240 in WinAnsiEncoding. This duplicate code shall signify
//!    a nonbreaking space" -> Def(U+00A0); a decoder answering U+0020 (the glyph name is
//!    `space`) is also conforming: see `decode_alternatives`.
//!  * WinAnsi 0xAD: footnote "The HYPHEN character shall also be encoded as 255 in
//!    WinAnsiEncoding. This duplicate code shall signify a soft hyphen" -> Def(U+00AD),
//!    alternative U+002D.
//!  * WinAnsi 0x7F, 0x81, 0x8D, 0x8F, 0x90, 0x9D: footnote "all unused codes greater than 40
//!    map to the bullet character. However, only code 225 shall be specifically assigned to
//!    the bullet character; other codes are subject to future reassignment" -> Undef (not
//!    pinned: bullet today, reassignable), recorded in `WINANSI_UNUSED_BULLET`.
//!  * MacRoman 0xDB is `currency` (U+00A4): "the euro character ... is not available in
//!    MacRomanEncoding"; Apple's later Mac OS Roman (and Python's mac_roman) put U+20AC there.
//!  * MacRomanEncoding lacks the 15 Mac OS Roman characters of §9.6.6.4 Table 115 (notequal
//!    0xAD, infinity 0xB0, lessequal 0xB2, greaterequal 0xB3, partialdiff 0xB6, summation
//!    0xB7, product 0xB8, pi 0xB9, integral 0xBA, Omega 0xBD, radical 0xC3, approxequal 0xC5,
//!    Delta 0xC6, lozenge 0xD7, apple 0xF0) -> Undef.
//!  * PDFDoc 0x7F, 0x9F, 0xAD are undefined; 0x00-0x17 are undefined except that the text
//!    string definition lets HT/LF/CR through (kept identical to `refpdf::textstr`).
//!  * Codes 0x00-0x1F are outside all three font encodings -> Undef.

#[derive(Clone, Copy, PartialEq, Eq, Debug, Hash)]
pub enum Enc {
    Standard,
    MacRoman,
    WinAnsi,
    PdfDoc,
}

pub const ALL: [Enc; 4] = [Enc::Standard, Enc::MacRoman, Enc::WinAnsi, Enc::PdfDoc];

impl Enc {
    pub fn name(self) -> &'static str {
        match self {
            Enc::Standard => "StandardEncoding",
            Enc::MacRoman => "MacRomanEncoding",
            Enc::WinAnsi => "WinAnsiEncoding",
            Enc::PdfDoc => "PDFDocEncoding",
        }
    }
    fn col(self) -> usize {
        match self {
            Enc::Standard => 0,
            Enc::MacRoman => 1,
            Enc::WinAnsi => 2,
            Enc::PdfDoc => 3,
        }
    }
}

#[derive(Clone, Copy, PartialEq, Eq, Debug, Hash)]
pub enum Cell {
    /// the table assigns this code; Unicode value of the glyph (AGLFN)
    Def(char),
    /// the table assigns nothing to this code
    Undef,
}

/// no code in this encoding
const N: u16 = 0xFFFF;

/// Table D.2, one row per glyph name: (name, AGLFN Unicode, [STD, MAC, WIN, PDF] octal codes).
/// Codes are written in octal exactly as printed in the standard.
#[rustfmt::skip]
pub const LATIN: &[(&str, u32, [u16; 4])] = &[
    ("A", 0x0041, [0o101, 0o101, 0o101, 0o101]),
    ("AE", 0x00C6, [0o341, 0o256, 0o306, 0o306]),
    ("Aacute", 0x00C1, [N, 0o347, 0o301, 0o301]),
    ("Acircumflex", 0x00C2, [N, 0o345, 0o302, 0o302]),
    ("Adieresis", 0x00C4, [N, 0o200, 0o304, 0o304]),
    ("Agrave", 0x00C0, [N, 0o313, 0o300, 0o300]),
    ("Aring", 0x00C5, [N, 0o201, 0o305, 0o305]),
    ("Atilde", 0x00C3, [N, 0o314, 0o303, 0o303]),
    ("B", 0x0042, [0o102, 0o102, 0o102, 0o102]),
    ("C", 0x0043, [0o103, 0o103, 0o103, 0o103]),
    ("Ccedilla", 0x00C7, [N, 0o202, 0o307, 0o307]),
    ("D", 0x0044, [0o104, 0o104, 0o104, 0o104]),
    ("E", 0x0045, [0o105, 0o105, 0o105, 0o105]),
    ("Eacute", 0x00C9, [N, 0o203, 0o311, 0o311]),
    ("Ecircumflex", 0x00CA, [N, 0o346, 0o312, 0o312]),
    ("Edieresis", 0x00CB, [N, 0o350, 0o313, 0o313]),
    ("Egrave", 0x00C8, [N, 0o351, 0o310, 0o310]),
    ("Eth", 0x00D0, [N, N, 0o320, 0o320]),
    ("Euro", 0x20AC, [N, N, 0o200, 0o240]),
    ("F", 0x0046, [0o106, 0o106, 0o106, 0o106]),
    ("G", 0x0047, [0o107, 0o107, 0o107, 0o107]),
    ("H", 0x0048, [0o110, 0o110, 0o110, 0o110]),
    ("I", 0x0049, [0o111, 0o111, 0o111, 0o111]),
    ("Iacute", 0x00CD, [N, 0o352, 0o315, 0o315]),
    ("Icircumflex", 0x00CE, [N, 0o353, 0o316, 0o316]),
    ("Idieresis", 0x00CF, [N, 0o354, 0o317, 0o317]),
    ("Igrave", 0x00CC, [N, 0o355, 0o314, 0o314]),
    ("J", 0x004A, [0o112, 0o112, 0o112, 0o112]),
    ("K", 0x004B, [0o113, 0o113, 0o113, 0o113]),
    ("L", 0x004C, [0o114, 0o114, 0o114, 0o114]),
    ("Lslash", 0x0141, [0o350, N, N, 0o225]),
    ("M", 0x004D, [0o115, 0o115, 0o115, 0o115]),
    ("N", 0x004E, [0o116, 0o116, 0o116, 0o116]),
    ("Ntilde", 0x00D1, [N, 0o204, 0o321, 0o321]),
    ("O", 0x004F, [0o117, 0o117, 0o117, 0o117]),
    ("OE", 0x0152, [0o352, 0o316, 0o214, 0o226]),
    ("Oacute", 0x00D3, [N, 0o356, 0o323, 0o323]),
    ("Ocircumflex", 0x00D4, [N, 0o357, 0o324, 0o324]),
    ("Odieresis", 0x00D6, [N, 0o205, 0o326, 0o326]),
    ("Ograve", 0x00D2, [N, 0o361, 0o322, 0o322]),
    ("Oslash", 0x00D8, [0o351, 0o257, 0o330, 0o330]),
    ("Otilde", 0x00D5, [N, 0o315, 0o325, 0o325]),
    ("P", 0x0050, [0o120, 0o120, 0o120, 0o120]),
    ("Q", 0x0051, [0o121, 0o121, 0o121, 0o121]),
    ("R", 0x0052, [0o122, 0o122, 0o122, 0o122]),
    ("S", 0x0053, [0o123, 0o123, 0o123, 0o123]),
    ("Scaron", 0x0160, [N, N, 0o212, 0o227]),
    ("T", 0x0054, [0o124, 0o124, 0o124, 0o124]),
    ("Thorn", 0x00DE, [N, N, 0o336, 0o336]),
    ("U", 0x0055, [0o125, 0o125, 0o125, 0o125]),
    ("Uacute", 0x00DA, [N, 0o362, 0o332, 0o332]),
    ("Ucircumflex", 0x00DB, [N, 0o363, 0o333, 0o333]),
    ("Udieresis", 0x00DC, [N, 0o206, 0o334, 0o334]),
    ("Ugrave", 0x00D9, [N, 0o364, 0o331, 0o331]),
    ("V", 0x0056, [0o126, 0o126, 0o126, 0o126]),
    ("W", 0x0057, [0o127, 0o127, 0o127, 0o127]),
    ("X", 0x0058, [0o130, 0o130, 0o130, 0o130]),
    ("Y", 0x0059, [0o131, 0o131, 0o131, 0o131]),
    ("Yacute", 0x00DD, [N, N, 0o335, 0o335]),
    ("Ydieresis", 0x0178, [N, 0o331, 0o237, 0o230]),
    ("Z", 0x005A, [0o132, 0o132, 0o132, 0o132]),
    ("Zcaron", 0x017D, [N, N, 0o216, 0o231]),
    ("a", 0x0061, [0o141, 0o141, 0o141, 0o141]),
    ("aacute", 0x00E1, [N, 0o207, 0o341, 0o341]),
    ("acircumflex", 0x00E2, [N, 0o211, 0o342, 0o342]),
    ("acute", 0x00B4, [0o302, 0o253, 0o264, 0o264]),
    ("adieresis", 0x00E4, [N, 0o212, 0o344, 0o344]),
    ("ae", 0x00E6, [0o361, 0o276, 0o346, 0o346]),
    ("agrave", 0x00E0, [N, 0o210, 0o340, 0o340]),
    ("ampersand", 0x0026, [0o046, 0o046, 0o046, 0o046]),
    ("aring", 0x00E5, [N, 0o214, 0o345, 0o345]),
    ("asciicircum", 0x005E, [0o136, 0o136, 0o136, 0o136]),
    ("asciitilde", 0x007E, [0o176, 0o176, 0o176, 0o176]),
    ("asterisk", 0x002A, [0o052, 0o052, 0o052, 0o052]),
    ("at", 0x0040, [0o100, 0o100, 0o100, 0o100]),
    ("atilde", 0x00E3, [N, 0o213, 0o343, 0o343]),
    ("b", 0x0062, [0o142, 0o142, 0o142, 0o142]),
    ("backslash", 0x005C, [0o134, 0o134, 0o134, 0o134]),
    ("bar", 0x007C, [0o174, 0o174, 0o174, 0o174]),
    ("braceleft", 0x007B, [0o173, 0o173, 0o173, 0o173]),
    ("braceright", 0x007D, [0o175, 0o175, 0o175, 0o175]),
    ("bracketleft", 0x005B, [0o133, 0o133, 0o133, 0o133]),
    ("bracketright", 0x005D, [0o135, 0o135, 0o135, 0o135]),
    ("breve", 0x02D8, [0o306, 0o371, N, 0o030]),
    ("brokenbar", 0x00A6, [N, N, 0o246, 0o246]),
    ("bullet", 0x2022, [0o267, 0o245, 0o225, 0o200]),
    ("c", 0x0063, [0o143, 0o143, 0o143, 0o143]),
    ("caron", 0x02C7, [0o317, 0o377, N, 0o031]),
    ("ccedilla", 0x00E7, [N, 0o215, 0o347, 0o347]),
    ("cedilla", 0x00B8, [0o313, 0o374, 0o270, 0o270]),
    ("cent", 0x00A2, [0o242, 0o242, 0o242, 0o242]),
    ("circumflex", 0x02C6, [0o303, 0o366, 0o210, 0o032]),
    ("colon", 0x003A, [0o072, 0o072, 0o072, 0o072]),
    ("comma", 0x002C, [0o054, 0o054, 0o054, 0o054]),
    ("copyright", 0x00A9, [N, 0o251, 0o251, 0o251]),
    ("currency", 0x00A4, [0o250, 0o333, 0o244, 0o244]),
    ("d", 0x0064, [0o144, 0o144, 0o144, 0o144]),
    ("dagger", 0x2020, [0o262, 0o240, 0o206, 0o201]),
    ("daggerdbl", 0x2021, [0o263, 0o340, 0o207, 0o202]),
    ("degree", 0x00B0, [N, 0o241, 0o260, 0o260]),
    ("dieresis", 0x00A8, [0o310, 0o254, 0o250, 0o250]),
    ("divide", 0x00F7, [N, 0o326, 0o367, 0o367]),
    ("dollar", 0x0024, [0o044, 0o044, 0o044, 0o044]),
    ("dotaccent", 0x02D9, [0o307, 0o372, N, 0o033]),
    ("dotlessi", 0x0131, [0o365, 0o365, N, 0o232]),
    ("e", 0x0065, [0o145, 0o145, 0o145, 0o145]),
    ("eacute", 0x00E9, [N, 0o216, 0o351, 0o351]),
    ("ecircumflex", 0x00EA, [N, 0o220, 0o352, 0o352]),
    ("edieresis", 0x00EB, [N, 0o221, 0o353, 0o353]),
    ("egrave", 0x00E8, [N, 0o217, 0o350, 0o350]),
    ("eight", 0x0038, [0o070, 0o070, 0o070, 0o070]),
    ("ellipsis", 0x2026, [0o274, 0o311, 0o205, 0o203]),
    ("emdash", 0x2014, [0o320, 0o321, 0o227, 0o204]),
    ("endash", 0x2013, [0o261, 0o320, 0o226, 0o205]),
    ("equal", 0x003D, [0o075, 0o075, 0o075, 0o075]),
    ("eth", 0x00F0, [N, N, 0o360, 0o360]),
    ("exclam", 0x0021, [0o041, 0o041, 0o041, 0o041]),
    ("exclamdown", 0x00A1, [0o241, 0o301, 0o241, 0o241]),
    ("f", 0x0066, [0o146, 0o146, 0o146, 0o146]),
    ("fi", 0xFB01, [0o256, 0o336, N, 0o223]),
    ("five", 0x0035, [0o065, 0o065, 0o065, 0o065]),
    ("fl", 0xFB02, [0o257, 0o337, N, 0o224]),
    ("florin", 0x0192, [0o246, 0o304, 0o203, 0o206]),
    ("four", 0x0034, [0o064, 0o064, 0o064, 0o064]),
    ("fraction", 0x2044, [0o244, 0o332, N, 0o207]),
    ("g", 0x0067, [0o147, 0o147, 0o147, 0o147]),
    ("germandbls", 0x00DF, [0o373, 0o247, 0o337, 0o337]),
    ("grave", 0x0060, [0o301, 0o140, 0o140, 0o140]),
    ("greater", 0x003E, [0o076, 0o076, 0o076, 0o076]),
    ("guillemotleft", 0x00AB, [0o253, 0o307, 0o253, 0o253]),
    ("guillemotright", 0x00BB, [0o273, 0o310, 0o273, 0o273]),
    ("guilsinglleft", 0x2039, [0o254, 0o334, 0o213, 0o210]),
    ("guilsinglright", 0x203A, [0o255, 0o335, 0o233, 0o211]),
    ("h", 0x0068, [0o150, 0o150, 0o150, 0o150]),
    ("hungarumlaut", 0x02DD, [0o315, 0o375, N, 0o034]),
    ("hyphen", 0x002D, [0o055, 0o055, 0o055, 0o055]),
    ("i", 0x0069, [0o151, 0o151, 0o151, 0o151]),
    ("iacute", 0x00ED, [N, 0o222, 0o355, 0o355]),
    ("icircumflex", 0x00EE, [N, 0o224, 0o356, 0o356]),
    ("idieresis", 0x00EF, [N, 0o225, 0o357, 0o357]),
    ("igrave", 0x00EC, [N, 0o223, 0o354, 0o354]),
    ("j", 0x006A, [0o152, 0o152, 0o152, 0o152]),
    ("k", 0x006B, [0o153, 0o153, 0o153, 0o153]),
    ("l", 0x006C, [0o154, 0o154, 0o154, 0o154]),
    ("less", 0x003C, [0o074, 0o074, 0o074, 0o074]),
    ("logicalnot", 0x00AC, [N, 0o302, 0o254, 0o254]),
    ("lslash", 0x0142, [0o370, N, N, 0o233]),
    ("m", 0x006D, [0o155, 0o155, 0o155, 0o155]),
    ("macron", 0x00AF, [0o305, 0o370, 0o257, 0o257]),
    ("minus", 0x2212, [N, N, N, 0o212]),
    ("mu", 0x00B5, [N, 0o265, 0o265, 0o265]),
    ("multiply", 0x00D7, [N, N, 0o327, 0o327]),
    ("n", 0x006E, [0o156, 0o156, 0o156, 0o156]),
    ("nine", 0x0039, [0o071, 0o071, 0o071, 0o071]),
    ("ntilde", 0x00F1, [N, 0o226, 0o361, 0o361]),
    ("numbersign", 0x0023, [0o043, 0o043, 0o043, 0o043]),
    ("o", 0x006F, [0o157, 0o157, 0o157, 0o157]),
    ("oacute", 0x00F3, [N, 0o227, 0o363, 0o363]),
    ("ocircumflex", 0x00F4, [N, 0o231, 0o364, 0o364]),
    ("odieresis", 0x00F6, [N, 0o232, 0o366, 0o366]),
    ("oe", 0x0153, [0o372, 0o317, 0o234, 0o234]),
    ("ogonek", 0x02DB, [0o316, 0o376, N, 0o035]),
    ("ograve", 0x00F2, [N, 0o230, 0o362, 0o362]),
    ("one", 0x0031, [0o061, 0o061, 0o061, 0o061]),
    ("onehalf", 0x00BD, [N, N, 0o275, 0o275]),
    ("onequarter", 0x00BC, [N, N, 0o274, 0o274]),
    ("onesuperior", 0x00B9, [N, N, 0o271, 0o271]),
    ("ordfeminine", 0x00AA, [0o343, 0o273, 0o252, 0o252]),
    ("ordmasculine", 0x00BA, [0o353, 0o274, 0o272, 0o272]),
    ("oslash", 0x00F8, [0o371, 0o277, 0o370, 0o370]),
    ("otilde", 0x00F5, [N, 0o233, 0o365, 0o365]),
    ("p", 0x0070, [0o160, 0o160, 0o160, 0o160]),
    ("paragraph", 0x00B6, [0o266, 0o246, 0o266, 0o266]),
    ("parenleft", 0x0028, [0o050, 0o050, 0o050, 0o050]),
    ("parenright", 0x0029, [0o051, 0o051, 0o051, 0o051]),
    ("percent", 0x0025, [0o045, 0o045, 0o045, 0o045]),
    ("period", 0x002E, [0o056, 0o056, 0o056, 0o056]),
    ("periodcentered", 0x00B7, [0o264, 0o341, 0o267, 0o267]),
    ("perthousand", 0x2030, [0o275, 0o344, 0o211, 0o213]),
    ("plus", 0x002B, [0o053, 0o053, 0o053, 0o053]),
    ("plusminus", 0x00B1, [N, 0o261, 0o261, 0o261]),
    ("q", 0x0071, [0o161, 0o161, 0o161, 0o161]),
    ("question", 0x003F, [0o077, 0o077, 0o077, 0o077]),
    ("questiondown", 0x00BF, [0o277, 0o300, 0o277, 0o277]),
    ("quotedbl", 0x0022, [0o042, 0o042, 0o042, 0o042]),
    ("quotedblbase", 0x201E, [0o271, 0o343, 0o204, 0o214]),
    ("quotedblleft", 0x201C, [0o252, 0o322, 0o223, 0o215]),
    ("quotedblright", 0x201D, [0o272, 0o323, 0o224, 0o216]),
    ("quoteleft", 0x2018, [0o140, 0o324, 0o221, 0o217]),
    ("quoteright", 0x2019, [0o047, 0o325, 0o222, 0o220]),
    ("quotesinglbase", 0x201A, [0o270, 0o342, 0o202, 0o221]),
    ("quotesingle", 0x0027, [0o251, 0o047, 0o047, 0o047]),
    ("r", 0x0072, [0o162, 0o162, 0o162, 0o162]),
    ("registered", 0x00AE, [N, 0o250, 0o256, 0o256]),
    ("ring", 0x02DA, [0o312, 0o373, N, 0o036]),
    ("s", 0x0073, [0o163, 0o163, 0o163, 0o163]),
    ("scaron", 0x0161, [N, N, 0o232, 0o235]),
    ("section", 0x00A7, [0o247, 0o244, 0o247, 0o247]),
    ("semicolon", 0x003B, [0o073, 0o073, 0o073, 0o073]),
    ("seven", 0x0037, [0o067, 0o067, 0o067, 0o067]),
    ("six", 0x0036, [0o066, 0o066, 0o066, 0o066]),
    ("slash", 0x002F, [0o057, 0o057, 0o057, 0o057]),
    ("space", 0x0020, [0o040, 0o040, 0o040, 0o040]),
    ("sterling", 0x00A3, [0o243, 0o243, 0o243, 0o243]),
    ("t", 0x0074, [0o164, 0o164, 0o164, 0o164]),
    ("thorn", 0x00FE, [N, N, 0o376, 0o376]),
    ("three", 0x0033, [0o063, 0o063, 0o063, 0o063]),
    ("threequarters", 0x00BE, [N, N, 0o276, 0o276]),
    ("threesuperior", 0x00B3, [N, N, 0o263, 0o263]),
    ("tilde", 0x02DC, [0o304, 0o367, 0o230, 0o037]),
    ("trademark", 0x2122, [N, 0o252, 0o231, 0o222]),
    ("two", 0x0032, [0o062, 0o062, 0o062, 0o062]),
    ("twosuperior", 0x00B2, [N, N, 0o262, 0o262]),
    ("u", 0x0075, [0o165, 0o165, 0o165, 0o165]),
    ("uacute", 0x00FA, [N, 0o234, 0o372, 0o372]),
    ("ucircumflex", 0x00FB, [N, 0o236, 0o373, 0o373]),
    ("udieresis", 0x00FC, [N, 0o237, 0o374, 0o374]),
    ("ugrave", 0x00F9, [N, 0o235, 0o371, 0o371]),
    ("underscore", 0x005F, [0o137, 0o137, 0o137, 0o137]),
    ("v", 0x0076, [0o166, 0o166, 0o166, 0o166]),
    ("w", 0x0077, [0o167, 0o167, 0o167, 0o167]),
    ("x", 0x0078, [0o170, 0o170, 0o170, 0o170]),
    ("y", 0x0079, [0o171, 0o171, 0o171, 0o171]),
    ("yacute", 0x00FD, [N, N, 0o375, 0o375]),
    ("ydieresis", 0x00FF, [N, 0o330, 0o377, 0o377]),
    ("yen", 0x00A5, [0o245, 0o264, 0o245, 0o245]),
    ("z", 0x007A, [0o172, 0o172, 0o172, 0o172]),
    ("zcaron", 0x017E, [N, N, 0o236, 0o236]),
    ("zero", 0x0030, [0o060, 0o060, 0o060, 0o060]),
];

/// WinAnsi codes above 0o40 that the table leaves unused ("map to the bullet character",
/// "subject to future reassignment").
pub const WINANSI_UNUSED_BULLET: [u8; 6] = [0x7F, 0x81, 0x8D, 0x8F, 0x90, 0x9D];

/// The 15 Mac OS Roman codes that MacRomanEncoding does not have (ISO 32000-1 Table 115).
pub const MACROMAN_NOT_IN_PDF: [u8; 15] =
    [0xAD, 0xB0, 0xB2, 0xB3, 0xB6, 0xB7, 0xB8, 0xB9, 0xBA, 0xBD, 0xC3, 0xC5, 0xC6, 0xD7, 0xF0];

/// Apple's Mac OS Roman (the post-1998 character set, = Python `mac_roman`) at the 16 codes
/// where it differs from / goes beyond MacRomanEncoding: the 15 codes of Table 115 and the
/// euro at 0xDB. NOT part of Annex D — provided so that a check can recognise "this decoder
/// implements Mac OS Roman" as a signature. Cross-checked against Python in the unit tests.
pub const MACOS_ROMAN_BEYOND_ANNEX_D: [(u8, char); 16] = [
    (0xAD, '\u{2260}'), (0xB0, '\u{221E}'), (0xB2, '\u{2264}'), (0xB3, '\u{2265}'), (0xB6, '\u{2202}'),
    (0xB7, '\u{2211}'), (0xB8, '\u{220F}'), (0xB9, '\u{03C0}'), (0xBA, '\u{222B}'), (0xBD, '\u{03A9}'),
    (0xC3, '\u{221A}'), (0xC5, '\u{2248}'), (0xC6, '\u{2206}'), (0xD7, '\u{25CA}'), (0xDB, '\u{20AC}'),
    (0xF0, '\u{F8FF}'),
];

/// Mac OS Roman byte -> char (codes 0x00-0x7F identity), see `MACOS_ROMAN_BEYOND_ANNEX_D`.
pub fn macos_roman(b: u8) -> char {
    if let Some((_, c)) = MACOS_ROMAN_BEYOND_ANNEX_D.iter().find(|(x, _)| *x == b) {
        return *c;
    }
    match decode(Enc::MacRoman, b) {
        Cell::Def(c) => c,
        Cell::Undef => b as char,
    }
}

fn build(enc: Enc) -> [Cell; 256] {
    let mut t = [Cell::Undef; 256];
    let col = enc.col();
    for (name, u, codes) in LATIN {
        let code = codes[col];
        if code == N {
            continue;
        }
        assert!(code < 256, "{name}");
        assert!(t[code as usize] == Cell::Undef, "{} code {:o} assigned twice ({name})", enc.name(), code);
        t[code as usize] = Cell::Def(char::from_u32(*u).unwrap());
    }
    match enc {
        // footnotes of Table D.2: duplicate codes for SPACE and HYPHEN
        Enc::MacRoman => t[0o312] = Cell::Def('\u{00A0}'),
        Enc::WinAnsi => {
            t[0o240] = Cell::Def('\u{00A0}');
            t[0o255] = Cell::Def('\u{00AD}');
        }
        // text strings: "The codes 0x09, 0x0A, 0x0D (HT, LF, CR) may appear" — kept as in textstr
        Enc::PdfDoc => {
            t[0x09] = Cell::Def('\t');
            t[0x0A] = Cell::Def('\n');
            t[0x0D] = Cell::Def('\r');
        }
        Enc::Standard => {}
    }
    t
}

/// The 256-cell decode table of an encoding.
pub fn table(enc: Enc) -> &'static [Cell; 256] {
    use std::sync::OnceLock;
    static T: OnceLock<[[Cell; 256]; 4]> = OnceLock::new();
    &T.get_or_init(|| [build(Enc::Standard), build(Enc::MacRoman), build(Enc::WinAnsi), build(Enc::PdfDoc)])[enc.col()]
}

pub fn decode(enc: Enc, b: u8) -> Cell {
    table(enc)[b as usize]
}

/// Other Unicode values a conforming decoder may give for a *defined* cell: the duplicate
/// SPACE / HYPHEN codes carry the glyph names `space` / `hyphen`.
pub fn decode_alternatives(enc: Enc, b: u8) -> &'static [char] {
    match (enc, b) {
        (Enc::WinAnsi, 0xA0) | (Enc::MacRoman, 0xCA) => &[' '],
        (Enc::WinAnsi, 0xAD) => &['-'],
        _ => &[],
    }
}

/// The code the table assigns to `c`, if `c` is in the encoding's repertoire. The tables are
/// injective on defined cells (unit-tested), so the answer is unique.
pub fn encode(enc: Enc, c: char) -> Option<u8> {
    use std::collections::HashMap;
    use std::sync::OnceLock;
    static R: OnceLock<[HashMap<char, u8>; 4]> = OnceLock::new();
    let maps = R.get_or_init(|| {
        let mk = |e: Enc| {
            let mut m = HashMap::new();
            for (b, cell) in table(e).iter().enumerate() {
                if let Cell::Def(c) = cell {
                    let prev = m.insert(*c, b as u8);
                    assert!(prev.is_none(), "{} not injective at {:02X}", e.name(), b);
                }
            }
            m
        };
        [mk(Enc::Standard), mk(Enc::MacRoman), mk(Enc::WinAnsi), mk(Enc::PdfDoc)]
    });
    maps[enc.col()].get(&c).copied()
}

/// Codes the table leaves unassigned (excluded from decode comparison, counted by checks).
pub fn undefined_codes(enc: Enc) -> Vec<u8> {
    (0u16..256).map(|b| b as u8).filter(|&b| decode(enc, b) == Cell::Undef).collect()
}

/// The repertoire: every character with a code, in code order.
pub fn repertoire(enc: Enc) -> Vec<(u8, char)> {
    (0u16..256)
        .filter_map(|b| match decode(enc, b as u8) {
            Cell::Def(c) => Some((b as u8, c)),
            Cell::Undef => None,
        })
        .collect()
}

/// Glyph name of a defined cell (for reports).
pub fn glyph_name(enc: Enc, b: u8) -> Option<&'static str> {
    let col = enc.col();
    match (enc, b) {
        (Enc::WinAnsi, 0xA0) | (Enc::MacRoman, 0xCA) => return Some("space (nonbreaking)"),
        (Enc::WinAnsi, 0xAD) => return Some("hyphen (soft)"),
        _ => {}
    }
    LATIN.iter().find(|(_, _, codes)| codes[col] == b as u16).map(|(n, _, _)| *n)
}

#[cfg(test)]
mod tests {
    use super::*;

    #[test]
    fn shape_of_the_tables() {
        assert_eq!(LATIN.len(), 229);
        // names unique, sorted as in the standard (ASCII order within case groups is not
        // needed; uniqueness is)
        let mut names: Vec<&str> = LATIN.iter().map(|r| r.0).collect();
        names.sort();
        names.dedup();
        assert_eq!(names.len(), 229);
        // Unicode values unique
        let mut us: Vec<u32> = LATIN.iter().map(|r| r.1).collect();
        us.sort();
        us.dedup();
        assert_eq!(us.len(), 229);
        // every encoding: printable ASCII is where it must be
        for enc in ALL {
            for b in 0x20u8..0x7F {
                let want = match (enc, b) {
                    (Enc::Standard, 0x27) => '\u{2019}',
                    (Enc::Standard, 0x60) => '\u{2018}',
                    _ => b as char,
                };
                assert_eq!(decode(enc, b), Cell::Def(want), "{} {:02X}", enc.name(), b);
            }
        }
        // known counts of assigned codes
        assert_eq!(repertoire(Enc::Standard).len(), 149);
        assert_eq!(repertoire(Enc::WinAnsi).len(), 95 + (256 - 0x80) - 5); // 0x20-0x7E + high half minus 5 unused
        assert_eq!(repertoire(Enc::MacRoman).len(), 95 + 128 - 15);
        assert_eq!(undefined_codes(Enc::WinAnsi).iter().filter(|&&b| b > 0x20).copied().collect::<Vec<_>>(), WINANSI_UNUSED_BULLET);
        assert_eq!(undefined_codes(Enc::MacRoman).iter().filter(|&&b| b > 0x7F).copied().collect::<Vec<_>>(), MACROMAN_NOT_IN_PDF);
        // encode is the inverse of decode on every defined cell
        for enc in ALL {
            for (b, c) in repertoire(enc) {
                assert_eq!(encode(enc, c), Some(b));
            }
            assert_eq!(encode(enc, '\u{4E2D}'), None);
        }
        assert_eq!(encode(Enc::WinAnsi, '\u{20AC}'), Some(0x80));
        assert_eq!(encode(Enc::PdfDoc, '\u{20AC}'), Some(0xA0));
        assert_eq!(encode(Enc::MacRoman, '\u{20AC}'), None);
        assert_eq!(encode(Enc::Standard, '\u{20AC}'), None);
        assert_eq!(encode(Enc::Standard, '\''), Some(0xA9));
        assert_eq!(encode(Enc::Standard, '`'), Some(0xC1));
    }

    /// second transcription, by code, of the PostScript StandardEncoding vector
    #[test]
    fn standard_matches_code_ordered_transcription() {
        let mut want: Vec<(u8, &str)> = Vec::new();
        let ascii_names = [
            "space", "exclam", "quotedbl", "numbersign", "dollar", "percent", "ampersand", "quoteright", "parenleft",
            "parenright", "asterisk", "plus", "comma", "hyphen", "period", "slash", "zero", "one", "two", "three",
            "four", "five", "six", "seven", "eight", "nine", "colon", "semicolon", "less", "equal", "greater",
            "question", "at", "A", "B", "C", "D", "E", "F", "G", "H", "I", "J", "K", "L", "M", "N", "O", "P", "Q", "R",
            "S", "T", "U", "V", "W", "X", "Y", "Z", "bracketleft", "backslash", "bracketright", "asciicircum",
            "underscore", "quoteleft", "a", "b", "c", "d", "e", "f", "g", "h", "i", "j", "k", "l", "m", "n", "o", "p",
            "q", "r", "s", "t", "u", "v", "w", "x", "y", "z", "braceleft", "bar", "braceright", "asciitilde",
        ];
        for (i, n) in ascii_names.iter().enumerate() {
            want.push((0x20 + i as u8, n));
        }
        let high: [(u8, &str); 54] = [
            (0xA1, "exclamdown"), (0xA2, "cent"), (0xA3, "sterling"), (0xA4, "fraction"), (0xA5, "yen"),
            (0xA6, "florin"), (0xA7, "section"), (0xA8, "currency"), (0xA9, "quotesingle"), (0xAA, "quotedblleft"),
            (0xAB, "guillemotleft"), (0xAC, "guilsinglleft"), (0xAD, "guilsinglright"), (0xAE, "fi"), (0xAF, "fl"),
            (0xB1, "endash"), (0xB2, "dagger"), (0xB3, "daggerdbl"), (0xB4, "periodcentered"), (0xB6, "paragraph"),
            (0xB7, "bullet"), (0xB8, "quotesinglbase"), (0xB9, "quotedblbase"), (0xBA, "quotedblright"),
            (0xBB, "guillemotright"), (0xBC, "ellipsis"), (0xBD, "perthousand"), (0xBF, "questiondown"),
            (0xC1, "grave"), (0xC2, "acute"), (0xC3, "circumflex"), (0xC4, "tilde"), (0xC5, "macron"), (0xC6, "breve"),
            (0xC7, "dotaccent"), (0xC8, "dieresis"), (0xCA, "ring"), (0xCB, "cedilla"), (0xCD, "hungarumlaut"),
            (0xCE, "ogonek"), (0xCF, "caron"), (0xD0, "emdash"), (0xE1, "AE"), (0xE3, "ordfeminine"), (0xE8, "Lslash"),
            (0xE9, "Oslash"), (0xEA, "OE"), (0xEB, "ordmasculine"), (0xF1, "ae"), (0xF5, "dotlessi"), (0xF8, "lslash"),
            (0xF9, "oslash"), (0xFA, "oe"), (0xFB, "germandbls"),
        ];
        want.extend(high);
        assert_eq!(want.len(), 149);
        let mut seen = 0;
        for b in 0u16..256 {
            let b = b as u8;
            let w = want.iter().find(|(c, _)| *c == b).map(|(_, n)| *n);
            assert_eq!(glyph_name(Enc::Standard, b), w, "code {b:02X}");
            if w.is_some() {
                seen += 1;
            }
        }
        assert_eq!(seen, 149);
    }

    #[test]
    fn pdfdoc_matches_textstr_transcription() {
        for b in 0u16..256 {
            let b = b as u8;
            let here = match decode(Enc::PdfDoc, b) {
                Cell::Def(c) => Some(c),
                Cell::Undef => None,
            };
            assert_eq!(here, crate::textstr::pdfdoc_to_unicode(b), "code {b:02X}");
        }
    }

    /// Dump a Python codec's decode table: Some(char) per byte, None where the codec has no mapping.
    fn python_table(codec: &str) -> Vec<Option<char>> {
        let script = format!(
            "import sys\nfor b in range(256):\n    try:\n        print(ord(bytes([b]).decode('{codec}')))\n    except UnicodeDecodeError:\n        print(-1)\n"
        );
        let out = std::process::Command::new("python3").arg("-c").arg(&script).output().expect("python3 must be installed (setup requirement)");
        assert!(out.status.success(), "python3 failed: {}", String::from_utf8_lossy(&out.stderr));
        let v: Vec<Option<char>> = String::from_utf8(out.stdout)
            .unwrap()
            .lines()
            .map(|l| {
                let n: i64 = l.trim().parse().unwrap();
                if n < 0 { None } else { char::from_u32(n as u32) }
            })
            .collect();
        assert_eq!(v.len(), 256);
        v
    }

    #[test]
    fn winansi_vs_python_cp1252() {
        let py = python_table("cp1252");
        let (mut shared, mut only_annex, mut only_py) = (0, Vec::new(), Vec::new());
        for b in 0u16..256 {
            let b = b as u8;
            match (decode(Enc::WinAnsi, b), py[b as usize]) {
                (Cell::Def(a), Some(p)) => {
                    shared += 1;
                    assert_eq!(a, p, "cp1252 disagrees at {b:02X}");
                }
                (Cell::Def(_), None) => only_annex.push(b),
                (Cell::Undef, Some(_)) => only_py.push(b),
                (Cell::Undef, None) => {}
            }
        }
        // cp1252 leaves exactly the five codes 81 8D 8F 90 9D unmapped, as Annex D does; it
        // additionally maps the C0 controls and DEL, which Annex D does not assign.
        assert!(only_annex.is_empty(), "{only_annex:02X?}");
        let mut want_only_py: Vec<u8> = (0u8..0x20).collect();
        want_only_py.push(0x7F);
        assert_eq!(only_py, want_only_py);
        assert_eq!(shared, 218); // 95 printable ASCII + 123 of the high half
        // the duplicate codes: cp1252 gives NBSP / SHY, the values the footnotes call for
        assert_eq!(py[0xA0], Some('\u{00A0}'));
        assert_eq!(py[0xAD], Some('\u{00AD}'));
    }

    #[test]
    fn macroman_vs_python_mac_roman() {
        let py = python_table("mac_roman");
        let (mut shared, mut differ, mut only_py) = (0, Vec::new(), Vec::new());
        for b in 0u16..256 {
            let b = b as u8;
            match (decode(Enc::MacRoman, b), py[b as usize]) {
                (Cell::Def(a), Some(p)) => {
                    shared += 1;
                    if a != p {
                        differ.push((b, a, p));
                    }
                }
                (Cell::Def(_), None) => panic!("mac_roman has no {b:02X}"),
                (Cell::Undef, Some(_)) => only_py.push(b),
                (Cell::Undef, None) => {}
            }
        }
        // the one deliberate difference: 0xDB is `currency` in Annex D, EURO SIGN in the
        // post-1998 Mac OS Roman that Python implements
        assert_eq!(differ, vec![(0xDB, '\u{00A4}', '\u{20AC}')]);
        let mut want_only_py: Vec<u8> = (0u8..0x20).collect();
        want_only_py.push(0x7F);
        want_only_py.extend(MACROMAN_NOT_IN_PDF);
        assert_eq!(only_py, want_only_py);
        assert_eq!(shared, 208);
        assert_eq!(py[0xCA], Some('\u{00A0}'));
        // the signature table is exactly Python's mac_roman
        for b in 0u16..256 {
            assert_eq!(Some(macos_roman(b as u8)), py[b as usize], "macos_roman {b:02X}");
        }
    }
}
