//! refpdf::encodings — not written yet.
