//! refpdf::crypto — reference cryptography for the PDF standard security handler.
//!
//! Written from the standards, independent of the library under test:
//!  * RC4 as published (Schneier, "Applied Cryptography"; vectors RFC 6229),
//!  * AES from FIPS-197 (S-box *derived* from the GF(2^8) inverse + affine map of §5.1.1,
//!    key expansion §5.2, cipher §5.1, inverse cipher §5.3), CBC mode (SP 800-38A §6.2),
//!    PKCS#7 padding (RFC 5652 §6.3),
//!  * ISO 32000-1 §7.6.2 Algorithm 1 and §7.6.3.3/4 Algorithms 2–7 (revisions 2–4),
//!  * ISO 32000-2 §7.6.3.3, §7.6.4.3/4 Algorithms 1.A, 2.A, 2.B, 8–13 (revision 6) and the
//!    Adobe Supplement to ISO 32000 (ExtensionLevel 3) revision 5 = the same algorithms with
//!    a plain SHA-256 in place of Algorithm 2.B.
//! Hashes come from the `md5` and `sha2` crates.
//!
//! Validation (unit tests at the end): FIPS-197 appendix vectors, SP 800-38A CBC vectors,
//! RFC 6229 RC4 vectors, and — the binding to qpdf and pypdf — every encrypted fixture under
//! /repo/oxidize-pdf-core/tests/fixtures must decrypt to its plaintext original.
//!
//! Passwords are byte strings here. For revisions 5/6 the caller supplies the UTF-8 form
//! (after SASLprep, which this module does not implement); for revisions 2–4 the
//! PDFDocEncoding form.

use crate::file::PdfFile;
use crate::syntax::{write_obj, Dict, Obj, StreamObj};
use sha2::{Digest, Sha256, Sha384, Sha512};
use std::collections::BTreeMap;
use std::sync::{Arc, Mutex, OnceLock};

// ====================================================================== RC4

pub fn rc4(key: &[u8], data: &[u8]) -> Vec<u8> {
    assert!(!key.is_empty() && key.len() <= 256, "RC4 key length {}", key.len());
    let mut s: [u8; 256] = [0; 256];
    for (i, v) in s.iter_mut().enumerate() {
        *v = i as u8;
    }
    let mut j: u8 = 0;
    for i in 0..256 {
        j = j.wrapping_add(s[i]).wrapping_add(key[i % key.len()]);
        s.swap(i, j as usize);
    }
    let (mut i, mut j) = (0u8, 0u8);
    let mut out = Vec::with_capacity(data.len());
    for &b in data {
        i = i.wrapping_add(1);
        j = j.wrapping_add(s[i as usize]);
        s.swap(i as usize, j as usize);
        let k = s[(s[i as usize].wrapping_add(s[j as usize])) as usize];
        out.push(b ^ k);
    }
    out
}

// ====================================================================== AES (FIPS-197)

struct Tables {
    sbox: [u8; 256],
    inv: [u8; 256],
    m2: [u8; 256],
    m3: [u8; 256],
    m9: [u8; 256],
    m11: [u8; 256],
    m13: [u8; 256],
    m14: [u8; 256],
}

/// multiplication in GF(2^8) modulo x^8 + x^4 + x^3 + x + 1 (§4.2)
fn gmul(mut a: u8, mut b: u8) -> u8 {
    let mut p = 0u8;
    for _ in 0..8 {
        if b & 1 != 0 {
            p ^= a;
        }
        let hi = a & 0x80;
        a <<= 1;
        if hi != 0 {
            a ^= 0x1b;
        }
        b >>= 1;
    }
    p
}

fn tables() -> &'static Tables {
    static T: OnceLock<Tables> = OnceLock::new();
    T.get_or_init(|| {
        let mut t = Tables { sbox: [0; 256], inv: [0; 256], m2: [0; 256], m3: [0; 256], m9: [0; 256], m11: [0; 256], m13: [0; 256], m14: [0; 256] };
        for x in 0..256usize {
            // multiplicative inverse (0 maps to 0), by search
            let mut inv = 0u8;
            if x != 0 {
                for y in 1..256usize {
                    if gmul(x as u8, y as u8) == 1 {
                        inv = y as u8;
                        break;
                    }
                }
            }
            // affine transformation §5.1.1 eq. 5.1 with c = 0x63
            let s = inv ^ inv.rotate_left(1) ^ inv.rotate_left(2) ^ inv.rotate_left(3) ^ inv.rotate_left(4) ^ 0x63;
            t.sbox[x] = s;
            t.inv[s as usize] = x as u8;
            t.m2[x] = gmul(x as u8, 2);
            t.m3[x] = gmul(x as u8, 3);
            t.m9[x] = gmul(x as u8, 9);
            t.m11[x] = gmul(x as u8, 11);
            t.m13[x] = gmul(x as u8, 13);
            t.m14[x] = gmul(x as u8, 14);
        }
        t
    })
}

pub struct Aes {
    rk: Vec<[u8; 16]>,
    nr: usize,
}

impl Aes {
    /// key of 16, 24 or 32 bytes
    pub fn new(key: &[u8]) -> Aes {
        let nk = key.len() / 4;
        assert!(key.len() % 4 == 0 && (nk == 4 || nk == 6 || nk == 8), "AES key length {}", key.len());
        let t = tables();
        let nr = nk + 6;
        let total = 4 * (nr + 1);
        let mut w: Vec<[u8; 4]> = Vec::with_capacity(total);
        for i in 0..nk {
            w.push([key[4 * i], key[4 * i + 1], key[4 * i + 2], key[4 * i + 3]]);
        }
        let mut rcon = 1u8;
        for i in nk..total {
            let mut temp = w[i - 1];
            if i % nk == 0 {
                temp = [t.sbox[temp[1] as usize] ^ rcon, t.sbox[temp[2] as usize], t.sbox[temp[3] as usize], t.sbox[temp[0] as usize]];
                rcon = gmul(rcon, 2);
            } else if nk > 6 && i % nk == 4 {
                temp = [t.sbox[temp[0] as usize], t.sbox[temp[1] as usize], t.sbox[temp[2] as usize], t.sbox[temp[3] as usize]];
            }
            let p = w[i - nk];
            w.push([p[0] ^ temp[0], p[1] ^ temp[1], p[2] ^ temp[2], p[3] ^ temp[3]]);
        }
        let mut rk = Vec::with_capacity(nr + 1);
        for r in 0..=nr {
            let mut k = [0u8; 16];
            for c in 0..4 {
                k[4 * c..4 * c + 4].copy_from_slice(&w[4 * r + c]);
            }
            rk.push(k);
        }
        Aes { rk, nr }
    }

    pub fn round_keys(&self) -> &[[u8; 16]] {
        &self.rk
    }

    fn add(s: &mut [u8; 16], k: &[u8; 16]) {
        for i in 0..16 {
            s[i] ^= k[i];
        }
    }

    /// state byte (row r, column c) lives at index 4c + r (§3.4)
    pub fn encrypt_block(&self, block: &mut [u8; 16]) {
        let t = tables();
        Self::add(block, &self.rk[0]);
        for round in 1..=self.nr {
            // SubBytes + ShiftRows
            let mut n = [0u8; 16];
            for c in 0..4 {
                for r in 0..4 {
                    n[4 * c + r] = t.sbox[block[4 * ((c + r) % 4) + r] as usize];
                }
            }
            if round != self.nr {
                // MixColumns
                for c in 0..4 {
                    let (a0, a1, a2, a3) = (n[4 * c] as usize, n[4 * c + 1] as usize, n[4 * c + 2] as usize, n[4 * c + 3] as usize);
                    block[4 * c] = t.m2[a0] ^ t.m3[a1] ^ a2 as u8 ^ a3 as u8;
                    block[4 * c + 1] = a0 as u8 ^ t.m2[a1] ^ t.m3[a2] ^ a3 as u8;
                    block[4 * c + 2] = a0 as u8 ^ a1 as u8 ^ t.m2[a2] ^ t.m3[a3];
                    block[4 * c + 3] = t.m3[a0] ^ a1 as u8 ^ a2 as u8 ^ t.m2[a3];
                }
            } else {
                *block = n;
            }
            Self::add(block, &self.rk[round]);
        }
    }

    pub fn decrypt_block(&self, block: &mut [u8; 16]) {
        let t = tables();
        Self::add(block, &self.rk[self.nr]);
        for round in (0..self.nr).rev() {
            // InvShiftRows + InvSubBytes
            let mut n = [0u8; 16];
            for c in 0..4 {
                for r in 0..4 {
                    n[4 * c + r] = t.inv[block[4 * ((c + 4 - r) % 4) + r] as usize];
                }
            }
            Self::add(&mut n, &self.rk[round]);
            if round != 0 {
                for c in 0..4 {
                    let (a0, a1, a2, a3) = (n[4 * c] as usize, n[4 * c + 1] as usize, n[4 * c + 2] as usize, n[4 * c + 3] as usize);
                    block[4 * c] = t.m14[a0] ^ t.m11[a1] ^ t.m13[a2] ^ t.m9[a3];
                    block[4 * c + 1] = t.m9[a0] ^ t.m14[a1] ^ t.m11[a2] ^ t.m13[a3];
                    block[4 * c + 2] = t.m13[a0] ^ t.m9[a1] ^ t.m14[a2] ^ t.m11[a3];
                    block[4 * c + 3] = t.m11[a0] ^ t.m13[a1] ^ t.m9[a2] ^ t.m14[a3];
                }
            } else {
                *block = n;
            }
        }
    }
}

/// CBC encryption of whole blocks (no padding). `data.len()` must be a multiple of 16.
pub fn aes_cbc_encrypt_nopad(key: &[u8], iv: &[u8; 16], data: &[u8]) -> Vec<u8> {
    assert!(data.len() % 16 == 0, "CBC without padding needs whole blocks");
    let a = Aes::new(key);
    let mut prev = *iv;
    let mut out = Vec::with_capacity(data.len());
    for ch in data.chunks(16) {
        let mut b = [0u8; 16];
        for i in 0..16 {
            b[i] = ch[i] ^ prev[i];
        }
        a.encrypt_block(&mut b);
        out.extend_from_slice(&b);
        prev = b;
    }
    out
}

pub fn aes_cbc_decrypt_nopad(key: &[u8], iv: &[u8; 16], data: &[u8]) -> Vec<u8> {
    assert!(data.len() % 16 == 0, "CBC without padding needs whole blocks");
    let a = Aes::new(key);
    let mut prev = *iv;
    let mut out = Vec::with_capacity(data.len());
    for ch in data.chunks(16) {
        let mut b = [0u8; 16];
        b.copy_from_slice(ch);
        let c = b;
        a.decrypt_block(&mut b);
        for i in 0..16 {
            b[i] ^= prev[i];
        }
        out.extend_from_slice(&b);
        prev = c;
    }
    out
}

/// RFC 5652 §6.3: pad with k bytes of value k, 1 ≤ k ≤ 16 (a full block when already aligned)
pub fn pkcs7_pad(data: &[u8]) -> Vec<u8> {
    let k = 16 - data.len() % 16;
    let mut v = data.to_vec();
    v.extend(std::iter::repeat(k as u8).take(k));
    v
}

pub fn pkcs7_unpad(data: &[u8]) -> Result<Vec<u8>, String> {
    let Some(&k) = data.last() else { return Err("empty padded data".into()) };
    if data.len() % 16 != 0 {
        return Err(format!("padded length {} is not a multiple of 16", data.len()));
    }
    if k == 0 || k > 16 || !data[data.len() - k as usize..].iter().all(|&b| b == k) {
        return Err(format!("invalid PKCS#7 padding (last byte {k})"));
    }
    Ok(data[..data.len() - k as usize].to_vec())
}

/// ciphertext only (no IV prefix)
pub fn aes_cbc_pkcs7_encrypt(key: &[u8], iv: &[u8; 16], data: &[u8]) -> Vec<u8> {
    aes_cbc_encrypt_nopad(key, iv, &pkcs7_pad(data))
}

pub fn aes_cbc_pkcs7_decrypt(key: &[u8], iv: &[u8; 16], ct: &[u8]) -> Result<Vec<u8>, String> {
    if ct.is_empty() || ct.len() % 16 != 0 {
        return Err(format!("ciphertext length {} is not a positive multiple of 16", ct.len()));
    }
    pkcs7_unpad(&aes_cbc_decrypt_nopad(key, iv, ct))
}

/// PDF convention (ISO 32000-1 §7.6.2): 16-byte IV followed by the CBC ciphertext.
pub fn pdf_aes_encrypt(key: &[u8], iv: &[u8; 16], data: &[u8]) -> Vec<u8> {
    let mut v = iv.to_vec();
    v.extend(aes_cbc_pkcs7_encrypt(key, iv, data));
    v
}

pub fn pdf_aes_decrypt(key: &[u8], data: &[u8]) -> Result<Vec<u8>, String> {
    if data.len() < 32 {
        return Err(format!("AES data of {} bytes is shorter than IV + one block", data.len()));
    }
    let mut iv = [0u8; 16];
    iv.copy_from_slice(&data[..16]);
    aes_cbc_pkcs7_decrypt(key, &iv, &data[16..])
}

// ====================================================================== hashes

pub fn md5(parts: &[&[u8]]) -> [u8; 16] {
    let mut c = md5::Context::new();
    for p in parts {
        c.consume(p);
    }
    c.finalize().0
}

pub fn sha256(parts: &[&[u8]]) -> [u8; 32] {
    let mut h = Sha256::new();
    for p in parts {
        h.update(p);
    }
    h.finalize().into()
}

// ====================================================================== ISO 32000-1 Algorithms 1–7

/// §7.6.3.3 Algorithm 2 step (a) padding string
pub const PAD: [u8; 32] = [
    0x28, 0xBF, 0x4E, 0x5E, 0x4E, 0x75, 0x8A, 0x41, 0x64, 0x00, 0x4E, 0x56, 0xFF, 0xFA, 0x01, 0x08, 0x2E, 0x2E, 0x00, 0xB6, 0xD0, 0x68, 0x3E, 0x80, 0x2F, 0x0C, 0xA9, 0xFE, 0x64, 0x53, 0x69, 0x7A,
];

/// Algorithm 2 (a): truncate to 32 bytes or fill up from the start of PAD
pub fn pad_password(pw: &[u8]) -> [u8; 32] {
    let mut out = [0u8; 32];
    let n = pw.len().min(32);
    out[..n].copy_from_slice(&pw[..n]);
    out[n..].copy_from_slice(&PAD[..32 - n]);
    out
}

/// Algorithm 2: file encryption key from the user password. `key_len` in bytes (5 for R2).
pub fn alg2_file_key(user_pw: &[u8], o: &[u8], p: i32, id0: &[u8], r: u8, key_len: usize, encrypt_metadata: bool) -> Vec<u8> {
    let n = if r == 2 { 5 } else { key_len };
    let padded = pad_password(user_pw);
    let pbytes = (p as u32).to_le_bytes();
    let mut parts: Vec<&[u8]> = vec![&padded, o, &pbytes, id0];
    let ff = [0xFFu8; 4];
    if r >= 4 && !encrypt_metadata {
        parts.push(&ff);
    }
    let mut h = md5(&parts);
    if r >= 3 {
        for _ in 0..50 {
            h = md5(&[&h[..n]]);
        }
    }
    h[..n].to_vec()
}

/// Algorithm 3 steps (a)–(d): the RC4 key derived from the owner password
pub fn alg3_owner_rc4_key(owner_pw: &[u8], r: u8, key_len: usize) -> Vec<u8> {
    let n = if r == 2 { 5 } else { key_len };
    let mut h = md5(&[&pad_password(owner_pw)]);
    if r >= 3 {
        for _ in 0..50 {
            h = md5(&[&h]);
        }
    }
    h[..n].to_vec()
}

fn xor_key(key: &[u8], i: u8) -> Vec<u8> {
    key.iter().map(|b| b ^ i).collect()
}

/// Algorithm 3: the /O entry. An empty owner password means "use the user password" (step a).
pub fn alg3_o(owner_pw: &[u8], user_pw: &[u8], r: u8, key_len: usize) -> [u8; 32] {
    let opw = if owner_pw.is_empty() { user_pw } else { owner_pw };
    let key = alg3_owner_rc4_key(opw, r, key_len);
    let mut v = rc4(&key, &pad_password(user_pw));
    if r >= 3 {
        for i in 1..=19u8 {
            v = rc4(&xor_key(&key, i), &v);
        }
    }
    v.try_into().unwrap()
}

/// Algorithm 4: /U for revision 2
pub fn alg4_u(file_key: &[u8]) -> [u8; 32] {
    rc4(file_key, &PAD).try_into().unwrap()
}

/// Algorithm 5: the first 16 bytes of /U for revisions 3 and 4 (the other 16 are arbitrary)
pub fn alg5_u16(file_key: &[u8], id0: &[u8]) -> [u8; 16] {
    let h = md5(&[&PAD, id0]);
    let mut v = rc4(file_key, &h);
    for i in 1..=19u8 {
        v = rc4(&xor_key(file_key, i), &v);
    }
    v.try_into().unwrap()
}

/// Parameters of a revision 2–4 handler as found in the encryption dictionary
#[derive(Clone, Debug)]
pub struct Rc4Params<'a> {
    pub r: u8,
    pub key_len: usize,
    pub o: &'a [u8],
    pub u: &'a [u8],
    pub p: i32,
    pub id0: &'a [u8],
    pub encrypt_metadata: bool,
}

/// Algorithm 6: authenticate the user password; the file key on success
pub fn alg6_user(pw: &[u8], q: &Rc4Params) -> Option<Vec<u8>> {
    let key = alg2_file_key(pw, q.o, q.p, q.id0, q.r, q.key_len, q.encrypt_metadata);
    let ok = if q.r == 2 { q.u.len() >= 32 && alg4_u(&key)[..] == q.u[..32] } else { q.u.len() >= 16 && alg5_u16(&key, q.id0)[..] == q.u[..16] };
    ok.then_some(key)
}

/// Algorithm 7 steps (a)–(b): the (padded) user password recovered from /O with this owner password
pub fn alg7_recover_user_pw(owner_pw: &[u8], o: &[u8], r: u8, key_len: usize) -> Vec<u8> {
    let key = alg3_owner_rc4_key(owner_pw, r, key_len);
    let o = &o[..o.len().min(32)];
    if r == 2 {
        rc4(&key, o)
    } else {
        let mut v = o.to_vec();
        for i in (0..=19u8).rev() {
            v = rc4(&xor_key(&key, i), &v);
        }
        v
    }
}

/// Algorithm 7: authenticate the owner password; the file key on success
pub fn alg7_owner(pw: &[u8], q: &Rc4Params) -> Option<Vec<u8>> {
    let upw = alg7_recover_user_pw(pw, q.o, q.r, q.key_len);
    alg6_user(&upw, q)
}

/// Algorithm 1 (a)–(d): per-object key. `aes` adds the "sAlT" suffix (AESV2 crypt filter).
pub fn alg1_object_key(file_key: &[u8], num: u32, gen: u16, aes: bool) -> Vec<u8> {
    let nb = num.to_le_bytes();
    let gb = gen.to_le_bytes();
    let mut parts: Vec<&[u8]> = vec![file_key, &nb[..3], &gb[..2]];
    if aes {
        parts.push(b"sAlT");
    }
    let h = md5(&parts);
    h[..(file_key.len() + 5).min(16)].to_vec()
}

// ====================================================================== ISO 32000-2 Algorithms 2.A, 2.B, 8–13

/// passwords of revisions 5/6 are limited to 127 bytes of UTF-8 (Algorithm 2.A (a))
pub fn truncate_127(pw: &[u8]) -> &[u8] {
    &pw[..pw.len().min(127)]
}

/// Algorithm 2.B: the revision 6 hash. `udata` is empty for user hashes, the 48-byte /U for owner hashes.
/// Round counting follows the reading shared by Adobe-interoperable producers (qpdf, pypdf,
/// MuPDF): the test "last byte of E ≤ rounds − 32" uses the number of rounds completed.
pub fn alg2b_hash(pw: &[u8], salt: &[u8], udata: &[u8]) -> [u8; 32] {
    let mut k: Vec<u8> = sha256(&[pw, salt, udata]).to_vec();
    let mut rounds: u32 = 0;
    loop {
        // (a)
        let mut k1 = Vec::with_capacity((pw.len() + k.len() + udata.len()) * 64);
        for _ in 0..64 {
            k1.extend_from_slice(pw);
            k1.extend_from_slice(&k);
            k1.extend_from_slice(udata);
        }
        // (b)
        let mut iv = [0u8; 16];
        iv.copy_from_slice(&k[16..32]);
        let e = aes_cbc_encrypt_nopad(&k[..16], &iv, &k1);
        // (c) first 16 bytes as a big-endian number modulo 3; 256 ≡ 1 (mod 3) so the byte sum decides
        let m = e[..16].iter().map(|&b| b as u32).sum::<u32>() % 3;
        // (d)
        k = match m {
            0 => Sha256::digest(&e).to_vec(),
            1 => Sha384::digest(&e).to_vec(),
            _ => Sha512::digest(&e).to_vec(),
        };
        rounds += 1;
        // (e),(f)
        let last = *e.last().unwrap() as u32;
        if rounds >= 64 && last + 32 <= rounds {
            break;
        }
    }
    k[..32].try_into().unwrap()
}

/// the hash of revision `r` (5: SHA-256, 6: Algorithm 2.B)
pub fn hash_r56(r: u8, pw: &[u8], salt: &[u8], udata: &[u8]) -> [u8; 32] {
    if r == 5 {
        sha256(&[pw, salt, udata])
    } else {
        alg2b_hash(pw, salt, udata)
    }
}

const ZERO_IV: [u8; 16] = [0; 16];

/// Algorithm 8: /U (48 bytes) and /UE (32 bytes)
pub fn alg8_u_ue(r: u8, user_pw: &[u8], file_key: &[u8; 32], vsalt: &[u8; 8], ksalt: &[u8; 8]) -> ([u8; 48], [u8; 32]) {
    let pw = truncate_127(user_pw);
    let mut u = [0u8; 48];
    u[..32].copy_from_slice(&hash_r56(r, pw, vsalt, &[]));
    u[32..40].copy_from_slice(vsalt);
    u[40..48].copy_from_slice(ksalt);
    let ik = hash_r56(r, pw, ksalt, &[]);
    let ue = aes_cbc_encrypt_nopad(&ik, &ZERO_IV, file_key);
    (u, ue.try_into().unwrap())
}

/// Algorithm 9: /O (48 bytes) and /OE (32 bytes)
pub fn alg9_o_oe(r: u8, owner_pw: &[u8], file_key: &[u8; 32], vsalt: &[u8; 8], ksalt: &[u8; 8], u: &[u8; 48]) -> ([u8; 48], [u8; 32]) {
    let pw = truncate_127(owner_pw);
    let mut o = [0u8; 48];
    o[..32].copy_from_slice(&hash_r56(r, pw, vsalt, u));
    o[32..40].copy_from_slice(vsalt);
    o[40..48].copy_from_slice(ksalt);
    let ik = hash_r56(r, pw, ksalt, u);
    let oe = aes_cbc_encrypt_nopad(&ik, &ZERO_IV, file_key);
    (o, oe.try_into().unwrap())
}

/// Algorithm 10 (a)–(e): the 16 plaintext bytes of /Perms
pub fn alg10_perms_plain(p: i32, encrypt_metadata: bool, tail: [u8; 4]) -> [u8; 16] {
    let mut b = [0u8; 16];
    b[..4].copy_from_slice(&(p as u32).to_le_bytes());
    b[4..8].copy_from_slice(&[0xFF; 4]);
    b[8] = if encrypt_metadata { b'T' } else { b'F' };
    b[9..12].copy_from_slice(b"adb");
    b[12..16].copy_from_slice(&tail);
    b
}

/// Algorithm 10: /Perms (AES-256, ECB, no IV)
pub fn alg10_perms(p: i32, encrypt_metadata: bool, file_key: &[u8; 32], tail: [u8; 4]) -> [u8; 16] {
    let mut b = alg10_perms_plain(p, encrypt_metadata, tail);
    Aes::new(file_key).encrypt_block(&mut b);
    b
}

/// Algorithm 11
pub fn alg11_user_ok(r: u8, pw: &[u8], u: &[u8]) -> bool {
    u.len() >= 48 && hash_r56(r, truncate_127(pw), &u[32..40], &[])[..] == u[..32]
}

/// Algorithm 12
pub fn alg12_owner_ok(r: u8, pw: &[u8], o: &[u8], u: &[u8]) -> bool {
    o.len() >= 48 && u.len() >= 48 && hash_r56(r, truncate_127(pw), &o[32..40], &u[..48])[..] == o[..32]
}

#[derive(Clone, Copy, Debug, PartialEq, Eq, Hash)]
pub enum Which {
    User,
    Owner,
}

/// Algorithm 2.A (a)–(e): file key from either password; the owner test comes first.
pub fn alg2a_file_key(r: u8, pw: &[u8], o: &[u8], u: &[u8], oe: &[u8], ue: &[u8]) -> Option<(Which, [u8; 32])> {
    let pw = truncate_127(pw);
    if oe.len() < 32 || ue.len() < 32 {
        return None;
    }
    if alg12_owner_ok(r, pw, o, u) {
        let ik = hash_r56(r, pw, &o[40..48], &u[..48]);
        let k = aes_cbc_decrypt_nopad(&ik, &ZERO_IV, &oe[..32]);
        return Some((Which::Owner, k.try_into().unwrap()));
    }
    if alg11_user_ok(r, pw, u) {
        let ik = hash_r56(r, pw, &u[40..48], &[]);
        let k = aes_cbc_decrypt_nopad(&ik, &ZERO_IV, &ue[..32]);
        return Some((Which::User, k.try_into().unwrap()));
    }
    None
}

/// Algorithm 13 / 2.A (f): decrypt /Perms and check it against /P and /EncryptMetadata
pub fn alg13_perms_check(perms: &[u8], file_key: &[u8; 32], p: i32, encrypt_metadata: bool) -> Result<(), String> {
    if perms.len() < 16 {
        return Err(format!("/Perms has {} bytes", perms.len()));
    }
    let mut b = [0u8; 16];
    b.copy_from_slice(&perms[..16]);
    Aes::new(file_key).decrypt_block(&mut b);
    if &b[9..12] != b"adb" {
        return Err("decrypted /Perms lacks 'adb' at bytes 9..11".into());
    }
    if b[..4] != (p as u32).to_le_bytes() {
        return Err(format!("decrypted /Perms permissions {:02x?} differ from /P {p}", &b[..4]));
    }
    let want = if encrypt_metadata { b'T' } else { b'F' };
    if b[8] != want {
        return Err(format!("decrypted /Perms byte 8 is {:?}, /EncryptMetadata says {:?}", b[8] as char, want as char));
    }
    Ok(())
}

pub fn alg13_perms_plain(perms: &[u8], file_key: &[u8; 32]) -> [u8; 16] {
    let mut b = [0u8; 16];
    b.copy_from_slice(&perms[..16]);
    Aes::new(file_key).decrypt_block(&mut b);
    b
}

// ====================================================================== reading encrypted files

/// crypt filter method (ISO 32000-1 Table 25, ISO 32000-2 adds AESV3)
#[derive(Clone, Copy, Debug, PartialEq, Eq, Hash)]
pub enum Cfm {
    Identity,
    Rc4,
    AesV2,
    AesV3,
}

#[derive(Clone, Debug)]
pub struct EncInfo {
    pub v: i64,
    pub r: u8,
    /// file key length in bytes
    pub key_len: usize,
    pub p: i32,
    pub o: Vec<u8>,
    pub u: Vec<u8>,
    pub oe: Vec<u8>,
    pub ue: Vec<u8>,
    pub perms: Vec<u8>,
    /// as written (default true); only effective for V >= 4
    pub encrypt_metadata: bool,
    pub stmf: Cfm,
    pub strf: Cfm,
    pub filters: BTreeMap<Vec<u8>, Cfm>,
    pub id0: Vec<u8>,
    /// object number of the encryption dictionary when it is an indirect object
    pub encrypt_obj: Option<u32>,
    /// diagnostic switch (default false): pretend that no stream names its own /Crypt filter,
    /// i.e. decrypt every stream with /StmF. Lets a check ask "would the data have been right
    /// if the /Crypt entry were not there?"
    pub ignore_stream_crypt_filters: bool,
}

impl EncInfo {
    pub fn metadata_encrypted(&self) -> bool {
        self.v < 4 || self.encrypt_metadata
    }
    pub fn rc4_params(&self) -> Rc4Params<'_> {
        Rc4Params { r: self.r, key_len: self.key_len, o: &self.o, u: &self.u, p: self.p, id0: &self.id0, encrypt_metadata: self.encrypt_metadata }
    }
}

fn str_entry(d: &Dict, k: &str) -> Vec<u8> {
    d.get(k).and_then(|o| o.as_str_bytes()).map(|s| s.to_vec()).unwrap_or_default()
}

/// Read /Encrypt and /ID of the newest trailer (ISO 32000-1 Tables 20, 21, 25).
pub fn read_enc_info(f: &PdfFile) -> Result<EncInfo, String> {
    let e = f.trailer.get("Encrypt").ok_or("trailer has no /Encrypt")?;
    let encrypt_obj = e.as_ref().map(|r| r.0);
    let ed = f.resolve(e);
    let d = ed.as_dict().ok_or("/Encrypt is not a dictionary")?.clone();
    let filter = f.resolve_opt(d.get("Filter"));
    if filter.as_name() != Some(b"Standard") {
        return Err(format!("/Encrypt /Filter is {filter:?}, only /Standard is supported"));
    }
    let v = f.resolve_opt(d.get("V")).as_int().unwrap_or(0);
    let r = f.resolve_opt(d.get("R")).as_int().ok_or("/Encrypt without /R")?;
    if !(2..=6).contains(&r) {
        return Err(format!("unsupported revision /R {r}"));
    }
    if ![1, 2, 4, 5].contains(&v) {
        return Err(format!("unsupported /V {v}"));
    }
    let p = f.resolve_opt(d.get("P")).as_int().ok_or("/Encrypt without integer /P")?;
    // /P is a 32-bit quantity; writers emit it signed or unsigned
    let p = p as u32 as i32;
    let length_bits = f.resolve_opt(d.get("Length")).as_int().unwrap_or(40);
    let key_len = match v {
        1 => 5,
        5 => 32,
        _ => {
            if length_bits % 8 != 0 || !(40..=128).contains(&length_bits) {
                return Err(format!("/Length {length_bits} is not a multiple of 8 in 40..128"));
            }
            (length_bits / 8) as usize
        }
    };
    let encrypt_metadata = match f.resolve_opt(d.get("EncryptMetadata")) {
        Obj::Bool(b) => b,
        _ => true,
    };
    let mut filters: BTreeMap<Vec<u8>, Cfm> = BTreeMap::new();
    filters.insert(b"Identity".to_vec(), Cfm::Identity);
    let (mut stmf, mut strf) = (Cfm::Rc4, Cfm::Rc4);
    if v >= 4 {
        let cf = f.resolve_opt(d.get("CF"));
        if let Some(cfd) = cf.as_dict() {
            for (name, val) in cfd.iter() {
                let fd = f.resolve(val);
                let cfm = match f.resolve_opt(fd.dict_get("CFM")).as_name() {
                    None | Some(b"None") => Cfm::Identity,
                    Some(b"V2") => Cfm::Rc4,
                    Some(b"AESV2") => Cfm::AesV2,
                    Some(b"AESV3") => Cfm::AesV3,
                    Some(other) => return Err(format!("crypt filter /CFM /{} not supported", String::from_utf8_lossy(other))),
                };
                if name.as_slice() != b"Identity" {
                    filters.insert(name.clone(), cfm);
                }
            }
        }
        let pick = |k: &str| -> Result<Cfm, String> {
            match f.resolve_opt(d.get(k)) {
                Obj::Null => Ok(Cfm::Identity),
                Obj::Name(n) => filters.get(&n).copied().ok_or_else(|| format!("/{k} names the undefined crypt filter /{}", String::from_utf8_lossy(&n))),
                other => Err(format!("/{k} is {other:?}")),
            }
        };
        stmf = pick("StmF")?;
        strf = pick("StrF")?;
    }
    let id0 = match f.trailer.get("ID").map(|i| f.resolve(i)) {
        Some(Obj::Array(a)) => a.first().map(|x| f.resolve(x)).and_then(|x| x.as_str_bytes().map(|s| s.to_vec())).unwrap_or_default(),
        _ => Vec::new(),
    };
    Ok(EncInfo {
        v,
        r: r as u8,
        key_len,
        p,
        o: str_entry(&d, "O"),
        u: str_entry(&d, "U"),
        oe: str_entry(&d, "OE"),
        ue: str_entry(&d, "UE"),
        perms: str_entry(&d, "Perms"),
        encrypt_metadata,
        stmf,
        strf,
        filters,
        id0,
        encrypt_obj,
        ignore_stream_crypt_filters: false,
    })
}

/// Result of testing one password against both roles
#[derive(Clone, Debug, Default)]
pub struct Auth {
    pub user_key: Option<Vec<u8>>,
    pub owner_key: Option<Vec<u8>>,
}
impl Auth {
    pub fn which(&self) -> Option<Which> {
        if self.owner_key.is_some() {
            Some(Which::Owner)
        } else if self.user_key.is_some() {
            Some(Which::User)
        } else {
            None
        }
    }
    pub fn key(&self) -> Option<&Vec<u8>> {
        self.owner_key.as_ref().or(self.user_key.as_ref())
    }
}

/// Algorithms 6 + 7 (R2–R4) or 11 + 12 + 2.A (R5, R6) for one password
pub fn authenticate(info: &EncInfo, pw: &[u8]) -> Auth {
    let mut a = Auth::default();
    if info.r <= 4 {
        let q = info.rc4_params();
        if info.o.len() < 32 {
            return a;
        }
        a.user_key = alg6_user(pw, &q);
        a.owner_key = alg7_owner(pw, &q);
    } else {
        if info.o.len() < 48 || info.u.len() < 48 || info.oe.len() < 32 || info.ue.len() < 32 {
            return a;
        }
        let pw = truncate_127(pw);
        if alg11_user_ok(info.r, pw, &info.u) {
            let ik = hash_r56(info.r, pw, &info.u[40..48], &[]);
            a.user_key = Some(aes_cbc_decrypt_nopad(&ik, &ZERO_IV, &info.ue[..32]));
        }
        if alg12_owner_ok(info.r, pw, &info.o, &info.u) {
            let ik = hash_r56(info.r, pw, &info.o[40..48], &info.u[..48]);
            a.owner_key = Some(aes_cbc_decrypt_nopad(&ik, &ZERO_IV, &info.oe[..32]));
        }
    }
    a
}

fn cipher_apply(cfm: Cfm, file_key: &[u8], num: u32, gen: u16, data: &[u8], what: &str, problems: &mut Vec<String>) -> Vec<u8> {
    match cfm {
        Cfm::Identity => data.to_vec(),
        Cfm::Rc4 => rc4(&alg1_object_key(file_key, num, gen, false), data),
        Cfm::AesV2 | Cfm::AesV3 => {
            if data.is_empty() {
                return Vec::new();
            }
            let key = if cfm == Cfm::AesV2 { alg1_object_key(file_key, num, gen, true) } else { file_key.to_vec() };
            match pdf_aes_decrypt(&key, data) {
                Ok(v) => v,
                Err(e) => {
                    problems.push(format!("object {num} {gen}: {what}: {e}"));
                    data.to_vec()
                }
            }
        }
    }
}

fn decrypt_strings(o: &Obj, cfm: Cfm, key: &[u8], num: u32, gen: u16, problems: &mut Vec<String>) -> Obj {
    match o {
        Obj::Str(s) => Obj::Str(cipher_apply(cfm, key, num, gen, s, "string", problems)),
        Obj::Array(a) => Obj::Array(a.iter().map(|x| decrypt_strings(x, cfm, key, num, gen, problems)).collect()),
        Obj::Dict(d) => Obj::Dict(Dict(d.0.iter().map(|(k, v)| (k.clone(), decrypt_strings(v, cfm, key, num, gen, problems))).collect())),
        other => other.clone(),
    }
}

/// The crypt filter a stream names itself through a /Crypt entry of its /Filter (ISO 32000-1
/// §7.4.10, §7.6.5): returns (position in the filter chain, crypt filter name — /Identity
/// when no /Name is given —, dictionary with the /Crypt entry removed).
fn explicit_crypt_filter(d: &Dict) -> Option<(usize, Vec<u8>, Dict)> {
    let filt = d.get("Filter")?;
    let parms = d.get("DecodeParms").or_else(|| d.get("DP"));
    let filters: Vec<Obj> = match filt {
        Obj::Name(_) => vec![filt.clone()],
        Obj::Array(a) => a.clone(),
        _ => return None,
    };
    let pos = filters.iter().position(|f| f.as_name() == Some(b"Crypt"))?;
    let plist: Vec<Obj> = match parms {
        Some(Obj::Array(a)) => a.clone(),
        Some(other) => vec![other.clone()],
        None => vec![],
    };
    let name = plist.get(pos).and_then(|p| p.dict_get("Name")).and_then(|n| n.as_name()).unwrap_or(b"Identity").to_vec();
    let mut nd = d.clone();
    nd.remove("DP");
    let rest_f: Vec<Obj> = filters.iter().enumerate().filter(|(i, _)| *i != pos).map(|(_, f)| f.clone()).collect();
    if rest_f.is_empty() {
        nd.remove("Filter");
        nd.remove("DecodeParms");
    } else {
        let n = filters.len();
        nd.set("Filter", Obj::Array(rest_f));
        if parms.is_some() {
            let rest_p: Vec<Obj> = (0..n).filter(|i| *i != pos).map(|i| plist.get(i).cloned().unwrap_or(Obj::Null)).collect();
            nd.set("DecodeParms", Obj::Array(rest_p));
        }
    }
    Some((pos, name, nd))
}

/// Decrypt one indirect object that is stored outside object streams (§7.6.2).
/// Strings use /StrF, stream data /StmF or the stream's own /Crypt filter; cross-reference
/// streams and (with /EncryptMetadata false) metadata streams are left alone.
pub fn decrypt_object(info: &EncInfo, file_key: &[u8], num: u32, gen: u16, o: &Obj, problems: &mut Vec<String>) -> Obj {
    match o {
        Obj::Stream(s) => {
            let ty = s.dict.get("Type").and_then(|t| t.as_name());
            if ty == Some(b"XRef") {
                return o.clone();
            }
            let (method, dict) = match explicit_crypt_filter(&s.dict) {
                // Crypt filters exist from V 4 on (ISO 32000-1 7.6.5); what a /Crypt entry means in
                // a V 1/2 document is not defined, so it is dropped and the document cipher applies
                Some((_, _, nd)) if info.v < 4 || info.ignore_stream_crypt_filters => (if ty == Some(b"Metadata") && !info.metadata_encrypted() { Cfm::Identity } else { info.stmf }, nd),
                Some((pos, name, nd)) => match info.filters.get(&name) {
                    Some(m) if pos == 0 || *m == Cfm::Identity => (*m, nd),
                    Some(_) => {
                        problems.push(format!("object {num} {gen}: a decrypting /Crypt filter that is not the first filter is not supported by the reference"));
                        (Cfm::Identity, nd)
                    }
                    _ => {
                        problems.push(format!("object {num} {gen}: /Crypt filter /{} is not defined", String::from_utf8_lossy(&name)));
                        (Cfm::Identity, nd)
                    }
                },
                None => {
                    if ty == Some(b"Metadata") && !info.metadata_encrypted() {
                        (Cfm::Identity, s.dict.clone())
                    } else {
                        (info.stmf, s.dict.clone())
                    }
                }
            };
            let Obj::Dict(dict) = decrypt_strings(&Obj::Dict(dict), info.strf, file_key, num, gen, problems) else { unreachable!() };
            let data = cipher_apply(method, file_key, num, gen, &s.data, "stream data", problems);
            Obj::Stream(Box::new(StreamObj { dict, data }))
        }
        other => decrypt_strings(other, info.strf, file_key, num, gen, problems),
    }
}

pub struct Unlocked {
    pub which: Which,
    pub auth: Auth,
    pub info: EncInfo,
    pub file_key: Vec<u8>,
    /// undecryptable strings/streams met while objects were loaded (filled lazily)
    pub problems: Arc<Mutex<Vec<String>>>,
}

/// Authenticate `password` and install per-object decryption on the file. Call right after
/// `PdfFile::parse` (objects already loaded stay as they were). Objects inside object
/// streams are not passed through the decryptor by `PdfFile`, so they are decrypted exactly
/// once (as part of their containing stream); the encryption dictionary itself and
/// cross-reference streams are never decrypted.
pub fn unlock_ex(f: &mut PdfFile, password: &[u8]) -> Result<Unlocked, String> {
    unlock_with(f, password, |_| {})
}

/// `unlock_ex` with a hook that may adjust the parsed encryption parameters first.
pub fn unlock_with(f: &mut PdfFile, password: &[u8], tweak: impl FnOnce(&mut EncInfo)) -> Result<Unlocked, String> {
    let mut info = read_enc_info(f)?;
    tweak(&mut info);
    let auth = authenticate(&info, password);
    let which = auth.which().ok_or("password is neither the user nor the owner password")?;
    let file_key = auth.key().unwrap().clone();
    if info.r >= 5 {
        let fk: [u8; 32] = file_key.clone().try_into().map_err(|_| "file key is not 32 bytes")?;
        alg13_perms_check(&info.perms, &fk, info.p, info.encrypt_metadata)?;
    }
    let problems = Arc::new(Mutex::new(Vec::new()));
    let (i2, k2, p2) = (info.clone(), file_key.clone(), problems.clone());
    f.decryptor = Some(Box::new(move |num, gen, o| {
        if Some(num) == i2.encrypt_obj {
            return o;
        }
        let mut pr = Vec::new();
        let out = decrypt_object(&i2, &k2, num, gen, &o, &mut pr);
        if !pr.is_empty() {
            p2.lock().unwrap().extend(pr);
        }
        out
    }));
    Ok(Unlocked { which, auth, info, file_key, problems })
}

/// `Owner` when the password authenticates as the owner password (also when it is both), else `User`.
pub fn unlock(f: &mut PdfFile, password: &[u8]) -> Result<Which, String> {
    unlock_ex(f, password).map(|u| u.which)
}

// ====================================================================== writing encrypted files

/// Deterministic byte stream for IVs, salts and file keys of the reference writer
/// (splitmix64; reproducibility matters here, unpredictability does not).
pub struct Det(pub u64);
impl Det {
    pub fn byte(&mut self) -> u8 {
        self.0 = self.0.wrapping_add(0x9E37_79B9_7F4A_7C15);
        let mut z = self.0;
        z = (z ^ (z >> 30)).wrapping_mul(0xBF58_476D_1CE4_E5B9);
        z = (z ^ (z >> 27)).wrapping_mul(0x94D0_49BB_1331_11EB);
        ((z ^ (z >> 31)) >> 24) as u8
    }
    pub fn bytes<const N: usize>(&mut self) -> [u8; N] {
        let mut b = [0u8; N];
        for x in b.iter_mut() {
            *x = self.byte();
        }
        b
    }
}

#[derive(Clone, Copy, Debug, PartialEq, Eq, Hash)]
pub enum Scheme {
    /// V1 R2, RC4 40 bit
    R2,
    /// V2 R3, RC4 with `key_bits` (40..128)
    R3,
    /// V4 R4, crypt filter /V2 (RC4 128)
    R4Rc4,
    /// V4 R4, crypt filter /AESV2 (AES-128)
    R4Aes,
    /// V5 R5 (Adobe Supplement), AESV3
    R5,
    /// V5 R6 (ISO 32000-2), AESV3
    R6,
}
impl Scheme {
    pub const ALL: [Scheme; 6] = [Scheme::R2, Scheme::R3, Scheme::R4Rc4, Scheme::R4Aes, Scheme::R5, Scheme::R6];
    pub fn revision(self) -> u8 {
        match self {
            Scheme::R2 => 2,
            Scheme::R3 => 3,
            Scheme::R4Rc4 | Scheme::R4Aes => 4,
            Scheme::R5 => 5,
            Scheme::R6 => 6,
        }
    }
    pub fn name(self) -> &'static str {
        match self {
            Scheme::R2 => "R2-RC4-40",
            Scheme::R3 => "R3-RC4",
            Scheme::R4Rc4 => "R4-RC4-128",
            Scheme::R4Aes => "R4-AESV2",
            Scheme::R5 => "R5-AESV3",
            Scheme::R6 => "R6-AESV3",
        }
    }
}

#[derive(Clone, Debug)]
pub struct EncSettings {
    pub scheme: Scheme,
    /// only used by `Scheme::R3` (multiple of 8 in 40..=128)
    pub key_bits: u32,
    pub user_pw: Vec<u8>,
    pub owner_pw: Vec<u8>,
    pub p: i32,
    /// honoured for R4 and later (ignored, i.e. metadata encrypted, before)
    pub encrypt_metadata: bool,
    pub id0: Vec<u8>,
    pub seed: u64,
    pub xref_stream: bool,
    /// pack all non-stream objects into one object stream (forces an xref stream)
    pub objstm: bool,
    /// /Encrypt as an indirect object (as qpdf writes it) instead of a direct trailer entry
    pub encrypt_dict_indirect: bool,
    /// give a cleartext metadata stream an explicit /Filter [/Crypt] with /Name /Identity
    pub metadata_identity_filter: bool,
    pub root: u32,
    pub info: Option<u32>,
}

impl EncSettings {
    pub fn new(scheme: Scheme, user_pw: &[u8], owner_pw: &[u8]) -> Self {
        EncSettings {
            scheme,
            key_bits: 128,
            user_pw: user_pw.to_vec(),
            owner_pw: owner_pw.to_vec(),
            p: -4,
            encrypt_metadata: true,
            id0: b"0123456789abcdef".to_vec(),
            seed: 1,
            xref_stream: false,
            objstm: false,
            encrypt_dict_indirect: true,
            metadata_identity_filter: false,
            root: 1,
            info: None,
        }
    }
}

pub struct Encrypted {
    pub bytes: Vec<u8>,
    pub file_key: Vec<u8>,
    pub encrypt_dict: Dict,
}

struct EncCtx {
    strf: Cfm,
    stmf: Cfm,
    file_key: Vec<u8>,
    det: Det,
    metadata_encrypted: bool,
    metadata_identity_filter: bool,
}

impl EncCtx {
    fn apply(&mut self, cfm: Cfm, num: u32, gen: u16, data: &[u8]) -> Vec<u8> {
        match cfm {
            Cfm::Identity => data.to_vec(),
            Cfm::Rc4 => rc4(&alg1_object_key(&self.file_key, num, gen, false), data),
            Cfm::AesV2 => {
                let iv = self.det.bytes::<16>();
                pdf_aes_encrypt(&alg1_object_key(&self.file_key, num, gen, true), &iv, data)
            }
            Cfm::AesV3 => {
                let iv = self.det.bytes::<16>();
                pdf_aes_encrypt(&self.file_key, &iv, data)
            }
        }
    }
    fn strings(&mut self, o: &Obj, num: u32, gen: u16) -> Obj {
        match o {
            Obj::Str(s) => Obj::Str(self.apply(self.strf, num, gen, s)),
            Obj::Array(a) => Obj::Array(a.iter().map(|x| self.strings(x, num, gen)).collect()),
            Obj::Dict(d) => Obj::Dict(Dict(d.0.iter().map(|(k, v)| (k.clone(), self.strings(v, num, gen))).collect())),
            other => other.clone(),
        }
    }
    fn object(&mut self, o: &Obj, num: u32, gen: u16) -> Obj {
        match o {
            Obj::Stream(s) => {
                let is_meta = s.dict.get("Type").and_then(|t| t.as_name()) == Some(b"Metadata");
                let Obj::Dict(mut dict) = self.strings(&Obj::Dict(s.dict.clone()), num, gen) else { unreachable!() };
                let data = if is_meta && !self.metadata_encrypted {
                    if self.metadata_identity_filter {
                        let ident = Obj::dict(vec![("Type", Obj::name("CryptFilterDecodeParms")), ("Name", Obj::name("Identity"))]);
                        let (mut fl, mut pl) = (vec![Obj::name("Crypt")], vec![ident]);
                        match dict.get("Filter").cloned() {
                            Some(Obj::Array(a)) => {
                                let n = a.len();
                                fl.extend(a);
                                match dict.get("DecodeParms").cloned() {
                                    Some(Obj::Array(p)) => pl.extend(p),
                                    _ => pl.extend(std::iter::repeat(Obj::Null).take(n)),
                                }
                            }
                            Some(one) => {
                                fl.push(one);
                                pl.push(dict.get("DecodeParms").cloned().unwrap_or(Obj::Null));
                            }
                            None => {}
                        }
                        dict.set("Filter", Obj::Array(fl));
                        dict.set("DecodeParms", Obj::Array(pl));
                    }
                    s.data.clone()
                } else {
                    self.apply(self.stmf, num, gen, &s.data)
                };
                dict.remove("Length");
                Obj::Stream(Box::new(StreamObj { dict, data }))
            }
            other => self.strings(other, num, gen),
        }
    }
}

/// Encrypt a document given as plaintext indirect objects (generation 0) and write it as a
/// complete PDF file. The layout (header, body, classic table or xref stream, one optional
/// object stream) follows the same rules as `builder::FileBuilder`; the builder itself cannot
/// be used because an object stream has to be encrypted *after* it is assembled.
pub fn encrypt_file(objects: &[(u32, Obj)], s: &EncSettings) -> Vec<u8> {
    encrypt_file_ex(objects, s).bytes
}

pub fn encrypt_file_ex(objects: &[(u32, Obj)], s: &EncSettings) -> Encrypted {
    let mut det = Det(s.seed);
    let r = s.scheme.revision();
    let honour_em = r >= 4;
    let em = if honour_em { s.encrypt_metadata } else { true };
    // ---- encryption dictionary
    let mut ed = Dict::new();
    ed.set("Filter", Obj::name("Standard"));
    let file_key: Vec<u8>;
    let (strf, stmf);
    match s.scheme {
        Scheme::R2 | Scheme::R3 | Scheme::R4Rc4 | Scheme::R4Aes => {
            let key_len = match s.scheme {
                Scheme::R2 => 5,
                Scheme::R3 => (s.key_bits / 8) as usize,
                _ => 16,
            };
            let o = alg3_o(&s.owner_pw, &s.user_pw, r, key_len);
            file_key = alg2_file_key(&s.user_pw, &o, s.p, &s.id0, r, key_len, em);
            let u: Vec<u8> = if r == 2 {
                alg4_u(&file_key).to_vec()
            } else {
                let mut u = alg5_u16(&file_key, &s.id0).to_vec();
                u.extend(det.bytes::<16>());
                u
            };
            match s.scheme {
                Scheme::R2 => {
                    ed.set("V", Obj::Int(1));
                    ed.set("R", Obj::Int(2));
                    (strf, stmf) = (Cfm::Rc4, Cfm::Rc4);
                }
                Scheme::R3 => {
                    ed.set("V", Obj::Int(2));
                    ed.set("R", Obj::Int(3));
                    ed.set("Length", Obj::Int(s.key_bits as i64));
                    (strf, stmf) = (Cfm::Rc4, Cfm::Rc4);
                }
                _ => {
                    let aes = s.scheme == Scheme::R4Aes;
                    ed.set("V", Obj::Int(4));
                    ed.set("R", Obj::Int(4));
                    ed.set("Length", Obj::Int(128));
                    let cf = Obj::dict(vec![("Type", Obj::name("CryptFilter")), ("CFM", Obj::name(if aes { "AESV2" } else { "V2" })), ("AuthEvent", Obj::name("DocOpen")), ("Length", Obj::Int(16))]);
                    ed.set("CF", Obj::dict(vec![("StdCF", cf)]));
                    ed.set("StmF", Obj::name("StdCF"));
                    ed.set("StrF", Obj::name("StdCF"));
                    ed.set("EncryptMetadata", Obj::Bool(em));
                    let m = if aes { Cfm::AesV2 } else { Cfm::Rc4 };
                    (strf, stmf) = (m, m);
                }
            }
            ed.set("O", Obj::Str(o.to_vec()));
            ed.set("U", Obj::Str(u));
            ed.set("P", Obj::Int(s.p as i64));
        }
        Scheme::R5 | Scheme::R6 => {
            let fk: [u8; 32] = det.bytes::<32>();
            let (uv, uk, ov, ok) = (det.bytes::<8>(), det.bytes::<8>(), det.bytes::<8>(), det.bytes::<8>());
            let (u, ue) = alg8_u_ue(r, &s.user_pw, &fk, &uv, &uk);
            let (o, oe) = alg9_o_oe(r, &s.owner_pw, &fk, &ov, &ok, &u);
            let perms = alg10_perms(s.p, em, &fk, det.bytes::<4>());
            ed.set("V", Obj::Int(5));
            ed.set("R", Obj::Int(r as i64));
            ed.set("Length", Obj::Int(256));
            let cf = Obj::dict(vec![("Type", Obj::name("CryptFilter")), ("CFM", Obj::name("AESV3")), ("AuthEvent", Obj::name("DocOpen")), ("Length", Obj::Int(32))]);
            ed.set("CF", Obj::dict(vec![("StdCF", cf)]));
            ed.set("StmF", Obj::name("StdCF"));
            ed.set("StrF", Obj::name("StdCF"));
            ed.set("EncryptMetadata", Obj::Bool(em));
            ed.set("O", Obj::Str(o.to_vec()));
            ed.set("U", Obj::Str(u.to_vec()));
            ed.set("OE", Obj::Str(oe.to_vec()));
            ed.set("UE", Obj::Str(ue.to_vec()));
            ed.set("Perms", Obj::Str(perms.to_vec()));
            ed.set("P", Obj::Int(s.p as i64));
            file_key = fk.to_vec();
            (strf, stmf) = (Cfm::AesV3, Cfm::AesV3);
        }
    }
    let mut cx = EncCtx { strf, stmf, file_key: file_key.clone(), det, metadata_encrypted: em, metadata_identity_filter: s.metadata_identity_filter };

    // ---- body
    #[derive(Clone, Copy)]
    enum E {
        Free,
        InUse(usize),
        Comp(u32, u32),
    }
    let use_xref_stream = s.xref_stream || s.objstm;
    let mut out: Vec<u8> = Vec::new();
    out.extend_from_slice(if r == 6 { b"%PDF-2.0\n" } else { b"%PDF-1.7\n" });
    out.extend_from_slice(b"%\xE2\xE3\xCF\xD3\n");
    let mut entries: BTreeMap<u32, E> = BTreeMap::new();
    entries.insert(0, E::Free);
    let mut next = objects.iter().map(|(n, _)| *n).max().unwrap_or(0) + 1;
    let mut packed: Vec<(u32, &Obj)> = Vec::new();
    let emit = |out: &mut Vec<u8>, entries: &mut BTreeMap<u32, E>, num: u32, o: &Obj| {
        entries.insert(num, E::InUse(out.len()));
        out.extend_from_slice(format!("{num} 0 obj\n").as_bytes());
        write_obj(o, out);
        out.extend_from_slice(b"\nendobj\n");
    };
    for (num, o) in objects {
        if s.objstm && !matches!(o, Obj::Stream(_)) {
            packed.push((*num, o));
            continue;
        }
        let eo = cx.object(o, *num, 0);
        emit(&mut out, &mut entries, *num, &eo);
    }
    let encrypt_ref = if s.encrypt_dict_indirect {
        let n = next;
        next += 1;
        emit(&mut out, &mut entries, n, &Obj::Dict(ed.clone()));
        Some(n)
    } else {
        None
    };
    if !packed.is_empty() {
        let sn = next;
        next += 1;
        let (mut head, mut body) = (Vec::new(), Vec::new());
        for (i, (n, o)) in packed.iter().enumerate() {
            head.extend_from_slice(format!("{} {} ", n, body.len()).as_bytes());
            write_obj(o, &mut body); // strings inside an object stream are not encrypted individually (§7.5.7)
            body.push(b'\n');
            entries.insert(*n, E::Comp(sn, i as u32));
        }
        let first = head.len();
        head.extend_from_slice(&body);
        let so = Obj::stream(vec![("Type", Obj::name("ObjStm")), ("N", Obj::Int(packed.len() as i64)), ("First", Obj::Int(first as i64)), ("Filter", Obj::name("FlateDecode"))], crate::filters::flate_encode(&head));
        let eo = cx.object(&so, sn, 0);
        emit(&mut out, &mut entries, sn, &eo);
    }
    // ---- cross-reference section and trailer
    let mut tr = Dict::new();
    tr.set("Root", Obj::Ref(s.root, 0));
    if let Some(i) = s.info {
        tr.set("Info", Obj::Ref(i, 0));
    }
    tr.set("Encrypt", match encrypt_ref {
        Some(n) => Obj::Ref(n, 0),
        None => Obj::Dict(ed.clone()),
    });
    tr.set("ID", Obj::Array(vec![Obj::Str(s.id0.clone()), Obj::Str(s.id0.clone())]));
    let xoff = out.len();
    if use_xref_stream {
        let xn = next;
        entries.insert(xn, E::InUse(xoff));
        let size = *entries.keys().next_back().unwrap() + 1;
        let mut data = Vec::new();
        for k in 0..size {
            let (t, a, b): (u8, u32, u16) = match entries.get(&k) {
                None => (0, 0, 0),
                Some(E::Free) => (0, 0, 65535),
                Some(E::InUse(o)) => (1, *o as u32, 0),
                Some(E::Comp(sn, i)) => (2, *sn, *i as u16),
            };
            data.push(t);
            data.extend_from_slice(&a.to_be_bytes());
            data.extend_from_slice(&b.to_be_bytes());
        }
        let mut d = Dict::new();
        d.set("Type", Obj::name("XRef"));
        d.set("Size", Obj::Int(size as i64));
        d.set("W", Obj::Array(vec![Obj::Int(1), Obj::Int(4), Obj::Int(2)]));
        for (k, v) in tr.iter() {
            d.0.push((k.clone(), v.clone()));
        }
        out.extend_from_slice(format!("{xn} 0 obj\n").as_bytes());
        write_obj(&Obj::Stream(Box::new(StreamObj { dict: d, data })), &mut out);
        out.extend_from_slice(b"\nendobj\n");
    } else {
        let size = *entries.keys().next_back().unwrap() + 1;
        out.extend_from_slice(format!("xref\n0 {size}\n").as_bytes());
        for k in 0..size {
            match entries.get(&k) {
                Some(E::InUse(o)) => out.extend_from_slice(format!("{o:010} 00000 n \n").as_bytes()),
                Some(E::Free) => out.extend_from_slice(b"0000000000 65535 f \n"),
                // a gap in the numbering: a free entry outside the linked list
                _ => out.extend_from_slice(b"0000000000 00001 f \n"),
            }
        }
        let mut d = Dict::new();
        d.set("Size", Obj::Int(size as i64));
        for (k, v) in tr.iter() {
            d.0.push((k.clone(), v.clone()));
        }
        out.extend_from_slice(b"trailer\n");
        write_obj(&Obj::Dict(d), &mut out);
        out.push(b'\n');
    }
    out.extend_from_slice(format!("startxref\n{xoff}\n%%EOF\n").as_bytes());
    Encrypted { bytes: out, file_key, encrypt_dict: ed }
}

/// The same objects written without encryption, same layout options (the plaintext original
/// of `encrypt_file`).
pub fn plain_file(objects: &[(u32, Obj)], root: u32, info: Option<u32>, xref_stream: bool, objstm: bool) -> Vec<u8> {
    use crate::builder::{FileBuilder, Revision, XrefForm};
    let mut r = Revision::new(if xref_stream || objstm { XrefForm::Stream } else { XrefForm::Table });
    for (n, o) in objects {
        if objstm && !matches!(o, Obj::Stream(_)) {
            r.in_objstm.insert(*n);
        }
        r.add(*n, o.clone());
    }
    let mut fb = FileBuilder::new(root);
    fb.info = info.map(|i| (i, 0));
    fb.revisions.push(r);
    fb.build().bytes
}

// ====================================================================== validation

#[cfg(test)]
mod tests {
    use super::*;

    fn hx(s: &str) -> Vec<u8> {
        let s: Vec<u8> = s.bytes().filter(|c| !c.is_ascii_whitespace()).collect();
        s.chunks(2).map(|p| u8::from_str_radix(std::str::from_utf8(p).unwrap(), 16).unwrap()).collect()
    }
    fn blk(s: &str) -> [u8; 16] {
        hx(s).try_into().unwrap()
    }

    #[test]
    fn fips197_sbox_and_key_expansion() {
        let t = tables();
        // Figure 7
        assert_eq!(t.sbox[0x00], 0x63);
        assert_eq!(t.sbox[0x53], 0xed);
        assert_eq!(t.sbox[0xff], 0x16);
        assert_eq!(t.inv[0x63], 0x00);
        // Appendix A.1: last round key words w40..w43
        let a = Aes::new(&hx("2b7e151628aed2a6abf7158809cf4f3c"));
        assert_eq!(a.round_keys()[10].to_vec(), hx("d014f9a8c9ee2589e13f0cc8b6630ca6"));
        // Appendix A.2: w48..w51
        let a = Aes::new(&hx("8e73b0f7da0e6452c810f32b809079e562f8ead2522c6b7b"));
        assert_eq!(a.round_keys()[12].to_vec(), hx("e98ba06f448c773c8ecc720401002202"));
        // Appendix A.3: w56..w59
        let a = Aes::new(&hx("603deb1015ca71be2b73aef0857d77811f352c073b6108d72d9810a30914dff4"));
        assert_eq!(a.round_keys()[14].to_vec(), hx("fe4890d1e6188d0b046df344706c631e"));
    }

    #[test]
    fn fips197_cipher_examples() {
        // Appendix B
        let a = Aes::new(&hx("2b7e151628aed2a6abf7158809cf4f3c"));
        let mut b = blk("3243f6a8885a308d313198a2e0370734");
        a.encrypt_block(&mut b);
        assert_eq!(b, blk("3925841d02dc09fbdc118597196a0b32"));
        a.decrypt_block(&mut b);
        assert_eq!(b, blk("3243f6a8885a308d313198a2e0370734"));
        // Appendix C.1, C.2, C.3
        let pt = "00112233445566778899aabbccddeeff";
        for (key, ct) in [
            ("000102030405060708090a0b0c0d0e0f", "69c4e0d86a7b0430d8cdb78070b4c55a"),
            ("000102030405060708090a0b0c0d0e0f1011121314151617", "dda97ca4864cdfe06eaf70a0ec0d7191"),
            ("000102030405060708090a0b0c0d0e0f101112131415161718191a1b1c1d1e1f", "8ea2b7ca516745bfeafc49904b496089"),
        ] {
            let a = Aes::new(&hx(key));
            let mut b = blk(pt);
            a.encrypt_block(&mut b);
            assert_eq!(b, blk(ct), "key {key}");
            a.decrypt_block(&mut b);
            assert_eq!(b, blk(pt), "key {key}");
        }
    }

    #[test]
    fn sp800_38a_cbc() {
        let pt = hx("6bc1bee22e409f96e93d7e117393172a ae2d8a571e03ac9c9eb76fac45af8e51 30c81c46a35ce411e5fbc1191a0a52ef f69f2445df4f9b17ad2b417be66c3710");
        let iv = blk("000102030405060708090a0b0c0d0e0f");
        // F.2.1 / F.2.2
        let k = hx("2b7e151628aed2a6abf7158809cf4f3c");
        let ct = hx("7649abac8119b246cee98e9b12e9197d 5086cb9b507219ee95db113a917678b2 73bed6b8e3c1743b7116e69e22229516 3ff1caa1681fac09120eca307586e1a7");
        assert_eq!(aes_cbc_encrypt_nopad(&k, &iv, &pt), ct);
        assert_eq!(aes_cbc_decrypt_nopad(&k, &iv, &ct), pt);
        // F.2.5 / F.2.6
        let k = hx("603deb1015ca71be2b73aef0857d77811f352c073b6108d72d9810a30914dff4");
        let ct = hx("f58c4c04d6e5f1ba779eabfb5f7bfbd6 9cfc4e967edb808d679f777bc6702c7d 39f23369a9d9bacfa530e26304231461 b2eb05e2c39be9fcda6c19078c6a9d1b");
        assert_eq!(aes_cbc_encrypt_nopad(&k, &iv, &pt), ct);
        assert_eq!(aes_cbc_decrypt_nopad(&k, &iv, &ct), pt);
    }

    #[test]
    fn pkcs7() {
        assert_eq!(pkcs7_pad(b""), vec![16u8; 16]);
        assert_eq!(pkcs7_pad(&[1u8; 15]).last(), Some(&1));
        assert_eq!(pkcs7_pad(&[1u8; 16]).len(), 32);
        for n in 0..70 {
            let d: Vec<u8> = (0..n as u8).collect();
            assert_eq!(pkcs7_unpad(&pkcs7_pad(&d)).unwrap(), d);
            for key in [vec![7u8; 16], vec![9u8; 32]] {
                let iv = [3u8; 16];
                let ct = aes_cbc_pkcs7_encrypt(&key, &iv, &d);
                assert_eq!(ct.len(), (n / 16 + 1) * 16);
                assert_eq!(aes_cbc_pkcs7_decrypt(&key, &iv, &ct).unwrap(), d);
            }
        }
        assert!(pkcs7_unpad(&[0u8; 16]).is_err());
        assert!(pkcs7_unpad(&[17u8; 16]).is_err());
        let mut bad = vec![2u8; 16];
        bad[14] = 3;
        assert!(pkcs7_unpad(&bad).is_err());
    }

    #[test]
    fn rfc6229_rc4() {
        let ks = |key: &[u8], n: usize| rc4(key, &vec![0u8; n]);
        // 40-bit key 0x0102030405
        let s = ks(&hx("0102030405"), 272);
        assert_eq!(s[0..16].to_vec(), hx("b2396305f03dc027ccc3524a0a1118a8"));
        assert_eq!(s[16..32].to_vec(), hx("6982944f18fc82d589c403a47a0d0919"));
        assert_eq!(s[240..256].to_vec(), hx("28cb1132c96ce286421dcaadb8b69eae"));
        assert_eq!(s[256..272].to_vec(), hx("1cfcf62b03eddb641d77dfcf7f8d8c93"));
        // 128-bit key 0x0102…10
        let s = ks(&hx("0102030405060708090a0b0c0d0e0f10"), 32);
        assert_eq!(s[0..16].to_vec(), hx("9ac7cc9a609d1ef7b2932899cde41b97"));
        assert_eq!(s[16..32].to_vec(), hx("5248c4959014126a6e8a84f11d1a9e1c"));
        // 256-bit key 0x0102…20
        let s = ks(&hx("0102030405060708090a0b0c0d0e0f101112131415161718191a1b1c1d1e1f20"), 32);
        assert_eq!(s[0..16].to_vec(), hx("eaa6bd25880bf93d3f5d1e4ca2611d91"));
        assert_eq!(s[16..32].to_vec(), hx("cfa45c9f7e714b54bdfa80027cb14380"));
        // 40-bit key 0x833222772a
        let s = ks(&hx("833222772a"), 16);
        assert_eq!(s, hx("80ad97bdc973df8a2e879e92a497efda"));
        // the classic published triples
        assert_eq!(rc4(b"Key", b"Plaintext"), hx("BBF316E8D940AF0AD3"));
        assert_eq!(rc4(b"Wiki", b"pedia"), hx("1021BF0420"));
        assert_eq!(rc4(b"Secret", b"Attack at dawn"), hx("45A01F645FC35B383552544B9BF5"));
    }

    #[test]
    fn padding_and_object_key() {
        assert_eq!(pad_password(b""), PAD);
        let p = pad_password(b"abc");
        assert_eq!(&p[..3], b"abc");
        assert_eq!(&p[3..], &PAD[..29]);
        let long = [b'x'; 40];
        assert_eq!(pad_password(&long), [b'x'; 32]);
        assert_eq!(alg1_object_key(&[0u8; 5], 1, 0, false).len(), 10);
        assert_eq!(alg1_object_key(&[0u8; 16], 1, 0, true).len(), 16);
        assert_eq!(alg1_object_key(&[1, 2, 3, 4, 5], 0x010203, 0x0405, false), md5(&[&[1, 2, 3, 4, 5, 3, 2, 1, 5, 4]])[..10].to_vec());
    }

    // ------------------------------------------------------------ fixtures (qpdf, pypdf)

    fn fixture(name: &str) -> Vec<u8> {
        let root = std::env::var("VERIF_REPO").unwrap_or_else(|_| "/repo".into());
        std::fs::read(format!("{root}/oxidize-pdf-core/tests/fixtures/{name}")).unwrap_or_else(|e| panic!("{name}: {e}"))
    }

    /// content fingerprint of a (decrypted or plaintext) file: decoded page contents and the
    /// string entries of the Info dictionary
    fn fingerprint(f: &PdfFile) -> (Vec<Vec<u8>>, Vec<(Vec<u8>, Vec<u8>)>) {
        let pages = f.pages().expect("pages");
        let contents: Vec<Vec<u8>> = pages.iter().map(|p| f.page_content(p).expect("page content")).collect();
        let info = f.resolve_opt(f.trailer.get("Info"));
        let mut strings: Vec<(Vec<u8>, Vec<u8>)> = info.as_dict().map(|d| d.iter().filter_map(|(k, v)| f.resolve(v).as_str_bytes().map(|s| (k.clone(), s.to_vec()))).collect()).unwrap_or_default();
        strings.sort();
        (contents, strings)
    }

    fn open(name: &str, pw: &[u8]) -> Result<(PdfFile, Unlocked), String> {
        let mut f = PdfFile::parse(&fixture(name)).map_err(|e| format!("{name}: {e}"))?;
        let u = unlock_ex(&mut f, pw)?;
        Ok((f, u))
    }

    fn load_everything(f: &PdfFile, u: &Unlocked, name: &str) {
        for n in f.live_objects() {
            let o = f.get(n);
            if let Some(s) = o.as_stream() {
                if s.dict.get("Type").and_then(|t| t.as_name()) != Some(b"XRef") {
                    match f.stream_data(s) {
                        Ok(_) => {}
                        // image codecs are outside the reference; `raw_images` compares those streams undecoded
                        Err(e) if e.to_string().contains("not supported by the reference") => {}
                        Err(e) => panic!("{name}: object {n} stream does not decode after decryption: {e}"),
                    }
                }
            }
        }
        let p = u.problems.lock().unwrap();
        assert!(p.is_empty(), "{name}: {p:?}");
    }

    /// sorted raw data of all streams the reference cannot decode (DCT images …)
    fn raw_images(f: &PdfFile) -> Vec<Vec<u8>> {
        let mut v: Vec<Vec<u8>> = Vec::new();
        for n in f.live_objects() {
            if let Obj::Stream(s) = f.get(n) {
                if s.dict.get("Type").and_then(|t| t.as_name()) != Some(b"XRef") && f.stream_data(&s).is_err() {
                    v.push(s.data.clone());
                }
            }
        }
        v.sort();
        v
    }

    fn check_family(base: &str, cases: &[(&str, &str, &str)], must_contain: Option<&[u8]>) {
        let bf = PdfFile::parse(&fixture(base)).unwrap();
        let want = fingerprint(&bf);
        let want_raw = raw_images(&bf);
        assert!(!want.0.is_empty());
        if let Some(m) = must_contain {
            assert!(want.0.iter().any(|c| crate::file::find_first(c, m, 0).is_some()), "{base} lacks the marker");
        }
        for (name, user, owner) in cases {
            for (pw, role) in [(user, Which::User), (owner, Which::Owner)] {
                let (f, u) = open(name, pw.as_bytes()).unwrap_or_else(|e| panic!("{name} with {role:?} password {pw:?}: {e}"));
                assert_eq!(u.which, role, "{name} {pw:?}");
                load_everything(&f, &u, name);
                let got = fingerprint(&f);
                assert_eq!(got.0.len(), want.0.len(), "{name}: page count");
                for (i, (g, w)) in got.0.iter().zip(&want.0).enumerate() {
                    assert!(g == w, "{name} ({role:?}): page {i} content differs from {base}");
                }
                assert_eq!(got.1, want.1, "{name} ({role:?}): Info strings differ from {base}");
                assert!(raw_images(&f) == want_raw, "{name} ({role:?}): undecodable (image) stream data differs from {base}");
            }
            for wrong in ["", "wrong", "userpw ", "Userpw"] {
                if wrong != *user && wrong != *owner {
                    assert!(open(name, wrong.as_bytes()).is_err(), "{name}: password {wrong:?} accepted");
                }
            }
        }
    }

    #[test]
    fn fixtures_qpdf_interop_matrix() {
        let (u, o) = ("userpw", "ownerpw");
        let (uu, uo) = ("contraseña_ñ", "dueño_café");
        check_family(
            "interop_base.pdf",
            &[
                ("interop_qpdf_rc4-40_user.pdf", u, o),
                ("interop_qpdf_rc4-128_user.pdf", u, o),
                ("interop_qpdf_aes128_user.pdf", u, o),
                ("interop_qpdf_aes256r5_user.pdf", u, o),
                ("interop_qpdf_aes256r6_user.pdf", u, o),
                ("interop_qpdf_rc4-40_empty.pdf", "", o),
                ("interop_qpdf_rc4-128_empty.pdf", "", o),
                ("interop_qpdf_aes128_empty.pdf", "", o),
                ("interop_qpdf_aes256r5_empty.pdf", "", o),
                ("interop_qpdf_aes256r6_empty.pdf", "", o),
                ("interop_qpdf_aes256r5_unicode.pdf", uu, uo),
                ("interop_qpdf_aes256r6_unicode.pdf", uu, uo),
                ("interop_qpdf_rc4-128_ctm_empty.pdf", "", o),
                ("interop_qpdf_rc4-128_ctm_user.pdf", u, o),
                ("interop_qpdf_aes128_ctm_empty.pdf", "", o),
                ("interop_qpdf_aes128_ctm_user.pdf", u, o),
            ],
            Some(b"OXIDIZE_INTEROP_FIXTURE_MARKER_V1"),
        );
    }

    #[test]
    fn fixtures_qpdf_cold_email() {
        check_family(
            "Cold_Email_Hacks.pdf",
            &[
                ("encrypted_rc4_40bit.pdf", "user", "owner"),
                ("encrypted_rc4_128bit.pdf", "test123", "owner123"),
                ("encrypted_restricted.pdf", "userpass", "ownerpass"),
                ("encrypted_aes256_r5_user.pdf", "user5", "owner5"),
                ("encrypted_aes256_r5_empty_user.pdf", "", "owner5_empty"),
                ("encrypted_aes256_r5_unicode.pdf", "unicode_contraseña", "owner5_unicode"),
                ("encrypted_aes256_r6_user.pdf", "user6", "owner6"),
                ("encrypted_aes256_r6_empty_user.pdf", "", "owner6_empty"),
                ("encrypted_aes256_r6_unicode.pdf", "café🔒", "owner6_unicode"),
            ],
            None,
        );
    }

    #[test]
    fn fixtures_pypdf() {
        // pypdf turns a `str` password into bytes with latin-1 when that is possible and UTF-8
        // otherwise (pypdf/_encryption.py), for every revision; "Contraseña123" is therefore the
        // latin-1 byte string in that fixture. The algorithms are the same, only the bytes differ.
        let latin1 = |s: &str| -> Vec<u8> { s.chars().map(|c| c as u32 as u8).collect() };
        for (name, pw) in [("encrypted_pypdf_aes256_user.pdf", "pypdf_test"), ("encrypted_pypdf_aes256_empty.pdf", ""), ("encrypted_pypdf_aes256_spanish.pdf", "Contraseña123")] {
            let owner = format!("{pw}_owner");
            for (p, role) in [(pw.to_string(), Which::User), (owner.clone(), Which::Owner)] {
                let (f, u) = open(name, &latin1(&p)).unwrap_or_else(|e| panic!("{name} {p:?}: {e}"));
                assert_eq!(u.which, role, "{name}");
                assert!(u.info.r >= 5, "{name}: R{}", u.info.r);
                load_everything(&f, &u, name);
                assert_eq!(f.pages().unwrap().len(), 1);
                let info = f.resolve_opt(f.trailer.get("Info"));
                let prod = f.resolve_opt(info.dict_get("Producer"));
                let prod = prod.as_str_bytes().unwrap_or_default().to_vec();
                assert!(crate::textstr::decode_text_string(&prod).to_lowercase().contains("pypdf"), "{name}: /Producer decrypts to {:?}", String::from_utf8_lossy(&prod));
            }
            assert!(open(name, b"nope").is_err());
        }
    }

    // ------------------------------------------------------------ the writer against the reader

    pub(crate) fn sample_objects() -> Vec<(u32, Obj)> {
        let mut objs = crate::builder::simple_doc_objects(2, &|i| format!("BT /F1 12 Tf 72 720 Td (Page {} \\(x\\)) Tj ET", i + 1).into_bytes());
        // compressed content on page 2
        let raw = b"BT /F1 12 Tf 72 700 Td (compressed) Tj ET".to_vec();
        objs[5].1 = Obj::stream(vec![("Filter", Obj::name("FlateDecode"))], crate::filters::flate_encode(&raw));
        objs.push((7, Obj::dict(vec![("Title", Obj::str(b"T (1)\r\n\\")), ("Author", Obj::str(b"\xfe\xff\x00A\x00\xf1")), ("Empty", Obj::str(b"")), ("Arr", Obj::Array(vec![Obj::str(b"in array"), Obj::dict(vec![("K", Obj::str(b"nested"))])]))])));
        objs.push((8, Obj::stream(vec![("Type", Obj::name("Metadata")), ("Subtype", Obj::name("XML"))], b"<x:xmpmeta>meta</x:xmpmeta>".to_vec())));
        if let Obj::Dict(d) = &mut objs[0].1 {
            d.set("Metadata", Obj::Ref(8, 0));
        }
        objs
    }

    #[test]
    fn writer_roundtrip_all_schemes() {
        let objs = sample_objects();
        for scheme in Scheme::ALL {
            for (xs, os) in [(false, false), (true, false), (true, true)] {
                for em in [true, false] {
                    for indirect in [true, false] {
                        for ident in [false, true] {
                            let mut s = EncSettings::new(scheme, b"us\xe9r", b"owner-password-that-is-longer-than-32-bytes!");
                            s.info = Some(7);
                            s.xref_stream = xs;
                            s.objstm = os;
                            s.encrypt_metadata = em;
                            s.encrypt_dict_indirect = indirect;
                            s.metadata_identity_filter = ident;
                            s.p = -3904;
                            if scheme == Scheme::R3 {
                                s.key_bits = 56;
                            }
                            let tag = format!("{} xs={xs} os={os} em={em} indirect={indirect} ident={ident}", scheme.name());
                            let enc = encrypt_file_ex(&objs, &s);
                            // the file is structurally valid as it stands when nothing is packed
                            if !os {
                                let issues = crate::file::validate(&enc.bytes);
                                assert!(issues.is_empty(), "{tag}: {issues:?}");
                            }
                            // nothing of the plaintext is visible, except cleartext metadata
                            let meta_clear = !em && scheme.revision() >= 4;
                            assert_eq!(crate::file::find_first(&enc.bytes, b"xmpmeta", 0).is_some(), meta_clear, "{tag}");
                            assert!(crate::file::find_first(&enc.bytes, b"nested", 0).is_none(), "{tag}");
                            for (pw, role) in [(&s.user_pw, Which::User), (&s.owner_pw, Which::Owner)] {
                                let mut f = PdfFile::parse(&enc.bytes).unwrap();
                                let u = unlock_ex(&mut f, pw).unwrap_or_else(|e| panic!("{tag}: {e}"));
                                assert_eq!(u.which, role, "{tag}");
                                assert_eq!(u.file_key, enc.file_key, "{tag}");
                                for (n, o) in &objs {
                                    let got = f.get(*n);
                                    match (o, &got) {
                                        (Obj::Stream(a), Obj::Stream(b)) => {
                                            assert_eq!(f.stream_data(a).unwrap(), f.stream_data(b).unwrap(), "{tag}: object {n}");
                                        }
                                        _ => assert!(got.same(o), "{tag}: object {n}: {got:?} vs {o:?}"),
                                    }
                                }
                                assert!(u.problems.lock().unwrap().is_empty(), "{tag}");
                            }
                            let mut f = PdfFile::parse(&enc.bytes).unwrap();
                            assert!(unlock(&mut f, b"other").is_err(), "{tag}");
                        }
                    }
                }
            }
        }
    }

    #[test]
    fn plain_file_is_valid() {
        let objs = sample_objects();
        for (xs, os) in [(false, false), (true, false), (true, true)] {
            let b = plain_file(&objs, 1, Some(7), xs, os);
            let issues = crate::file::validate(&b);
            assert!(issues.is_empty(), "{issues:?}");
        }
    }

    #[test]
    fn r6_hash_properties() {
        // deterministic, depends on every input, 32 bytes; R5 is plain SHA-256
        let a = alg2b_hash(b"pw", b"12345678", &[]);
        assert_eq!(a, alg2b_hash(b"pw", b"12345678", &[]));
        assert_ne!(a, alg2b_hash(b"pw", b"12345679", &[]));
        assert_ne!(a, alg2b_hash(b"pW", b"12345678", &[]));
        assert_ne!(a, alg2b_hash(b"pw", b"12345678", &[0u8; 48]));
        assert_eq!(hash_r56(5, b"pw", b"12345678", b"u"), sha256(&[b"pw12345678u"]));
        // 127-byte limit
        let long = vec![b'a'; 200];
        let fk = [5u8; 32];
        let (u, ue) = alg8_u_ue(6, &long, &fk, &[1; 8], &[2; 8]);
        assert!(alg11_user_ok(6, &long[..127], &u));
        assert!(!alg11_user_ok(6, &long[..126], &u));
        let (o, oe) = alg9_o_oe(6, b"own", &fk, &[3; 8], &[4; 8], &u);
        assert_eq!(alg2a_file_key(6, b"own", &o, &u, &oe, &ue), Some((Which::Owner, fk)));
        assert_eq!(alg2a_file_key(6, &long, &o, &u, &oe, &ue), Some((Which::User, fk)));
        assert_eq!(alg2a_file_key(6, b"x", &o, &u, &oe, &ue), None);
        let perms = alg10_perms(-44, false, &fk, [9; 4]);
        assert!(alg13_perms_check(&perms, &fk, -44, false).is_ok());
        assert!(alg13_perms_check(&perms, &fk, -44, true).is_err());
        assert!(alg13_perms_check(&perms, &fk, -48, false).is_err());
    }
}
