//! refpdf::crypto — not written yet.
