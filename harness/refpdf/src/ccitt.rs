//! refpdf::ccitt — reference CCITT fax *encoders* (ITU-T T.6 "Group 4" and T.4 one-dimensional
//! "Modified Huffman") for producing CCITTFaxDecode test streams (ISO 32000-1 §7.4.6).
//!
//! Nothing here is derived from /repo. Group 4 is the third-party `fax` crate's encoder; the
//! one-dimensional coder only strings together the run-length code words that the `fax` crate
//! publishes (`fax::maps::{white,black}::encode`) in the order T.4 §4.1 prescribes. Both are
//! validated in the unit tests against the `fax` crate's independent decoders.
use fax::{maps, BitWriter, Color, VecWriter};

/// A bilevel image; `rows[r][c] == true` means the pixel is **black**.
#[derive(Clone, Debug, PartialEq, Eq)]
pub struct Bitmap {
    pub width: usize,
    pub rows: Vec<Vec<bool>>,
}

impl Bitmap {
    pub fn new(width: usize, rows: Vec<Vec<bool>>) -> Self {
        assert!(rows.iter().all(|r| r.len() == width));
        Bitmap { width, rows }
    }

    /// The decoded sample data a PDF CCITTFaxDecode filter must produce (§7.4.6, Table 11):
    /// one bit per pixel, rows padded to a byte boundary, MSB first; with /BlackIs1 false
    /// (the default) black pixels are 0 bits, with /BlackIs1 true they are 1 bits.
    pub fn packed(&self, black_is_1: bool) -> Vec<u8> {
        let mut out = Vec::new();
        for row in &self.rows {
            let mut acc = 0u8;
            let mut n = 0;
            for &black in row {
                let bit = if black == black_is_1 { 1 } else { 0 };
                acc = acc << 1 | bit;
                n += 1;
                if n == 8 {
                    out.push(acc);
                    acc = 0;
                    n = 0;
                }
            }
            if n > 0 {
                // padding bits: zero
                out.push(acc << (8 - n));
            }
        }
        out
    }
}

fn colour(black: bool) -> Color {
    if black { Color::Black } else { Color::White }
}

/// T.6 (Group 4, /K -1) encoding with the end-of-facsimile-block marker (/EndOfBlock true),
/// no EOLs, no byte alignment.
pub fn encode_g4(bm: &Bitmap) -> Vec<u8> {
    let mut enc = fax::encoder::Encoder::new(VecWriter::new());
    for row in &bm.rows {
        enc.encode_line(row.iter().map(|&b| colour(b)), bm.width as u16).unwrap();
    }
    enc.finish().unwrap().finish()
}

fn put_run(w: &mut VecWriter, black: bool, mut n: u16) {
    let enc = |v: u16| if black { maps::black::encode(v) } else { maps::white::encode(v) }.expect("run code");
    // T.4 §4.1.1: runs ≥ 64 are a make-up code (multiple of 64, the 2560 code repeated as
    // needed) followed by a terminating code 0..63
    while n >= 2560 {
        w.write(enc(2560)).unwrap();
        n -= 2560;
    }
    if n >= 64 {
        w.write(enc(n & !63)).unwrap();
        n &= 63;
    }
    w.write(enc(n)).unwrap();
}

/// T.4 one-dimensional (/K 0) encoding. Every line is alternating white/black runs starting
/// with a (possibly empty) white run. `eol`: each line is preceded by an EOL code word
/// (/EndOfLine true). `rtc`: six EOLs after the last line (/EndOfBlock true). No fill bits, no
/// byte alignment (/EncodedByteAlign false).
pub fn encode_g3_1d(bm: &Bitmap, eol: bool, rtc: bool) -> Vec<u8> {
    let mut w = VecWriter::new();
    for row in &bm.rows {
        if eol {
            w.write(maps::EOL).unwrap();
        }
        let mut black = false;
        let mut i = 0;
        while i < row.len() {
            let mut n = 0u16;
            while i < row.len() && row[i] == black {
                n += 1;
                i += 1;
            }
            put_run(&mut w, black, n);
            black = !black;
        }
        if row.is_empty() {
            put_run(&mut w, false, 0);
        }
    }
    if rtc {
        for _ in 0..6 {
            w.write(maps::EOL).unwrap();
        }
    }
    w.finish()
}

#[cfg(test)]
mod tests {
    use super::*;

    fn bitmaps() -> Vec<Bitmap> {
        let mut v = Vec::new();
        // every bitmap with width*rows <= 12
        for width in 1..=12usize {
            for rows in 1..=3usize {
                if width * rows > 12 {
                    continue;
                }
                for bits in 0..(1u32 << (width * rows)) {
                    let r = (0..rows).map(|y| (0..width).map(|x| bits >> (y * width + x) & 1 == 1).collect()).collect();
                    v.push(Bitmap::new(width, r));
                }
            }
        }
        // wider rows with long runs (make-up codes, the 2560 extension)
        for width in [63usize, 64, 65, 128, 200, 1728, 2559, 2560, 2561, 2700, 5300] {
            for k in 0..4 {
                let r = (0..3)
                    .map(|y| {
                        (0..width)
                            .map(|x| match k {
                                0 => false,
                                1 => true,
                                2 => (x / (7 + y)) % 2 == 1,
                                _ => x > 70 + y && x < width - 1,
                            })
                            .collect()
                    })
                    .collect();
                v.push(Bitmap::new(width, r));
            }
        }
        v
    }

    fn rows_from_transitions(lines: &[Vec<u16>], width: usize) -> Vec<Vec<bool>> {
        lines.iter().map(|t| fax::decoder::pels(t, width as u16).map(|c| c == Color::Black).collect()).collect()
    }

    #[test]
    fn g4_against_fax_decoder() {
        for bm in bitmaps() {
            let enc = encode_g4(&bm);
            let mut lines: Vec<Vec<u16>> = Vec::new();
            fax::decoder::decode_g4(enc.iter().copied(), bm.width as u16, Some(bm.rows.len() as u16), |t| lines.push(t.to_vec()))
                .unwrap_or_else(|| panic!("fax cannot decode G4 of {bm:?}"));
            assert_eq!(rows_from_transitions(&lines, bm.width), bm.rows, "G4 w={}", bm.width);
        }
    }

    #[test]
    fn g3_1d_against_fax_decoder() {
        for bm in bitmaps() {
            let enc = encode_g3_1d(&bm, true, true);
            let mut lines: Vec<Vec<u16>> = Vec::new();
            fax::decoder::decode_g3(enc.iter().copied(), |t| lines.push(t.to_vec()))
                .unwrap_or_else(|| panic!("fax cannot decode G3 of w={} {:?}", bm.width, &enc[..enc.len().min(16)]));
            assert_eq!(lines.len(), bm.rows.len(), "G3 rows w={}", bm.width);
            assert_eq!(rows_from_transitions(&lines, bm.width), bm.rows, "G3 w={}", bm.width);
        }
    }

    #[test]
    fn eol_free_form_is_the_eol_form_without_the_eols() {
        // one row: the /EndOfLine false encoding is the run codes alone. T.4 Table 2: white run
        // of 2 = 0111, black run of 3 = 10, white run of 1 = 000111
        let bm = Bitmap::new(6, vec![vec![false, false, true, true, true, false]]);
        let enc = encode_g3_1d(&bm, false, false);
        // 0111 10 000111 -> 0111 1000 0111 0000
        assert_eq!(enc, vec![0b0111_1000, 0b0111_0000]);
        assert_eq!(bm.packed(false), vec![0b1100_0100]);
        assert_eq!(bm.packed(true), vec![0b0011_1000]);
    }
}
