//! refpdf::ccitt — not written yet.
