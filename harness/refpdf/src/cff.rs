//! refpdf::cff — not written yet.
