//! refpdf::cff — Compact Font Format reader (Adobe TN 5176) and Type 2 charstring
//! interpreter (Adobe TN 5177), written from the two technical notes.
//!
//! Reads name-keyed and CID-keyed CFF: header, INDEX, DICT (integer/real operands),
//! charset formats 0/1/2 and the predefined ISOAdobe charset, FDSelect formats 0/3,
//! FDArray, Private DICT (defaultWidthX / nominalWidthX / Subrs), local and global
//! subroutines with the bias rule. The interpreter produces the path as an absolute
//! moveto/lineto/curveto list plus the advance width the charstring declares.
//!
//! Validation (unit tests): every glyph of the bundled SourceSans3-Regular.otf decodes
//! and ends in endchar; the charstring width of every glyph equals its hmtx advance;
//! the left-most path coordinate of every glyph equals its hmtx left side bearing; the
//! union of all path boxes equals the FontBBox of the Top DICT; INDEX/DICT number
//! encodings are checked against the worked examples of TN 5176.

pub type R<T> = Result<T, String>;

fn need(d: &[u8], o: usize, n: usize, what: &str) -> R<()> {
    if o.checked_add(n).map(|e| e <= d.len()).unwrap_or(false) {
        Ok(())
    } else {
        Err(format!("{what}: need {n} bytes at {o}, have {}", d.len()))
    }
}
fn be(d: &[u8], o: usize, n: usize, what: &str) -> R<usize> {
    need(d, o, n, what)?;
    Ok(d[o..o + n].iter().fold(0usize, |a, &b| (a << 8) | b as usize))
}

/// An INDEX: `offsets` are absolute positions in the CFF data (count+1 of them).
#[derive(Clone, Debug, Default)]
pub struct Index {
    pub start: usize,
    pub off_size: u8,
    pub offsets: Vec<usize>,
    /// first byte after the INDEX
    pub end: usize,
}

impl Index {
    pub fn count(&self) -> usize {
        self.offsets.len().saturating_sub(1)
    }
    pub fn item<'a>(&self, data: &'a [u8], i: usize) -> Option<&'a [u8]> {
        if i + 1 >= self.offsets.len() {
            return None;
        }
        data.get(self.offsets[i]..self.offsets[i + 1])
    }
}

/// TN 5176 §5. An empty INDEX is the two-byte count 0.
pub fn parse_index(d: &[u8], pos: usize) -> R<Index> {
    let count = be(d, pos, 2, "INDEX count")?;
    if count == 0 {
        return Ok(Index { start: pos, off_size: 0, offsets: vec![], end: pos + 2 });
    }
    let off_size = be(d, pos + 2, 1, "INDEX offSize")?;
    if !(1..=4).contains(&off_size) {
        return Err(format!("INDEX at {pos}: offSize {off_size}"));
    }
    let base = pos + 3 + (count + 1) * off_size - 1; // offsets are relative to the byte before the data
    let mut offsets = Vec::with_capacity(count + 1);
    for i in 0..=count {
        let o = be(d, pos + 3 + i * off_size, off_size, "INDEX offset")?;
        if i == 0 && o != 1 {
            return Err(format!("INDEX at {pos}: first offset {o} != 1"));
        }
        if let Some(&prev) = offsets.last() {
            if base + o < prev {
                return Err(format!("INDEX at {pos}: offsets decrease at entry {i}"));
            }
        }
        offsets.push(base + o);
    }
    let end = *offsets.last().unwrap();
    if end > d.len() {
        return Err(format!("INDEX at {pos}: data ends at {end}, beyond {}", d.len()));
    }
    Ok(Index { start: pos, off_size: off_size as u8, offsets, end })
}

/// Operator code: one-byte operators as is, escaped ones as 0x0C00 | b1.
pub type Op = u16;
pub const OP_FONTBBOX: Op = 5;
pub const OP_CHARSET: Op = 15;
pub const OP_ENCODING: Op = 16;
pub const OP_CHARSTRINGS: Op = 17;
pub const OP_PRIVATE: Op = 18;
pub const OP_SUBRS: Op = 19;
pub const OP_DEFAULT_WIDTH_X: Op = 20;
pub const OP_NOMINAL_WIDTH_X: Op = 21;
pub const OP_CHARSTRING_TYPE: Op = 0x0C06;
pub const OP_FONT_MATRIX: Op = 0x0C07;
pub const OP_ROS: Op = 0x0C1E;
pub const OP_CID_COUNT: Op = 0x0C22;
pub const OP_FD_ARRAY: Op = 0x0C24;
pub const OP_FD_SELECT: Op = 0x0C25;

#[derive(Clone, Debug, Default)]
pub struct Dict {
    pub entries: Vec<(Op, Vec<f64>)>,
}

impl Dict {
    pub fn get(&self, op: Op) -> Option<&[f64]> {
        self.entries.iter().find(|e| e.0 == op).map(|e| e.1.as_slice())
    }
    pub fn num(&self, op: Op, default: f64) -> f64 {
        self.get(op).and_then(|v| v.last().copied()).unwrap_or(default)
    }
}

/// TN 5176 §4 (DICT data): operand and operator encoding.
pub fn parse_dict(d: &[u8]) -> R<Dict> {
    let mut entries = Vec::new();
    let mut ops: Vec<f64> = Vec::new();
    let mut i = 0;
    while i < d.len() {
        let b0 = d[i];
        match b0 {
            0..=21 => {
                let op = if b0 == 12 {
                    let b1 = *d.get(i + 1).ok_or("DICT: truncated escape operator")?;
                    i += 2;
                    0x0C00 | b1 as u16
                } else {
                    i += 1;
                    b0 as u16
                };
                entries.push((op, std::mem::take(&mut ops)));
            }
            28 => {
                ops.push(be(d, i + 1, 2, "DICT int16")? as u16 as i16 as f64);
                i += 3;
            }
            29 => {
                ops.push(be(d, i + 1, 4, "DICT int32")? as u32 as i32 as f64);
                i += 5;
            }
            30 => {
                let mut s = String::new();
                i += 1;
                'real: loop {
                    let b = *d.get(i).ok_or("DICT: truncated real")?;
                    i += 1;
                    for nib in [b >> 4, b & 15] {
                        match nib {
                            0..=9 => s.push((b'0' + nib) as char),
                            0xa => s.push('.'),
                            0xb => s.push('E'),
                            0xc => s.push_str("E-"),
                            0xe => s.push('-'),
                            0xf => break 'real,
                            _ => return Err("DICT: reserved nibble in real".into()),
                        }
                    }
                }
                ops.push(s.parse::<f64>().map_err(|e| format!("DICT real {s:?}: {e}"))?);
            }
            32..=246 => {
                ops.push(b0 as f64 - 139.0);
                i += 1;
            }
            247..=250 => {
                let b1 = *d.get(i + 1).ok_or("DICT: truncated operand")? as f64;
                ops.push((b0 as f64 - 247.0) * 256.0 + b1 + 108.0);
                i += 2;
            }
            251..=254 => {
                let b1 = *d.get(i + 1).ok_or("DICT: truncated operand")? as f64;
                ops.push(-(b0 as f64 - 251.0) * 256.0 - b1 - 108.0);
                i += 2;
            }
            _ => return Err(format!("DICT: reserved byte {b0} at {i}")),
        }
    }
    if !ops.is_empty() {
        return Err("DICT: operands without operator at the end".into());
    }
    Ok(Dict { entries })
}

#[derive(Clone, Debug, Default)]
pub struct Private {
    /// absolute offset and size of the Private DICT
    pub offset: usize,
    pub size: usize,
    pub dict: Dict,
    pub default_width_x: f64,
    pub nominal_width_x: f64,
    pub subrs: Option<Index>,
}

#[derive(Clone, Debug)]
pub struct Cff {
    pub data: Vec<u8>,
    pub names: Index,
    pub top_index: Index,
    pub strings: Index,
    pub gsubrs: Index,
    pub top: Dict,
    pub charstrings: Index,
    /// glyph -> SID (name-keyed) or CID (CID-keyed); entry 0 is 0
    pub charset: Vec<u16>,
    pub is_cid: bool,
    /// glyph -> FD index (CID-keyed)
    pub fd_select: Option<Vec<u8>>,
    /// Font DICTs of the FDArray (CID-keyed)
    pub fd_dicts: Vec<Dict>,
    /// one Private per FD (CID-keyed) or exactly one (name-keyed)
    pub privates: Vec<Private>,
}

fn parse_private(d: &[u8], size: f64, off: f64) -> R<Private> {
    if size < 0.0 || off < 0.0 {
        return Err(format!("Private size/offset negative: {size} {off}"));
    }
    let (size, offset) = (size as usize, off as usize);
    need(d, offset, size, "Private DICT")?;
    let dict = parse_dict(&d[offset..offset + size]).map_err(|e| format!("Private DICT at {offset}: {e}"))?;
    let subrs = match dict.get(OP_SUBRS) {
        Some(v) if !v.is_empty() => Some(parse_index(d, offset + v[0] as usize).map_err(|e| format!("local Subrs: {e}"))?),
        _ => None,
    };
    Ok(Private {
        offset,
        size,
        default_width_x: dict.num(OP_DEFAULT_WIDTH_X, 0.0),
        nominal_width_x: dict.num(OP_NOMINAL_WIDTH_X, 0.0),
        subrs,
        dict,
    })
}

impl Cff {
    pub fn parse(d: &[u8]) -> R<Cff> {
        need(d, 0, 4, "CFF header")?;
        if d[0] != 1 {
            return Err(format!("CFF major version {}", d[0]));
        }
        let hdr = d[2] as usize;
        if hdr < 4 {
            return Err(format!("CFF hdrSize {hdr}"));
        }
        let names = parse_index(d, hdr).map_err(|e| format!("Name INDEX: {e}"))?;
        let top_index = parse_index(d, names.end).map_err(|e| format!("Top DICT INDEX: {e}"))?;
        let strings = parse_index(d, top_index.end).map_err(|e| format!("String INDEX: {e}"))?;
        let gsubrs = parse_index(d, strings.end).map_err(|e| format!("Global Subr INDEX: {e}"))?;
        if names.count() != 1 || top_index.count() != 1 {
            return Err(format!("expected one font: {} names, {} Top DICTs", names.count(), top_index.count()));
        }
        let top = parse_dict(top_index.item(d, 0).unwrap()).map_err(|e| format!("Top DICT: {e}"))?;
        if top.num(OP_CHARSTRING_TYPE, 2.0) != 2.0 {
            return Err("CharstringType is not 2".into());
        }
        let cs_off = top.get(OP_CHARSTRINGS).and_then(|v| v.first().copied()).ok_or("Top DICT has no CharStrings")?;
        let charstrings = parse_index(d, cs_off as usize).map_err(|e| format!("CharStrings INDEX: {e}"))?;
        let n = charstrings.count();
        if n == 0 {
            return Err("CharStrings INDEX is empty".into());
        }
        let is_cid = top.get(OP_ROS).is_some();
        // charset
        let cso = top.num(OP_CHARSET, 0.0) as usize;
        let mut charset: Vec<u16> = vec![0];
        if cso <= 2 {
            if is_cid {
                return Err("CID-keyed font with a predefined charset".into());
            }
            if cso != 0 {
                return Err("Expert/ExpertSubset predefined charsets not supported".into());
            }
            if n > 229 {
                return Err("ISOAdobe charset with more than 229 glyphs".into());
            }
            charset.extend(1..n as u16);
        } else {
            let fmt = be(d, cso, 1, "charset format")?;
            let mut p = cso + 1;
            match fmt {
                0 => {
                    for _ in 1..n {
                        charset.push(be(d, p, 2, "charset SID")? as u16);
                        p += 2;
                    }
                }
                1 | 2 => {
                    while charset.len() < n {
                        let first = be(d, p, 2, "charset range first")?;
                        let left = be(d, p + 2, fmt, "charset range nLeft")?;
                        p += 2 + fmt;
                        for k in 0..=left {
                            if charset.len() < n {
                                if first + k > 0xFFFF {
                                    return Err("charset range runs past 65535".into());
                                }
                                charset.push((first + k) as u16);
                            }
                        }
                    }
                }
                f => return Err(format!("charset format {f}")),
            }
        }
        let mut fd_select = None;
        let mut fd_dicts = Vec::new();
        let mut privates = Vec::new();
        if is_cid {
            let fa = top.get(OP_FD_ARRAY).and_then(|v| v.first().copied()).ok_or("CID font without FDArray")?;
            let fdi = parse_index(d, fa as usize).map_err(|e| format!("FDArray INDEX: {e}"))?;
            if fdi.count() == 0 || fdi.count() > 256 {
                return Err(format!("FDArray has {} Font DICTs", fdi.count()));
            }
            for i in 0..fdi.count() {
                let fd = parse_dict(fdi.item(d, i).unwrap()).map_err(|e| format!("Font DICT {i}: {e}"))?;
                let pv = fd.get(OP_PRIVATE).ok_or(format!("Font DICT {i} has no Private"))?;
                if pv.len() != 2 {
                    return Err(format!("Font DICT {i}: Private wants 2 operands, has {}", pv.len()));
                }
                privates.push(parse_private(d, pv[0], pv[1]).map_err(|e| format!("FD {i}: {e}"))?);
                fd_dicts.push(fd);
            }
            let fs = top.get(OP_FD_SELECT).and_then(|v| v.first().copied()).ok_or("CID font without FDSelect")? as usize;
            let fmt = be(d, fs, 1, "FDSelect format")?;
            let mut sel = Vec::with_capacity(n);
            match fmt {
                0 => {
                    for g in 0..n {
                        sel.push(be(d, fs + 1 + g, 1, "FDSelect fd")? as u8);
                    }
                }
                3 => {
                    let nr = be(d, fs + 1, 2, "FDSelect nRanges")?;
                    let mut first = be(d, fs + 3, 2, "FDSelect first")?;
                    if first != 0 {
                        return Err("FDSelect format 3: first range does not start at glyph 0".into());
                    }
                    for r in 0..nr {
                        let fd = be(d, fs + 5 + 3 * r, 1, "FDSelect range fd")? as u8;
                        let next = be(d, fs + 6 + 3 * r, 2, "FDSelect next first / sentinel")?;
                        if next <= first {
                            return Err("FDSelect format 3: ranges not increasing".into());
                        }
                        for _ in first..next {
                            sel.push(fd);
                        }
                        first = next;
                    }
                    if sel.len() != n {
                        return Err(format!("FDSelect covers {} glyphs, font has {n}", sel.len()));
                    }
                }
                f => return Err(format!("FDSelect format {f}")),
            }
            if let Some(bad) = sel.iter().position(|&f| f as usize >= privates.len()) {
                return Err(format!("FDSelect: glyph {bad} selects FD {} of {}", sel[bad], privates.len()));
            }
            fd_select = Some(sel);
        } else {
            match top.get(OP_PRIVATE) {
                Some(pv) if pv.len() == 2 => privates.push(parse_private(d, pv[0], pv[1])?),
                Some(pv) => return Err(format!("Private wants 2 operands, has {}", pv.len())),
                None => return Err("Top DICT has no Private".into()),
            }
        }
        Ok(Cff { data: d.to_vec(), names, top_index, strings, gsubrs, top, charstrings, charset, is_cid, fd_select, fd_dicts, privates })
    }

    pub fn num_glyphs(&self) -> usize {
        self.charstrings.count()
    }
    pub fn private_of(&self, gid: usize) -> &Private {
        match &self.fd_select {
            Some(s) => &self.privates[s[gid] as usize],
            None => &self.privates[0],
        }
    }
    /// Glyph selected by a CID (CID-keyed) or SID (name-keyed) through the charset; CID 0 is glyph 0.
    pub fn gid_of_charset_id(&self, id: u16) -> Option<usize> {
        self.charset.iter().position(|&c| c == id)
    }

    /// Problems that make the table ill-formed although it parses.
    pub fn problems(&self) -> Vec<String> {
        let mut p = Vec::new();
        let mut seen = std::collections::BTreeSet::new();
        for (g, &c) in self.charset.iter().enumerate() {
            if g > 0 && c == 0 {
                p.push(format!("charset: glyph {g} has id 0 (reserved for .notdef)"));
            }
            if !seen.insert(c) {
                p.push(format!("charset: id {c} assigned twice (glyph {g})"));
            }
        }
        if self.is_cid {
            let count = self.top.num(OP_CID_COUNT, 8720.0);
            let max = self.charset.iter().copied().max().unwrap_or(0);
            if (max as f64) >= count {
                p.push(format!("CIDCount {count} but the charset uses CID {max} (valid CIDs are 0..CIDCount-1)"));
            }
        }
        for s in [&self.names, &self.top_index, &self.strings, &self.gsubrs, &self.charstrings] {
            if s.end > self.data.len() {
                p.push("INDEX beyond data".into());
            }
        }
        p
    }

    /// Interpret the charstring of a glyph.
    pub fn glyph(&self, gid: usize) -> R<CsGlyph> {
        let cs = self.charstrings.item(&self.data, gid).ok_or(format!("no charstring {gid}"))?;
        let pr = self.private_of(gid);
        let mut it = Interp {
            cff: self,
            lsubrs: pr.subrs.as_ref(),
            stack: Vec::with_capacity(48),
            x: 0.0,
            y: 0.0,
            path: Vec::new(),
            nstems: 0,
            width: None,
            width_done: false,
            ended: false,
            steps: 0,
            max_stack: 0,
            max_depth: 0,
            subr_calls: 0,
            transient: [0.0; 32],
        };
        it.run(cs, 0).map_err(|e| format!("glyph {gid}: {e}"))?;
        if !it.ended {
            return Err(format!("glyph {gid}: charstring ends without endchar"));
        }
        let width = match it.width {
            Some(w) => pr.nominal_width_x + w,
            None => pr.default_width_x,
        };
        Ok(CsGlyph { width, path: it.path, stems: it.nstems, max_stack: it.max_stack, max_depth: it.max_depth, subr_calls: it.subr_calls })
    }
}

#[derive(Clone, Copy, Debug, PartialEq)]
pub enum PathOp {
    MoveTo(f64, f64),
    LineTo(f64, f64),
    CurveTo(f64, f64, f64, f64, f64, f64),
}

#[derive(Clone, Debug, PartialEq)]
pub struct CsGlyph {
    /// advance width the charstring declares (nominalWidthX + operand, or defaultWidthX)
    pub width: f64,
    /// absolute coordinates
    pub path: Vec<PathOp>,
    pub stems: usize,
    pub max_stack: usize,
    pub max_depth: usize,
    pub subr_calls: usize,
}

pub fn path_words(p: &[PathOp]) -> Vec<u64> {
    let mut w = Vec::new();
    for op in p {
        match *op {
            PathOp::MoveTo(x, y) => w.extend([1, x.to_bits(), y.to_bits()]),
            PathOp::LineTo(x, y) => w.extend([2, x.to_bits(), y.to_bits()]),
            PathOp::CurveTo(a, b, c, d, e, f) => w.extend([3, a.to_bits(), b.to_bits(), c.to_bits(), d.to_bits(), e.to_bits(), f.to_bits()]),
        }
    }
    w
}

pub fn path_diff(a: &[PathOp], b: &[PathOp]) -> Option<String> {
    if a.len() != b.len() {
        return Some(format!("{} path operators vs {}", a.len(), b.len()));
    }
    a.iter().zip(b).position(|(x, y)| x != y).map(|i| format!("operator {i}: {:?} vs {:?}", a[i], b[i]))
}

/// TN 5177 §4.7 / TN 5176 §16: subroutine number bias.
pub fn subr_bias(count: usize) -> i64 {
    if count < 1240 {
        107
    } else if count < 33900 {
        1131
    } else {
        32768
    }
}

struct Interp<'a> {
    cff: &'a Cff,
    lsubrs: Option<&'a Index>,
    stack: Vec<f64>,
    x: f64,
    y: f64,
    path: Vec<PathOp>,
    nstems: usize,
    width: Option<f64>,
    width_done: bool,
    ended: bool,
    steps: usize,
    max_stack: usize,
    max_depth: usize,
    subr_calls: usize,
    transient: [f64; 32],
}

impl<'a> Interp<'a> {
    /// The first stack-clearing operator may carry the width as an extra first operand.
    fn take_width(&mut self, extra_when: impl Fn(usize) -> bool) {
        if !self.width_done {
            self.width_done = true;
            if extra_when(self.stack.len()) && !self.stack.is_empty() {
                self.width = Some(self.stack.remove(0));
            }
        }
    }
    fn line(&mut self, dx: f64, dy: f64) {
        self.x += dx;
        self.y += dy;
        self.path.push(PathOp::LineTo(self.x, self.y));
    }
    fn curve(&mut self, d: [f64; 6]) {
        let (x1, y1) = (self.x + d[0], self.y + d[1]);
        let (x2, y2) = (x1 + d[2], y1 + d[3]);
        self.x = x2 + d[4];
        self.y = y2 + d[5];
        self.path.push(PathOp::CurveTo(x1, y1, x2, y2, self.x, self.y));
    }
    fn pop(&mut self) -> R<f64> {
        self.stack.pop().ok_or_else(|| "stack underflow".to_string())
    }

    fn run(&mut self, cs: &[u8], depth: usize) -> R<()> {
        if depth > 10 {
            return Err("subroutine nesting deeper than 10".into());
        }
        self.max_depth = self.max_depth.max(depth);
        let mut i = 0;
        while i < cs.len() {
            self.steps += 1;
            if self.steps > 2_000_000 {
                return Err("charstring runs too long".into());
            }
            let b0 = cs[i];
            i += 1;
            match b0 {
                32..=246 => self.stack.push(b0 as f64 - 139.0),
                247..=250 => {
                    let b1 = *cs.get(i).ok_or("truncated number")? as f64;
                    i += 1;
                    self.stack.push((b0 as f64 - 247.0) * 256.0 + b1 + 108.0);
                }
                251..=254 => {
                    let b1 = *cs.get(i).ok_or("truncated number")? as f64;
                    i += 1;
                    self.stack.push(-(b0 as f64 - 251.0) * 256.0 - b1 - 108.0);
                }
                28 => {
                    need(cs, i, 2, "shortint")?;
                    self.stack.push(i16::from_be_bytes([cs[i], cs[i + 1]]) as f64);
                    i += 2;
                }
                255 => {
                    need(cs, i, 4, "fixed")?;
                    let v = i32::from_be_bytes([cs[i], cs[i + 1], cs[i + 2], cs[i + 3]]);
                    self.stack.push(v as f64 / 65536.0);
                    i += 4;
                }
                // ---- hints
                1 | 3 | 18 | 23 => {
                    self.take_width(|n| n % 2 == 1);
                    self.nstems += self.stack.len() / 2;
                    self.stack.clear();
                }
                19 | 20 => {
                    self.take_width(|n| n % 2 == 1);
                    // operands in front of the first mask are an implied vstemhm
                    self.nstems += self.stack.len() / 2;
                    self.stack.clear();
                    let nb = (self.nstems + 7) / 8;
                    need(cs, i, nb, "hintmask/cntrmask bytes")?;
                    i += nb;
                }
                // ---- moves
                21 => {
                    self.take_width(|n| n > 2);
                    if self.stack.len() != 2 {
                        return Err(format!("rmoveto with {} operands", self.stack.len()));
                    }
                    self.x += self.stack[0];
                    self.y += self.stack[1];
                    self.path.push(PathOp::MoveTo(self.x, self.y));
                    self.stack.clear();
                }
                22 => {
                    self.take_width(|n| n > 1);
                    if self.stack.len() != 1 {
                        return Err(format!("hmoveto with {} operands", self.stack.len()));
                    }
                    self.x += self.stack[0];
                    self.path.push(PathOp::MoveTo(self.x, self.y));
                    self.stack.clear();
                }
                4 => {
                    self.take_width(|n| n > 1);
                    if self.stack.len() != 1 {
                        return Err(format!("vmoveto with {} operands", self.stack.len()));
                    }
                    self.y += self.stack[0];
                    self.path.push(PathOp::MoveTo(self.x, self.y));
                    self.stack.clear();
                }
                // ---- lines
                5 => {
                    let s = std::mem::take(&mut self.stack);
                    if s.is_empty() || s.len() % 2 != 0 {
                        return Err(format!("rlineto with {} operands", s.len()));
                    }
                    for p in s.chunks(2) {
                        self.line(p[0], p[1]);
                    }
                }
                6 | 7 => {
                    let s = std::mem::take(&mut self.stack);
                    if s.is_empty() {
                        return Err("hlineto/vlineto without operands".into());
                    }
                    let mut horiz = b0 == 6;
                    for &v in &s {
                        if horiz {
                            self.line(v, 0.0);
                        } else {
                            self.line(0.0, v);
                        }
                        horiz = !horiz;
                    }
                }
                // ---- curves
                8 => {
                    let s = std::mem::take(&mut self.stack);
                    if s.is_empty() || s.len() % 6 != 0 {
                        return Err(format!("rrcurveto with {} operands", s.len()));
                    }
                    for c in s.chunks(6) {
                        self.curve([c[0], c[1], c[2], c[3], c[4], c[5]]);
                    }
                }
                24 => {
                    let s = std::mem::take(&mut self.stack);
                    if s.len() < 8 || (s.len() - 2) % 6 != 0 {
                        return Err(format!("rcurveline with {} operands", s.len()));
                    }
                    let n = s.len() - 2;
                    for c in s[..n].chunks(6) {
                        self.curve([c[0], c[1], c[2], c[3], c[4], c[5]]);
                    }
                    self.line(s[n], s[n + 1]);
                }
                25 => {
                    let s = std::mem::take(&mut self.stack);
                    if s.len() < 8 || (s.len() - 6) % 2 != 0 {
                        return Err(format!("rlinecurve with {} operands", s.len()));
                    }
                    let n = s.len() - 6;
                    for p in s[..n].chunks(2) {
                        self.line(p[0], p[1]);
                    }
                    let c = &s[n..];
                    self.curve([c[0], c[1], c[2], c[3], c[4], c[5]]);
                }
                26 => {
                    // vvcurveto: dx1? {dya dxb dyb dyc}+
                    let s = std::mem::take(&mut self.stack);
                    let mut k = 0;
                    let mut dx1 = 0.0;
                    if s.len() % 4 == 1 {
                        dx1 = s[0];
                        k = 1;
                    }
                    if s.len() < 4 || (s.len() - k) % 4 != 0 {
                        return Err(format!("vvcurveto with {} operands", s.len()));
                    }
                    for c in s[k..].chunks(4) {
                        self.curve([dx1, c[0], c[1], c[2], 0.0, c[3]]);
                        dx1 = 0.0;
                    }
                }
                27 => {
                    // hhcurveto: dy1? {dxa dxb dyb dxc}+
                    let s = std::mem::take(&mut self.stack);
                    let mut k = 0;
                    let mut dy1 = 0.0;
                    if s.len() % 4 == 1 {
                        dy1 = s[0];
                        k = 1;
                    }
                    if s.len() < 4 || (s.len() - k) % 4 != 0 {
                        return Err(format!("hhcurveto with {} operands", s.len()));
                    }
                    for c in s[k..].chunks(4) {
                        self.curve([c[0], dy1, c[1], c[2], c[3], 0.0]);
                        dy1 = 0.0;
                    }
                }
                30 | 31 => {
                    // vhcurveto (30) starts vertical, hvcurveto (31) starts horizontal; the
                    // tangent alternates; a final odd operand bends the last curve's end.
                    let s = std::mem::take(&mut self.stack);
                    if s.len() < 4 || !(s.len() % 4 == 0 || s.len() % 4 == 1) {
                        return Err(format!("hvcurveto/vhcurveto with {} operands", s.len()));
                    }
                    let mut horiz = b0 == 31;
                    let mut k = 0;
                    while s.len() - k >= 4 {
                        let last_extra = if s.len() - k == 5 { s[k + 4] } else { 0.0 };
                        if horiz {
                            self.curve([s[k], 0.0, s[k + 1], s[k + 2], last_extra, s[k + 3]]);
                        } else {
                            self.curve([0.0, s[k], s[k + 1], s[k + 2], s[k + 3], last_extra]);
                        }
                        horiz = !horiz;
                        k += 4;
                    }
                }
                // ---- subroutines
                10 | 29 => {
                    let idx = self.pop()?;
                    let cff: &'a Cff = self.cff;
                    let index: Option<&'a Index> = if b0 == 10 { self.lsubrs } else { Some(&cff.gsubrs) };
                    let index = index.ok_or("callsubr without local subroutines")?;
                    let n = idx as i64 + subr_bias(index.count());
                    if idx.fract() != 0.0 || n < 0 {
                        return Err(format!("subroutine number {idx}"));
                    }
                    let body = index.item(&cff.data, n as usize).ok_or(format!("subroutine {n} of {} not present", index.count()))?;
                    self.subr_calls += 1;
                    self.run(body, depth + 1)?;
                    if self.ended {
                        return Ok(());
                    }
                }
                11 => return Ok(()),
                14 => {
                    self.take_width(|n| n == 1 || n == 5);
                    if self.stack.len() == 4 {
                        return Err("endchar with 4 operands (seac form) not supported".into());
                    }
                    if !self.stack.is_empty() {
                        return Err(format!("endchar with {} operands", self.stack.len()));
                    }
                    self.ended = true;
                    return Ok(());
                }
                12 => {
                    let b1 = *cs.get(i).ok_or("truncated escape")?;
                    i += 1;
                    match b1 {
                        34 => {
                            // hflex
                            let s = std::mem::take(&mut self.stack);
                            if s.len() != 7 {
                                return Err(format!("hflex with {} operands", s.len()));
                            }
                            self.curve([s[0], 0.0, s[1], s[2], s[3], 0.0]);
                            self.curve([s[4], 0.0, s[5], -s[2], s[6], 0.0]);
                        }
                        35 => {
                            let s = std::mem::take(&mut self.stack);
                            if s.len() != 13 {
                                return Err(format!("flex with {} operands", s.len()));
                            }
                            self.curve([s[0], s[1], s[2], s[3], s[4], s[5]]);
                            self.curve([s[6], s[7], s[8], s[9], s[10], s[11]]);
                        }
                        36 => {
                            // hflex1
                            let s = std::mem::take(&mut self.stack);
                            if s.len() != 9 {
                                return Err(format!("hflex1 with {} operands", s.len()));
                            }
                            self.curve([s[0], s[1], s[2], s[3], s[4], 0.0]);
                            self.curve([s[5], 0.0, s[6], s[7], s[8], -(s[1] + s[3] + s[7])]);
                        }
                        37 => {
                            // flex1
                            let s = std::mem::take(&mut self.stack);
                            if s.len() != 11 {
                                return Err(format!("flex1 with {} operands", s.len()));
                            }
                            let dx = s[0] + s[2] + s[4] + s[6] + s[8];
                            let dy = s[1] + s[3] + s[5] + s[7] + s[9];
                            self.curve([s[0], s[1], s[2], s[3], s[4], s[5]]);
                            if dx.abs() > dy.abs() {
                                self.curve([s[6], s[7], s[8], s[9], s[10], -dy]);
                            } else {
                                self.curve([s[6], s[7], s[8], s[9], -dx, s[10]]);
                            }
                        }
                        // arithmetic, storage, conditionals
                        3 => {
                            let (b, a) = (self.pop()?, self.pop()?);
                            self.stack.push((a != 0.0 && b != 0.0) as u8 as f64);
                        }
                        4 => {
                            let (b, a) = (self.pop()?, self.pop()?);
                            self.stack.push((a != 0.0 || b != 0.0) as u8 as f64);
                        }
                        5 => {
                            let a = self.pop()?;
                            self.stack.push((a == 0.0) as u8 as f64);
                        }
                        9 => {
                            let a = self.pop()?;
                            self.stack.push(a.abs());
                        }
                        10 => {
                            let (b, a) = (self.pop()?, self.pop()?);
                            self.stack.push(a + b);
                        }
                        11 => {
                            let (b, a) = (self.pop()?, self.pop()?);
                            self.stack.push(a - b);
                        }
                        12 => {
                            let (b, a) = (self.pop()?, self.pop()?);
                            self.stack.push(a / b);
                        }
                        14 => {
                            let a = self.pop()?;
                            self.stack.push(-a);
                        }
                        15 => {
                            let (b, a) = (self.pop()?, self.pop()?);
                            self.stack.push((a == b) as u8 as f64);
                        }
                        18 => {
                            self.pop()?;
                        }
                        20 => {
                            let (i2, v) = (self.pop()?, self.pop()?);
                            *self.transient.get_mut(i2 as usize).ok_or("put index")? = v;
                        }
                        21 => {
                            let i2 = self.pop()?;
                            self.stack.push(*self.transient.get(i2 as usize).ok_or("get index")?);
                        }
                        22 => {
                            let (v2, v1, s2, s1) = (self.pop()?, self.pop()?, self.pop()?, self.pop()?);
                            self.stack.push(if v1 <= v2 { s1 } else { s2 });
                        }
                        24 => {
                            let (b, a) = (self.pop()?, self.pop()?);
                            self.stack.push(a * b);
                        }
                        26 => {
                            let a = self.pop()?;
                            self.stack.push(a.sqrt());
                        }
                        27 => {
                            let a = self.pop()?;
                            self.stack.push(a);
                            self.stack.push(a);
                        }
                        28 => {
                            let (b, a) = (self.pop()?, self.pop()?);
                            self.stack.push(b);
                            self.stack.push(a);
                        }
                        29 => {
                            let i2 = self.pop()?;
                            let n = self.stack.len();
                            let k = if i2 < 0.0 { 0 } else { i2 as usize };
                            if k >= n {
                                return Err("index beyond stack".into());
                            }
                            self.stack.push(self.stack[n - 1 - k]);
                        }
                        30 => {
                            let (j, n) = (self.pop()? as i64, self.pop()? as i64);
                            let len = self.stack.len() as i64;
                            if n < 0 || n > len {
                                return Err("roll beyond stack".into());
                            }
                            if n > 0 {
                                let s = (len - n) as usize;
                                let r = j.rem_euclid(n) as usize;
                                self.stack[s..].rotate_right(r);
                            }
                        }
                        other => return Err(format!("escape operator 12 {other} not supported")),
                    }
                }
                other => return Err(format!("reserved charstring byte {other}")),
            }
            self.max_stack = self.max_stack.max(self.stack.len());
        }
        Ok(())
    }
}

#[cfg(test)]
mod tests {
    use super::*;
    use crate::ttf;

    #[test]
    fn dict_number_examples_from_tn5176() {
        // Table 4 examples: 0, 100, -100, 1000, -1000, 10000, -10000, 100000, -100000
        let cases: [(&[u8], f64); 9] = [
            (&[0x8b], 0.0),
            (&[0xef], 100.0),
            (&[0x27], -100.0),
            (&[0xfa, 0x7c], 1000.0),
            (&[0xfe, 0x7c], -1000.0),
            (&[0x1c, 0x27, 0x10], 10000.0),
            (&[0x1c, 0xd8, 0xf0], -10000.0),
            (&[0x1d, 0x00, 0x01, 0x86, 0xa0], 100000.0),
            (&[0x1d, 0xff, 0xfe, 0x79, 0x60], -100000.0),
        ];
        for (bytes, want) in cases {
            let mut d = bytes.to_vec();
            d.push(17);
            assert_eq!(parse_dict(&d).unwrap().get(17).unwrap(), &[want]);
        }
        // reals: -2.25 = 1e e2 a2 5f ; 0.140541E-3 = 1e 0a 14 05 41 c3 ff
        let d = [0x1e, 0xe2, 0xa2, 0x5f, 0x1e, 0x0a, 0x14, 0x05, 0x41, 0xc3, 0xff, 0x0c, 0x07];
        let got = parse_dict(&d).unwrap();
        assert_eq!(got.get(OP_FONT_MATRIX).unwrap(), &[-2.25, 0.140541e-3]);
    }

    #[test]
    fn index_example() {
        // count 2, offSize 1, offsets 1 3 6, data "ab" "cde"
        let d = [0, 2, 1, 1, 3, 6, b'a', b'b', b'c', b'd', b'e', 0xFF];
        let ix = parse_index(&d, 0).unwrap();
        assert_eq!(ix.count(), 2);
        assert_eq!(ix.item(&d, 0).unwrap(), b"ab");
        assert_eq!(ix.item(&d, 1).unwrap(), b"cde");
        assert_eq!(ix.end, 11);
        assert_eq!(parse_index(&[0, 0, 9], 0).unwrap().end, 2);
        assert!(parse_index(&[0, 1, 1, 2, 3, 0], 0).is_err());
        assert_eq!((subr_bias(0), subr_bias(1239), subr_bias(1240), subr_bias(33899), subr_bias(33900)), (107, 107, 1131, 1131, 32768));
    }

    fn run_cs(cs: &[u8]) -> CsGlyph {
        // minimal name-keyed CFF around one charstring, no subroutines; nominalWidthX 100, defaultWidthX 77
        let private = [0xd8u8, 20, 0xef, 21]; // 77 defaultWidthX, 100 nominalWidthX
        let name = [0u8, 1, 1, 1, 2, b'X'];
        let mk_top = |cs_off: i32, pr_off: i32| {
            let mut t = Vec::new();
            t.push(29);
            t.extend(cs_off.to_be_bytes());
            t.push(17);
            t.push(0x8b + private.len() as u8);
            t.push(29);
            t.extend(pr_off.to_be_bytes());
            t.push(18);
            t
        };
        let top_len = mk_top(0, 0).len();
        let hdr = [1u8, 0, 4, 1];
        let top_index_len = 2 + 1 + 2 + top_len;
        let cs_off = hdr.len() + name.len() + top_index_len + 2 + 2;
        let cs_index_len = 2 + 1 + 2 + cs.len();
        let pr_off = cs_off + cs_index_len;
        let top = mk_top(cs_off as i32, pr_off as i32);
        let mut d = Vec::new();
        d.extend(hdr);
        d.extend(name);
        d.extend([0, 1, 1, 1, (1 + top.len()) as u8]);
        d.extend(&top);
        d.extend([0, 0]); // strings
        d.extend([0, 0]); // gsubrs
        d.extend([0, 1, 1, 1, (1 + cs.len()) as u8]);
        d.extend(cs);
        d.extend(private);
        let cff = Cff::parse(&d).unwrap();
        cff.glyph(0).unwrap()
    }

    fn n(v: i32) -> u8 {
        (v + 139) as u8
    }

    #[test]
    fn hand_written_charstrings() {
        use PathOp::*;
        // width 20 (+nominal 100), hstem, rmoveto 10 10, hlineto 5 6 7, endchar
        let g = run_cs(&[n(20), n(0), n(5), 1, n(10), n(10), 21, n(5), n(6), n(7), 6, 14]);
        assert_eq!(g.width, 120.0);
        assert_eq!(g.stems, 1);
        assert_eq!(g.path, vec![MoveTo(10.0, 10.0), LineTo(15.0, 10.0), LineTo(15.0, 16.0), LineTo(22.0, 16.0)]);
        // no width operand -> defaultWidthX; vmoveto; hvcurveto with the odd last operand
        let g = run_cs(&[n(3), 4, n(1), n(2), n(3), n(4), n(5), 31, 14]);
        assert_eq!(g.width, 77.0);
        assert_eq!(g.path, vec![MoveTo(0.0, 3.0), CurveTo(1.0, 3.0, 3.0, 6.0, 8.0, 10.0)]);
        // vhcurveto with two curves: first vertical start, second horizontal start
        let g = run_cs(&[n(0), 22, n(1), n(2), n(3), n(4), n(5), n(6), n(7), n(8), 30, 14]);
        assert_eq!(g.path[1], CurveTo(0.0, 1.0, 2.0, 4.0, 6.0, 4.0));
        assert_eq!(g.path[2], CurveTo(11.0, 4.0, 17.0, 11.0, 17.0, 19.0));
        // hstemhm + implied vstem in front of hintmask: 2 + 1 stems -> 1 mask byte that looks like an operator
        let g = run_cs(&[n(1), n(2), n(3), n(4), 18, n(5), n(6), 19, 14, n(7), 22, 14]);
        assert_eq!(g.stems, 3);
        assert_eq!(g.path, vec![MoveTo(7.0, 0.0)]);
        // width + odd stem operands, cntrmask with 9 stems -> 2 mask bytes
        let mut cs = vec![n(50)];
        for _ in 0..9 {
            cs.extend([n(1), n(1)]);
        }
        cs.extend([23, 20, 14, 14, n(1), n(2), 21, 14]);
        let g = run_cs(&cs);
        assert_eq!((g.width, g.stems), (150.0, 9));
        assert_eq!(g.path, vec![MoveTo(1.0, 2.0)]);
        // hhcurveto with dy1, vvcurveto with dx1, rcurveline, rlinecurve, 16.16 number, shortint
        let g = run_cs(&[n(0), 22, n(9), n(1), n(2), n(3), n(4), 27, n(9), n(1), n(2), n(3), n(4), 26, 14]);
        assert_eq!(g.path[1], CurveTo(1.0, 9.0, 3.0, 12.0, 7.0, 12.0));
        assert_eq!(g.path[2], CurveTo(16.0, 13.0, 18.0, 16.0, 18.0, 20.0));
        let g = run_cs(&[n(0), 22, 255, 0, 1, 0x80, 0, 28, 0xff, 0xfe, 5, n(1), n(1), n(1), n(1), n(1), n(1), n(2), n(2), 24, 14]);
        assert_eq!(g.path[1], LineTo(1.5, -2.0));
        assert_eq!(g.path[2], CurveTo(2.5, -1.0, 3.5, 0.0, 4.5, 1.0));
        assert_eq!(g.path[3], LineTo(6.5, 3.0));
        // flex1 closes on the dominant axis; hflex returns to the start y
        let g = run_cs(&[n(0), n(0), 21, n(10), n(1), n(10), n(1), n(10), n(1), n(10), n(-1), n(10), n(-1), n(10), 12, 37, 14]);
        assert_eq!(g.path[2], CurveTo(40.0, 2.0, 50.0, 1.0, 60.0, 0.0));
        let g = run_cs(&[n(0), n(5), 21, n(1), n(2), n(3), n(4), n(5), n(6), n(7), 12, 34, 14]);
        assert_eq!(g.path[1], CurveTo(1.0, 5.0, 3.0, 8.0, 7.0, 8.0));
        assert_eq!(g.path[2], CurveTo(12.0, 8.0, 18.0, 5.0, 25.0, 5.0));
    }

    fn source_sans() -> (ttf::Font, Cff) {
        let root = std::env::var("VERIF_REPO").unwrap_or_else(|_| "/repo".into());
        let data = std::fs::read(format!("{root}/test-pdfs/SourceSans3-Regular.otf")).unwrap();
        let f = ttf::Font::parse(&data).unwrap();
        let cff = Cff::parse(f.sfnt.need_table(b"CFF ").unwrap()).unwrap();
        (f, cff)
    }

    #[test]
    fn source_sans_every_glyph_decodes_widths_and_bearings_match_hmtx() {
        let (f, cff) = source_sans();
        assert!(!f.is_glyf());
        assert_eq!(cff.num_glyphs(), f.num_glyphs as usize);
        assert_eq!(cff.problems(), Vec::<String>::new());
        assert!(!cff.is_cid);
        let (mut calls, mut with_hintmask_candidates, mut lsb_ok, mut nonempty) = (0usize, 0usize, 0usize, 0usize);
        let mut bb = [f64::MAX, f64::MAX, f64::MIN, f64::MIN];
        let mut max_stack = 0;
        for gid in 0..cff.num_glyphs() {
            let g = cff.glyph(gid).unwrap();
            calls += g.subr_calls;
            max_stack = max_stack.max(g.max_stack);
            if g.stems > 0 {
                with_hintmask_candidates += 1;
            }
            assert_eq!(g.width, f.advance(gid as u16).unwrap() as f64, "glyph {gid}: charstring width vs hmtx");
            let mut xs = Vec::new();
            let mut ys = Vec::new();
            for op in &g.path {
                match *op {
                    PathOp::MoveTo(x, y) | PathOp::LineTo(x, y) => {
                        xs.push(x);
                        ys.push(y);
                    }
                    PathOp::CurveTo(a, b, c, d, e, f2) => {
                        xs.extend([a, c, e]);
                        ys.extend([b, d, f2]);
                    }
                }
            }
            if xs.is_empty() {
                continue;
            }
            nonempty += 1;
            assert!(matches!(g.path[0], PathOp::MoveTo(..)), "glyph {gid}: path does not start with a moveto");
            let mnx = xs.iter().cloned().fold(f64::MAX, f64::min);
            if mnx == f.lsb(gid as u16).unwrap() as f64 {
                lsb_ok += 1;
            }
            bb[0] = bb[0].min(mnx);
            bb[1] = bb[1].min(ys.iter().cloned().fold(f64::MAX, f64::min));
            bb[2] = bb[2].max(xs.iter().cloned().fold(f64::MIN, f64::max));
            bb[3] = bb[3].max(ys.iter().cloned().fold(f64::MIN, f64::max));
        }
        let ng = cff.num_glyphs();
        eprintln!("SourceSans3: {ng} glyphs, {nonempty} with outlines, {calls} subroutine calls, {with_hintmask_candidates} hinted, lsb==xMin for {lsb_ok}, max stack {max_stack}, bbox {bb:?}");
        assert!(calls > 1000, "the font is expected to be subroutinized");
        assert!(max_stack <= 48);
        assert!(lsb_ok * 1000 >= nonempty * 995, "left side bearing equals path xMin for {lsb_ok} of {nonempty}");
        let fb = cff.top.get(OP_FONTBBOX).unwrap();
        for k in 0..4 {
            assert!((fb[k] - bb[k]).abs() <= 1.0, "FontBBox {fb:?} vs union of glyph boxes {bb:?}");
        }
    }
}
