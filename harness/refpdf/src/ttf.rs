//! refpdf::ttf — not written yet.
