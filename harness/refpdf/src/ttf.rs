//! refpdf::ttf — sfnt / TrueType reader written from the OpenType specification
//! (otff: table directory and checksums; head, maxp, hhea, hmtx, loca, glyf, cmap), plus
//! a writer for small synthetic TrueType fonts (`synth`).
//!
//! Independent of /repo: nothing here is derived from the library's font code.
//! Validation (unit tests below): every glyph of the two bundled fonts decodes, every
//! table checksum and the whole-file checksum verify, the flattened outline of every
//! glyf glyph (composites included) reproduces the bounding box stored in its header,
//! cmap format 4 and format 12 subtables of one font agree on the BMP, and synthetic
//! fonts written by `synth` read back to exactly the outlines they were specified with.

pub type R<T> = Result<T, String>;

fn need(d: &[u8], o: usize, n: usize, what: &str) -> R<()> {
    if o.checked_add(n).map(|e| e <= d.len()).unwrap_or(false) {
        Ok(())
    } else {
        Err(format!("{what}: need {n} bytes at {o}, have {}", d.len()))
    }
}
pub fn u8at(d: &[u8], o: usize) -> R<u8> {
    need(d, o, 1, "u8")?;
    Ok(d[o])
}
pub fn u16at(d: &[u8], o: usize) -> R<u16> {
    need(d, o, 2, "u16")?;
    Ok(u16::from_be_bytes([d[o], d[o + 1]]))
}
pub fn i16at(d: &[u8], o: usize) -> R<i16> {
    Ok(u16at(d, o)? as i16)
}
pub fn u32at(d: &[u8], o: usize) -> R<u32> {
    need(d, o, 4, "u32")?;
    Ok(u32::from_be_bytes([d[o], d[o + 1], d[o + 2], d[o + 3]]))
}

/// otff "Calculating Checksums": sum of big-endian uint32 words, the table being
/// padded with zero bytes to a multiple of four.
pub fn table_checksum(data: &[u8]) -> u32 {
    let mut sum = 0u32;
    for ch in data.chunks(4) {
        let mut w = [0u8; 4];
        w[..ch.len()].copy_from_slice(ch);
        sum = sum.wrapping_add(u32::from_be_bytes(w));
    }
    sum
}

pub fn tag_str(t: &[u8; 4]) -> String {
    t.iter().map(|&b| if (0x20..0x7f).contains(&b) { b as char } else { '?' }).collect()
}

#[derive(Clone, Debug, PartialEq, Eq)]
pub struct TableRec {
    pub tag: [u8; 4],
    pub checksum: u32,
    pub offset: u32,
    pub length: u32,
}

/// The sfnt wrapper: offset table + table directory.
#[derive(Clone, Debug)]
pub struct Sfnt {
    pub data: Vec<u8>,
    pub version: u32,
    pub search_range: u16,
    pub entry_selector: u16,
    pub range_shift: u16,
    pub tables: Vec<TableRec>,
}

impl Sfnt {
    pub fn parse(data: &[u8]) -> R<Sfnt> {
        let version = u32at(data, 0)?;
        if version != 0x0001_0000 && version != 0x4F54_544F && version != 0x7472_7565 {
            return Err(format!("sfnt version {version:#010x} is not 0x00010000 / 'OTTO' / 'true'"));
        }
        let n = u16at(data, 4)? as usize;
        let mut tables = Vec::with_capacity(n);
        for i in 0..n {
            let o = 12 + 16 * i;
            need(data, o, 16, "table record")?;
            tables.push(TableRec {
                tag: [data[o], data[o + 1], data[o + 2], data[o + 3]],
                checksum: u32at(data, o + 4)?,
                offset: u32at(data, o + 8)?,
                length: u32at(data, o + 12)?,
            });
        }
        Ok(Sfnt {
            data: data.to_vec(),
            version,
            search_range: u16at(data, 6)?,
            entry_selector: u16at(data, 8)?,
            range_shift: u16at(data, 10)?,
            tables,
        })
    }

    pub fn rec(&self, tag: &[u8; 4]) -> Option<&TableRec> {
        self.tables.iter().find(|t| &t.tag == tag)
    }
    pub fn has(&self, tag: &[u8; 4]) -> bool {
        self.rec(tag).is_some()
    }
    /// Table bytes (exactly `length` bytes), None when absent or out of bounds.
    pub fn table(&self, tag: &[u8; 4]) -> Option<&[u8]> {
        let r = self.rec(tag)?;
        let s = r.offset as usize;
        let e = s.checked_add(r.length as usize)?;
        self.data.get(s..e)
    }
    pub fn need_table(&self, tag: &[u8; 4]) -> R<&[u8]> {
        self.table(tag).ok_or_else(|| format!("table '{}' missing or out of bounds", tag_str(tag)))
    }

    /// otff "Table Directory": binary-search fields, ascending unique tags, 4-byte aligned
    /// offsets, tables inside the file, behind the directory and not overlapping.
    pub fn directory_problems(&self) -> Vec<String> {
        let mut p = Vec::new();
        let n = self.tables.len();
        if n == 0 {
            p.push("numTables = 0".into());
            return p;
        }
        let es = (usize::BITS - 1 - n.leading_zeros()) as u16; // floor(log2 n)
        let sr = (1u32 << es) * 16;
        if self.entry_selector != es {
            p.push(format!("entrySelector {} != floor(log2({n})) = {es}", self.entry_selector));
        }
        if self.search_range as u32 != sr {
            p.push(format!("searchRange {} != {sr}", self.search_range));
        }
        if self.range_shift as u32 != (n as u32) * 16 - sr {
            p.push(format!("rangeShift {} != {}", self.range_shift, (n as u32) * 16 - sr));
        }
        for w in self.tables.windows(2) {
            if w[0].tag >= w[1].tag {
                p.push(format!("table records not in ascending tag order: '{}' before '{}'", tag_str(&w[0].tag), tag_str(&w[1].tag)));
            }
        }
        let dir_end = 12 + 16 * n as u64;
        let mut spans: Vec<(u64, u64, String)> = Vec::new();
        for t in &self.tables {
            let s = t.offset as u64;
            let e = s + t.length as u64;
            let name = tag_str(&t.tag);
            if t.offset % 4 != 0 {
                p.push(format!("table '{name}' offset {s} not 4-byte aligned"));
            }
            if s < dir_end {
                p.push(format!("table '{name}' offset {s} inside the table directory (ends {dir_end})"));
            }
            if e > self.data.len() as u64 {
                p.push(format!("table '{name}' [{s},{e}) beyond file length {}", self.data.len()));
            }
            spans.push((s, e, name));
        }
        spans.sort();
        for w in spans.windows(2) {
            if w[1].0 < w[0].1 && w[0].1 > w[0].0 && w[1].1 > w[1].0 {
                p.push(format!("tables '{}' and '{}' overlap", w[0].2, w[1].2));
            }
        }
        p
    }

    /// Directory checksum of every table; `head` is summed with checkSumAdjustment taken as 0.
    pub fn checksum_problems(&self) -> Vec<String> {
        let mut p = Vec::new();
        for t in &self.tables {
            let Some(bytes) = self.table(&t.tag) else { continue };
            let want = if &t.tag == b"head" && bytes.len() >= 12 {
                let mut h = bytes.to_vec();
                h[8..12].fill(0);
                table_checksum(&h)
            } else {
                table_checksum(bytes)
            };
            if want != t.checksum {
                p.push(format!("table '{}' checksum {:#010x} in directory, computed {:#010x}", tag_str(&t.tag), t.checksum, want));
            }
        }
        p
    }

    /// Whole-file rule: with head.checkSumAdjustment = 0 the file sums to S and the field
    /// holds 0xB1B0AFBA - S. Returns (stored, expected).
    pub fn file_checksum(&self) -> R<(u32, u32)> {
        let r = self.rec(b"head").ok_or("no head table")?;
        let o = r.offset as usize + 8;
        let stored = u32at(&self.data, o)?;
        let mut d = self.data.clone();
        d[o..o + 4].fill(0);
        Ok((stored, 0xB1B0_AFBAu32.wrapping_sub(table_checksum(&d))))
    }
}

// ---------------------------------------------------------------------------------------
// glyph model

#[derive(Clone, Copy, Debug, PartialEq)]
pub struct Pt {
    pub x: f64,
    pub y: f64,
    pub on: bool,
}
pub type Contour = Vec<Pt>;
/// Flattened outline: contours of (x, y, on-curve) in font units.
pub type Outline = Vec<Contour>;

#[derive(Clone, Copy, Debug, PartialEq)]
pub enum CompArgs {
    /// ARGS_ARE_XY_VALUES: x/y offset
    Offset(i32, i32),
    /// point numbers: (point in the compound so far, point in the new component)
    Points(u16, u16),
}

#[derive(Clone, Debug, PartialEq)]
pub struct Component {
    pub flags: u16,
    pub gid: u16,
    pub args: CompArgs,
    /// a b c d as F2Dot14 raw values: x' = a*x + c*y + dx ; y' = b*x + d*y + dy
    pub xform: [i16; 4],
}

#[derive(Clone, Debug, PartialEq)]
pub enum Glyph {
    /// zero-length glyph (no outline)
    Empty,
    Simple { bbox: [i16; 4], contours: Vec<Vec<(i16, i16, bool)>>, instructions: usize, consumed: usize },
    Composite { bbox: [i16; 4], components: Vec<Component>, instructions: usize, consumed: usize },
}

pub const ARG_1_AND_2_ARE_WORDS: u16 = 0x0001;
pub const ARGS_ARE_XY_VALUES: u16 = 0x0002;
pub const WE_HAVE_A_SCALE: u16 = 0x0008;
pub const MORE_COMPONENTS: u16 = 0x0020;
pub const WE_HAVE_AN_X_AND_Y_SCALE: u16 = 0x0040;
pub const WE_HAVE_A_TWO_BY_TWO: u16 = 0x0080;
pub const WE_HAVE_INSTRUCTIONS: u16 = 0x0100;
pub const USE_MY_METRICS: u16 = 0x0200;
pub const SCALED_COMPONENT_OFFSET: u16 = 0x0800;
pub const UNSCALED_COMPONENT_OFFSET: u16 = 0x1000;

/// Decode one glyf entry (the bytes loca assigns to the glyph).
pub fn decode_glyph(g: &[u8]) -> R<Glyph> {
    if g.is_empty() {
        return Ok(Glyph::Empty);
    }
    need(g, 0, 10, "glyph header")?;
    let nc = i16at(g, 0)?;
    let bbox = [i16at(g, 2)?, i16at(g, 4)?, i16at(g, 6)?, i16at(g, 8)?];
    if nc >= 0 {
        let nc = nc as usize;
        let mut o = 10;
        let mut ends = Vec::with_capacity(nc);
        for _ in 0..nc {
            ends.push(u16at(g, o)? as usize);
            o += 2;
        }
        for w in ends.windows(2) {
            if w[1] <= w[0] {
                return Err(format!("endPtsOfContours not increasing: {ends:?}"));
            }
        }
        let ilen = u16at(g, o)? as usize;
        o += 2;
        need(g, o, ilen, "instructions")?;
        o += ilen;
        let npts = ends.last().map(|e| e + 1).unwrap_or(0);
        // flags
        let mut flags = Vec::with_capacity(npts);
        while flags.len() < npts {
            let f = u8at(g, o)?;
            o += 1;
            flags.push(f);
            if f & 0x08 != 0 {
                let rep = u8at(g, o)? as usize;
                o += 1;
                for _ in 0..rep {
                    flags.push(f);
                }
            }
        }
        if flags.len() != npts {
            return Err(format!("flag repeat overruns the point count: {} flags for {npts} points", flags.len()));
        }
        let mut xs = Vec::with_capacity(npts);
        let mut v = 0i32;
        for &f in &flags {
            if f & 0x02 != 0 {
                let d = u8at(g, o)? as i32;
                o += 1;
                v += if f & 0x10 != 0 { d } else { -d };
            } else if f & 0x10 == 0 {
                v += i16at(g, o)? as i32;
                o += 2;
            }
            xs.push(v);
        }
        let mut ys = Vec::with_capacity(npts);
        v = 0;
        for &f in &flags {
            if f & 0x04 != 0 {
                let d = u8at(g, o)? as i32;
                o += 1;
                v += if f & 0x20 != 0 { d } else { -d };
            } else if f & 0x20 == 0 {
                v += i16at(g, o)? as i32;
                o += 2;
            }
            ys.push(v);
        }
        let mut contours = Vec::with_capacity(nc);
        let mut start = 0;
        for &e in &ends {
            let mut c = Vec::with_capacity(e + 1 - start);
            for i in start..=e {
                let (x, y) = (xs[i], ys[i]);
                if x < i16::MIN as i32 || x > i16::MAX as i32 || y < i16::MIN as i32 || y > i16::MAX as i32 {
                    return Err(format!("point {i} coordinate ({x},{y}) outside int16"));
                }
                c.push((x as i16, y as i16, flags[i] & 1 != 0));
            }
            contours.push(c);
            start = e + 1;
        }
        Ok(Glyph::Simple { bbox, contours, instructions: ilen, consumed: o })
    } else {
        let mut o = 10;
        let mut components = Vec::new();
        let mut last_flags;
        loop {
            let flags = u16at(g, o)?;
            let gid = u16at(g, o + 2)?;
            o += 4;
            let args = if flags & ARG_1_AND_2_ARE_WORDS != 0 {
                let (a, b) = (u16at(g, o)?, u16at(g, o + 2)?);
                o += 4;
                if flags & ARGS_ARE_XY_VALUES != 0 {
                    CompArgs::Offset(a as i16 as i32, b as i16 as i32)
                } else {
                    CompArgs::Points(a, b)
                }
            } else {
                let (a, b) = (u8at(g, o)?, u8at(g, o + 1)?);
                o += 2;
                if flags & ARGS_ARE_XY_VALUES != 0 {
                    CompArgs::Offset(a as i8 as i32, b as i8 as i32)
                } else {
                    CompArgs::Points(a as u16, b as u16)
                }
            };
            const ONE: i16 = 0x4000;
            let xform = if flags & WE_HAVE_A_SCALE != 0 {
                let s = i16at(g, o)?;
                o += 2;
                [s, 0, 0, s]
            } else if flags & WE_HAVE_AN_X_AND_Y_SCALE != 0 {
                let (sx, sy) = (i16at(g, o)?, i16at(g, o + 2)?);
                o += 4;
                [sx, 0, 0, sy]
            } else if flags & WE_HAVE_A_TWO_BY_TWO != 0 {
                // order in the file: xscale, scale01, scale10, yscale
                let m = [i16at(g, o)?, i16at(g, o + 2)?, i16at(g, o + 4)?, i16at(g, o + 6)?];
                o += 8;
                m
            } else {
                [ONE, 0, 0, ONE]
            };
            components.push(Component { flags, gid, args, xform });
            last_flags = flags;
            if flags & MORE_COMPONENTS == 0 {
                break;
            }
        }
        let mut ilen = 0;
        if last_flags & WE_HAVE_INSTRUCTIONS != 0 {
            ilen = u16at(g, o)? as usize;
            o += 2;
            need(g, o, ilen, "composite instructions")?;
            o += ilen;
        }
        Ok(Glyph::Composite { bbox, components, instructions: ilen, consumed: o })
    }
}

// ---------------------------------------------------------------------------------------
// cmap

#[derive(Clone, Debug)]
pub struct CmapSub {
    pub platform: u16,
    pub encoding: u16,
    pub format: u16,
    /// offset of the subtable inside the cmap table
    pub offset: usize,
}

#[derive(Clone, Debug)]
pub struct Cmap {
    pub data: Vec<u8>,
    pub subs: Vec<CmapSub>,
}

impl Cmap {
    pub fn parse(t: &[u8]) -> R<Cmap> {
        let n = u16at(t, 2)? as usize;
        let mut subs = Vec::new();
        for i in 0..n {
            let o = 4 + 8 * i;
            let off = u32at(t, o + 4)? as usize;
            subs.push(CmapSub { platform: u16at(t, o)?, encoding: u16at(t, o + 2)?, format: u16at(t, off)?, offset: off });
        }
        Ok(Cmap { data: t.to_vec(), subs })
    }

    /// Glyph for a code in one subtable (0 = not mapped). Formats 4 and 12.
    pub fn lookup_in(&self, sub: &CmapSub, code: u32) -> R<u16> {
        let d = &self.data;
        let o = sub.offset;
        match sub.format {
            4 => {
                if code > 0xFFFF {
                    return Ok(0);
                }
                let c = code as u16;
                let segx2 = u16at(d, o + 6)? as usize;
                let seg = segx2 / 2;
                let end0 = o + 14;
                let start0 = end0 + segx2 + 2;
                let delta0 = start0 + segx2;
                let range0 = delta0 + segx2;
                for i in 0..seg {
                    let end = u16at(d, end0 + 2 * i)?;
                    if end >= c {
                        let start = u16at(d, start0 + 2 * i)?;
                        if start > c {
                            return Ok(0);
                        }
                        let delta = u16at(d, delta0 + 2 * i)?;
                        let ro = u16at(d, range0 + 2 * i)? as usize;
                        if ro == 0 {
                            return Ok(c.wrapping_add(delta));
                        }
                        let addr = range0 + 2 * i + ro + 2 * (c - start) as usize;
                        let g = u16at(d, addr)?;
                        return Ok(if g == 0 { 0 } else { g.wrapping_add(delta) });
                    }
                }
                Ok(0)
            }
            12 => {
                let ng = u32at(d, o + 12)? as usize;
                for i in 0..ng {
                    let g = o + 16 + 12 * i;
                    let (s, e, sg) = (u32at(d, g)?, u32at(d, g + 4)?, u32at(d, g + 8)?);
                    if code >= s && code <= e {
                        let gid = sg + (code - s);
                        return if gid > 0xFFFF { Err(format!("format 12 glyph {gid} > 65535")) } else { Ok(gid as u16) };
                    }
                }
                Ok(0)
            }
            f => Err(format!("cmap format {f} not supported by the reference reader")),
        }
    }

    /// Every (code, glyph != 0) pair of a subtable, ascending by code.
    pub fn mappings(&self, sub: &CmapSub) -> R<Vec<(u32, u16)>> {
        let d = &self.data;
        let o = sub.offset;
        let mut out = Vec::new();
        match sub.format {
            4 => {
                let segx2 = u16at(d, o + 6)? as usize;
                let end0 = o + 14;
                let start0 = end0 + segx2 + 2;
                for i in 0..segx2 / 2 {
                    let end = u16at(d, end0 + 2 * i)? as u32;
                    let start = u16at(d, start0 + 2 * i)? as u32;
                    for c in start..=end {
                        let g = self.lookup_in(sub, c)?;
                        if g != 0 {
                            out.push((c, g));
                        }
                    }
                }
            }
            12 => {
                let ng = u32at(d, o + 12)? as usize;
                for i in 0..ng {
                    let g = o + 16 + 12 * i;
                    let (s, e, sg) = (u32at(d, g)?, u32at(d, g + 4)?, u32at(d, g + 8)?);
                    for c in s..=e {
                        let gid = sg + (c - s);
                        if gid != 0 {
                            out.push((c, gid as u16));
                        }
                    }
                }
            }
            f => return Err(format!("cmap format {f} not supported")),
        }
        out.sort();
        Ok(out)
    }

    /// The Unicode subtable a consumer would use: full-repertoire (3,10)/(0,4)/(0,6) first,
    /// then BMP (3,1)/(0,0..3); only formats 4 and 12 are considered.
    pub fn unicode_sub(&self) -> Option<&CmapSub> {
        let rank = |s: &CmapSub| -> Option<u8> {
            if s.format != 4 && s.format != 12 {
                return None;
            }
            match (s.platform, s.encoding) {
                (3, 10) => Some(0),
                (0, 4) | (0, 6) => Some(1),
                (3, 1) => Some(2),
                (0, 0..=3) => Some(3),
                _ => None,
            }
        };
        self.subs.iter().filter_map(|s| rank(s).map(|r| (r, s))).min_by_key(|(r, _)| *r).map(|(_, s)| s)
    }

    /// Glyph the font maps a Unicode scalar to (0 = not mapped).
    pub fn unicode_lookup(&self, cp: u32) -> R<u16> {
        let s = self.unicode_sub().ok_or("no Unicode cmap subtable (format 4/12)")?;
        self.lookup_in(s, cp)
    }
}

// ---------------------------------------------------------------------------------------
// Font

#[derive(Clone, Debug)]
pub struct Font {
    pub sfnt: Sfnt,
    pub units_per_em: u16,
    pub index_to_loc_format: i16,
    pub num_glyphs: u16,
    pub num_h_metrics: u16,
    /// numGlyphs+1 byte offsets into glyf (present for glyf-flavoured fonts)
    pub loca: Option<Vec<u32>>,
}

impl Font {
    pub fn parse(data: &[u8]) -> R<Font> {
        let sfnt = Sfnt::parse(data)?;
        let head = sfnt.need_table(b"head")?;
        need(head, 0, 54, "head")?;
        if u32at(head, 12)? != 0x5F0F_3CF5 {
            return Err(format!("head.magicNumber {:#010x}", u32at(head, 12)?));
        }
        let units_per_em = u16at(head, 18)?;
        let index_to_loc_format = i16at(head, 50)?;
        let maxp = sfnt.need_table(b"maxp")?;
        let num_glyphs = u16at(maxp, 4)?;
        let hhea = sfnt.need_table(b"hhea")?;
        need(hhea, 0, 36, "hhea")?;
        let num_h_metrics = u16at(hhea, 34)?;
        let loca = if sfnt.has(b"glyf") {
            let l = sfnt.need_table(b"loca")?;
            let n = num_glyphs as usize + 1;
            let mut v = Vec::with_capacity(n);
            match index_to_loc_format {
                0 => {
                    for i in 0..n {
                        v.push(u16at(l, 2 * i).map_err(|e| format!("loca (short) entry {i}: {e}"))? as u32 * 2);
                    }
                }
                1 => {
                    for i in 0..n {
                        v.push(u32at(l, 4 * i).map_err(|e| format!("loca (long) entry {i}: {e}"))?);
                    }
                }
                f => return Err(format!("head.indexToLocFormat = {f}")),
            }
            Some(v)
        } else {
            None
        };
        Ok(Font { sfnt, units_per_em, index_to_loc_format, num_glyphs, num_h_metrics, loca })
    }

    pub fn is_glyf(&self) -> bool {
        self.loca.is_some()
    }

    /// hmtx: advance width of a glyph (glyphs past numberOfHMetrics repeat the last one).
    pub fn advance(&self, gid: u16) -> R<u16> {
        if gid >= self.num_glyphs {
            return Err(format!("glyph {gid} >= numGlyphs {}", self.num_glyphs));
        }
        if self.num_h_metrics == 0 {
            return Err("hhea.numberOfHMetrics = 0".into());
        }
        let h = self.sfnt.need_table(b"hmtx")?;
        let i = gid.min(self.num_h_metrics - 1) as usize;
        u16at(h, 4 * i).map_err(|e| format!("hmtx advance of glyph {gid}: {e}"))
    }
    pub fn lsb(&self, gid: u16) -> R<i16> {
        if gid >= self.num_glyphs {
            return Err(format!("glyph {gid} >= numGlyphs {}", self.num_glyphs));
        }
        let h = self.sfnt.need_table(b"hmtx")?;
        let n = self.num_h_metrics as usize;
        let g = gid as usize;
        if g < n {
            i16at(h, 4 * g + 2)
        } else {
            i16at(h, 4 * n + 2 * (g - n))
        }
    }

    /// Bytes loca assigns to a glyph.
    pub fn glyph_bytes(&self, gid: u16) -> R<&[u8]> {
        let loca = self.loca.as_ref().ok_or("font has no glyf/loca")?;
        if gid >= self.num_glyphs {
            return Err(format!("glyph {gid} >= numGlyphs {}", self.num_glyphs));
        }
        let (s, e) = (loca[gid as usize] as usize, loca[gid as usize + 1] as usize);
        if e < s {
            return Err(format!("loca not monotone at glyph {gid}: {s} > {e}"));
        }
        let glyf = self.sfnt.need_table(b"glyf")?;
        glyf.get(s..e).ok_or_else(|| format!("glyph {gid} [{s},{e}) beyond glyf length {}", glyf.len()))
    }
    pub fn glyph(&self, gid: u16) -> R<Glyph> {
        decode_glyph(self.glyph_bytes(gid)?).map_err(|e| format!("glyph {gid}: {e}"))
    }

    /// Outline with composites resolved recursively under the component transforms.
    pub fn flatten(&self, gid: u16) -> R<Outline> {
        let mut stack = Vec::new();
        self.flatten_rec(gid, &mut stack)
    }

    fn flatten_rec(&self, gid: u16, stack: &mut Vec<u16>) -> R<Outline> {
        if stack.contains(&gid) {
            return Err(format!("composite cycle through glyph {gid}: {stack:?}"));
        }
        if stack.len() > 32 {
            return Err(format!("composite nesting deeper than 32: {stack:?}"));
        }
        match self.glyph(gid)? {
            Glyph::Empty => Ok(Vec::new()),
            Glyph::Simple { contours, .. } => Ok(contours
                .into_iter()
                .map(|c| c.into_iter().map(|(x, y, on)| Pt { x: x as f64, y: y as f64, on }).collect())
                .collect()),
            Glyph::Composite { components, .. } => {
                stack.push(gid);
                let mut out: Outline = Vec::new();
                for comp in &components {
                    let child = self.flatten_rec(comp.gid, stack).map_err(|e| format!("component {} of {gid}: {e}", comp.gid))?;
                    let f = |v: i16| v as f64 / 16384.0;
                    let (a, b, c, d) = (f(comp.xform[0]), f(comp.xform[1]), f(comp.xform[2]), f(comp.xform[3]));
                    let mut tc: Outline = child
                        .iter()
                        .map(|ct| ct.iter().map(|p| Pt { x: a * p.x + c * p.y, y: b * p.x + d * p.y, on: p.on }).collect())
                        .collect();
                    let (dx, dy) = match comp.args {
                        CompArgs::Offset(x, y) => {
                            let (x, y) = (x as f64, y as f64);
                            if comp.flags & SCALED_COMPONENT_OFFSET != 0 && comp.flags & UNSCALED_COMPONENT_OFFSET == 0 {
                                // offset vector goes through the component's matrix as well
                                (a * x + c * y, b * x + d * y)
                            } else {
                                (x, y)
                            }
                        }
                        CompArgs::Points(pp, cp) => {
                            let parent = out.iter().flatten().nth(pp as usize).copied().ok_or_else(|| {
                                format!("glyph {gid}: matching point {pp} not in the compound so far")
                            })?;
                            let ch = tc.iter().flatten().nth(cp as usize).copied().ok_or_else(|| {
                                format!("glyph {gid}: matching point {cp} not in component {}", comp.gid)
                            })?;
                            (parent.x - ch.x, parent.y - ch.y)
                        }
                    };
                    for ct in tc.iter_mut() {
                        for p in ct.iter_mut() {
                            p.x += dx;
                            p.y += dy;
                        }
                    }
                    out.extend(tc);
                }
                stack.pop();
                Ok(out)
            }
        }
    }

    /// Every glyph reachable from `gid` through composite references (including itself).
    pub fn closure(&self, gid: u16) -> R<Vec<u16>> {
        let mut seen = vec![gid];
        let mut i = 0;
        while i < seen.len() {
            if let Glyph::Composite { components, .. } = self.glyph(seen[i])? {
                for c in components {
                    if !seen.contains(&c.gid) {
                        if seen.len() > 4096 {
                            return Err("composite closure too large".into());
                        }
                        seen.push(c.gid);
                    }
                }
            }
            i += 1;
        }
        Ok(seen)
    }

    pub fn cmap(&self) -> R<Cmap> {
        Cmap::parse(self.sfnt.need_table(b"cmap")?)
    }

    /// Cross-table consistency required of a glyf-flavoured font: loca length and
    /// monotonicity, last offset inside glyf, short offsets even, hmtx length, metric counts.
    pub fn structure_problems(&self) -> Vec<String> {
        let mut p = Vec::new();
        let n = self.num_glyphs as usize;
        if n == 0 {
            p.push("maxp.numGlyphs = 0".into());
        }
        if let Some(loca) = &self.loca {
            let lt = self.sfnt.table(b"loca").map(|t| t.len()).unwrap_or(0);
            let want = (n + 1) * if self.index_to_loc_format == 0 { 2 } else { 4 };
            if lt != want {
                p.push(format!("loca length {lt} != (numGlyphs+1) entries = {want}"));
            }
            for (i, w) in loca.windows(2).enumerate() {
                if w[1] < w[0] {
                    p.push(format!("loca not monotone at glyph {i}: {} > {}", w[0], w[1]));
                    break;
                }
            }
            let gl = self.sfnt.table(b"glyf").map(|t| t.len()).unwrap_or(0);
            if let Some(&last) = loca.last() {
                if last as usize > gl {
                    p.push(format!("last loca offset {last} beyond glyf length {gl}"));
                }
            }
        }
        let nh = self.num_h_metrics as usize;
        if nh == 0 || nh > n {
            p.push(format!("hhea.numberOfHMetrics {nh} not in 1..=numGlyphs {n}"));
        } else {
            let ht = self.sfnt.table(b"hmtx").map(|t| t.len()).unwrap_or(0);
            let want = 4 * nh + 2 * (n - nh);
            if ht < want {
                p.push(format!("hmtx length {ht} < 4*numberOfHMetrics + 2*(numGlyphs-numberOfHMetrics) = {want}"));
            }
        }
        if let Some(maxp) = self.sfnt.table(b"maxp") {
            let v = u32at(maxp, 0).unwrap_or(0);
            let want_len = if v == 0x0001_0000 { 32 } else { 6 };
            if maxp.len() < want_len {
                p.push(format!("maxp version {v:#x} length {} < {want_len}", maxp.len()));
            }
        }
        p
    }
}

/// Order-preserving hash input of an outline (bit patterns of the coordinates).
pub fn outline_words(o: &Outline) -> Vec<u64> {
    let mut w = Vec::new();
    for c in o {
        w.push(0xC0C0_C0C0_0000_0000 | c.len() as u64);
        for p in c {
            w.push(p.x.to_bits());
            w.push(p.y.to_bits());
            w.push(p.on as u64);
        }
    }
    w
}

/// First difference between two outlines, None when equal.
pub fn outline_diff(a: &Outline, b: &Outline) -> Option<String> {
    if a.len() != b.len() {
        return Some(format!("{} contours vs {}", a.len(), b.len()));
    }
    for (i, (ca, cb)) in a.iter().zip(b).enumerate() {
        if ca.len() != cb.len() {
            return Some(format!("contour {i}: {} points vs {}", ca.len(), cb.len()));
        }
        for (j, (pa, pb)) in ca.iter().zip(cb).enumerate() {
            if pa != pb {
                return Some(format!("contour {i} point {j}: ({},{},{}) vs ({},{},{})", pa.x, pa.y, pa.on, pb.x, pb.y, pb.on));
            }
        }
    }
    None
}

// ---------------------------------------------------------------------------------------
// synthetic TrueType fonts

pub mod synth {
    //! Writer for small TrueType fonts (<= a handful of glyphs) used as check inputs:
    //! simple and composite glyphs with every argument / transform form, optional
    //! instructions, short or long loca, shared trailing advance widths, cmap format 4
    //! (+ optional format 12), correct checksums. `expected_outline` computes the
    //! flattened outline directly from the specification, without going through bytes.
    use super::*;

    #[derive(Clone, Debug)]
    pub enum Arg {
        XyBytes(i8, i8),
        XyWords(i16, i16),
        PtBytes(u8, u8),
        PtWords(u16, u16),
    }
    #[derive(Clone, Debug)]
    pub enum Xform {
        None,
        Scale(i16),
        XY(i16, i16),
        /// xscale, scale01, scale10, yscale
        TwoByTwo(i16, i16, i16, i16),
    }
    #[derive(Clone, Debug)]
    pub struct Comp {
        pub gid: u16,
        pub arg: Arg,
        pub xform: Xform,
        /// extra flag bits OR-ed in (USE_MY_METRICS, SCALED/UNSCALED_COMPONENT_OFFSET, ROUND_XY_TO_GRID ...)
        pub extra_flags: u16,
    }
    #[derive(Clone, Debug)]
    pub enum Body {
        Empty,
        Simple { contours: Vec<Vec<(i16, i16, bool)>>, instructions: Vec<u8> },
        Composite { comps: Vec<Comp>, instructions: Vec<u8> },
    }
    #[derive(Clone, Debug)]
    pub struct SGlyph {
        pub advance: u16,
        pub lsb: i16,
        pub body: Body,
    }
    #[derive(Clone, Debug)]
    pub struct SFont {
        pub units_per_em: u16,
        pub long_loca: bool,
        pub glyphs: Vec<SGlyph>,
        /// hhea.numberOfHMetrics (1..=glyphs.len()); glyphs past it share the last advance
        pub num_h_metrics: u16,
        /// (code point, gid), any order; format 4 gets the BMP part, format 12 (if `cmap12`) all
        pub cmap: Vec<(u32, u16)>,
        pub cmap12: bool,
        /// length of an extra private table 'zzzz' (to push the file past a size threshold)
        pub pad_table: usize,
    }

    impl SFont {
        /// Advance the written font declares for a glyph.
        pub fn file_advance(&self, gid: u16) -> u16 {
            let i = (gid as usize).min(self.num_h_metrics as usize - 1);
            self.glyphs[i].advance
        }

        /// Flattened outline computed from the specification.
        pub fn expected_outline(&self, gid: u16) -> R<Outline> {
            self.exp_rec(gid, 0)
        }
        fn exp_rec(&self, gid: u16, depth: usize) -> R<Outline> {
            if depth > 32 {
                return Err("too deep".into());
            }
            let g = self.glyphs.get(gid as usize).ok_or(format!("no glyph {gid}"))?;
            match &g.body {
                Body::Empty => Ok(vec![]),
                Body::Simple { contours, .. } => Ok(contours
                    .iter()
                    .map(|c| c.iter().map(|&(x, y, on)| Pt { x: x as f64, y: y as f64, on }).collect())
                    .collect()),
                Body::Composite { comps, .. } => {
                    let mut out: Outline = vec![];
                    for c in comps {
                        let child = self.exp_rec(c.gid, depth + 1)?;
                        let q = |v: i16| v as f64 / 16384.0;
                        let (a, b, cc, d) = match c.xform {
                            Xform::None => (1.0, 0.0, 0.0, 1.0),
                            Xform::Scale(s) => (q(s), 0.0, 0.0, q(s)),
                            Xform::XY(sx, sy) => (q(sx), 0.0, 0.0, q(sy)),
                            Xform::TwoByTwo(m0, m1, m2, m3) => (q(m0), q(m1), q(m2), q(m3)),
                        };
                        let mut t: Outline = child
                            .iter()
                            .map(|ct| ct.iter().map(|p| Pt { x: a * p.x + cc * p.y, y: b * p.x + d * p.y, on: p.on }).collect())
                            .collect();
                        let scaled = c.extra_flags & SCALED_COMPONENT_OFFSET != 0 && c.extra_flags & UNSCALED_COMPONENT_OFFSET == 0;
                        let (dx, dy) = match c.arg {
                            Arg::XyBytes(x, y) => (x as f64, y as f64),
                            Arg::XyWords(x, y) => (x as f64, y as f64),
                            Arg::PtBytes(p, q2) => {
                                let pp = out.iter().flatten().nth(p as usize).copied().ok_or("bad parent point")?;
                                let cp = t.iter().flatten().nth(q2 as usize).copied().ok_or("bad child point")?;
                                (pp.x - cp.x, pp.y - cp.y)
                            }
                            Arg::PtWords(p, q2) => {
                                let pp = out.iter().flatten().nth(p as usize).copied().ok_or("bad parent point")?;
                                let cp = t.iter().flatten().nth(q2 as usize).copied().ok_or("bad child point")?;
                                (pp.x - cp.x, pp.y - cp.y)
                            }
                        };
                        let is_xy = matches!(c.arg, Arg::XyBytes(..) | Arg::XyWords(..));
                        let (dx, dy) = if is_xy && scaled { (a * dx + cc * dy, b * dx + d * dy) } else { (dx, dy) };
                        for ct in t.iter_mut() {
                            for p in ct.iter_mut() {
                                p.x += dx;
                                p.y += dy;
                            }
                        }
                        out.extend(t);
                    }
                    Ok(out)
                }
            }
        }

        fn bbox(&self, gid: u16) -> [i16; 4] {
            let o = self.expected_outline(gid).unwrap_or_default();
            let pts: Vec<&Pt> = o.iter().flatten().collect();
            if pts.is_empty() {
                return [0; 4];
            }
            let f = |it: &mut dyn Iterator<Item = f64>, max: bool| -> i16 {
                let v = if max { it.fold(f64::MIN, f64::max).ceil() } else { it.fold(f64::MAX, f64::min).floor() };
                v as i16
            };
            [
                f(&mut pts.iter().map(|p| p.x), false),
                f(&mut pts.iter().map(|p| p.y), false),
                f(&mut pts.iter().map(|p| p.x), true),
                f(&mut pts.iter().map(|p| p.y), true),
            ]
        }

        fn glyph_bytes(&self, gid: u16) -> Vec<u8> {
            let g = &self.glyphs[gid as usize];
            let mut o = Vec::new();
            let bb = self.bbox(gid);
            match &g.body {
                Body::Empty => {}
                Body::Simple { contours, instructions } => {
                    o.extend((contours.len() as i16).to_be_bytes());
                    for v in bb {
                        o.extend(v.to_be_bytes());
                    }
                    let mut e = 0usize;
                    for c in contours {
                        e += c.len();
                        o.extend(((e - 1) as u16).to_be_bytes());
                    }
                    o.extend((instructions.len() as u16).to_be_bytes());
                    o.extend(instructions);
                    // flags / coordinates: short vectors when they fit, "same" when delta is 0,
                    // repeat counts for runs of equal flags
                    let pts: Vec<(i16, i16, bool)> = contours.iter().flatten().copied().collect();
                    let mut flags = Vec::new();
                    let mut xb = Vec::new();
                    let mut yb = Vec::new();
                    let (mut px, mut py) = (0i32, 0i32);
                    for &(x, y, on) in &pts {
                        let mut f = on as u8;
                        let dx = x as i32 - px;
                        let dy = y as i32 - py;
                        if dx == 0 {
                            f |= 0x10;
                        } else if dx.abs() < 256 {
                            f |= 0x02 | if dx > 0 { 0x10 } else { 0 };
                            xb.push(dx.unsigned_abs() as u8);
                        } else {
                            xb.extend((dx as i16).to_be_bytes());
                        }
                        if dy == 0 {
                            f |= 0x20;
                        } else if dy.abs() < 256 {
                            f |= 0x04 | if dy > 0 { 0x20 } else { 0 };
                            yb.push(dy.unsigned_abs() as u8);
                        } else {
                            yb.extend((dy as i16).to_be_bytes());
                        }
                        flags.push(f);
                        px = x as i32;
                        py = y as i32;
                    }
                    let mut i = 0;
                    while i < flags.len() {
                        let f = flags[i];
                        let mut run = 1;
                        while i + run < flags.len() && flags[i + run] == f && run < 256 {
                            run += 1;
                        }
                        if run >= 3 {
                            o.push(f | 0x08);
                            o.push((run - 1) as u8);
                        } else {
                            for _ in 0..run {
                                o.push(f);
                            }
                        }
                        i += run;
                    }
                    o.extend(xb);
                    o.extend(yb);
                }
                Body::Composite { comps, instructions } => {
                    o.extend((-1i16).to_be_bytes());
                    for v in bb {
                        o.extend(v.to_be_bytes());
                    }
                    for (i, c) in comps.iter().enumerate() {
                        let mut f = c.extra_flags;
                        if i + 1 < comps.len() {
                            f |= MORE_COMPONENTS;
                        } else if !instructions.is_empty() {
                            f |= WE_HAVE_INSTRUCTIONS;
                        }
                        let mut ab = Vec::new();
                        match c.arg {
                            Arg::XyBytes(x, y) => {
                                f |= ARGS_ARE_XY_VALUES;
                                ab.push(x as u8);
                                ab.push(y as u8);
                            }
                            Arg::XyWords(x, y) => {
                                f |= ARGS_ARE_XY_VALUES | ARG_1_AND_2_ARE_WORDS;
                                ab.extend(x.to_be_bytes());
                                ab.extend(y.to_be_bytes());
                            }
                            Arg::PtBytes(p, q) => {
                                ab.push(p);
                                ab.push(q);
                            }
                            Arg::PtWords(p, q) => {
                                f |= ARG_1_AND_2_ARE_WORDS;
                                ab.extend(p.to_be_bytes());
                                ab.extend(q.to_be_bytes());
                            }
                        }
                        let mut tb = Vec::new();
                        match c.xform {
                            Xform::None => {}
                            Xform::Scale(s) => {
                                f |= WE_HAVE_A_SCALE;
                                tb.extend(s.to_be_bytes());
                            }
                            Xform::XY(a, d) => {
                                f |= WE_HAVE_AN_X_AND_Y_SCALE;
                                tb.extend(a.to_be_bytes());
                                tb.extend(d.to_be_bytes());
                            }
                            Xform::TwoByTwo(a, b, c2, d) => {
                                f |= WE_HAVE_A_TWO_BY_TWO;
                                for v in [a, b, c2, d] {
                                    tb.extend(v.to_be_bytes());
                                }
                            }
                        }
                        o.extend(f.to_be_bytes());
                        o.extend(c.gid.to_be_bytes());
                        o.extend(ab);
                        o.extend(tb);
                    }
                    if !instructions.is_empty() {
                        o.extend((instructions.len() as u16).to_be_bytes());
                        o.extend(instructions);
                    }
                }
            }
            o
        }

        fn cmap_table(&self) -> Vec<u8> {
            let mut m: Vec<(u32, u16)> = self.cmap.clone();
            m.sort();
            m.dedup_by_key(|e| e.0);
            // format 4: one segment per run of consecutive codes with consecutive glyphs
            let bmp: Vec<(u16, u16)> = m.iter().filter(|e| e.0 < 0xFFFF).map(|e| (e.0 as u16, e.1)).collect();
            let mut segs: Vec<(u16, u16, u16)> = Vec::new(); // start, end, delta
            for &(c, g) in &bmp {
                let delta = g.wrapping_sub(c);
                match segs.last_mut() {
                    Some(s) if s.1.wrapping_add(1) == c && s.2 == delta => s.1 = c,
                    _ => segs.push((c, c, delta)),
                }
            }
            segs.push((0xFFFF, 0xFFFF, 1));
            let n = segs.len();
            let mut f4 = Vec::new();
            f4.extend(4u16.to_be_bytes());
            f4.extend(((16 + 8 * n) as u16).to_be_bytes());
            f4.extend(0u16.to_be_bytes());
            f4.extend(((2 * n) as u16).to_be_bytes());
            let es = (usize::BITS - 1 - n.leading_zeros()) as u16;
            let sr = 2 * (1u16 << es);
            f4.extend(sr.to_be_bytes());
            f4.extend(es.to_be_bytes());
            f4.extend(((2 * n) as u16 - sr).to_be_bytes());
            for s in &segs {
                f4.extend(s.1.to_be_bytes());
            }
            f4.extend(0u16.to_be_bytes());
            for s in &segs {
                f4.extend(s.0.to_be_bytes());
            }
            for s in &segs {
                f4.extend(s.2.to_be_bytes());
            }
            for _ in &segs {
                f4.extend(0u16.to_be_bytes());
            }
            let mut f12 = Vec::new();
            if self.cmap12 {
                let mut groups: Vec<(u32, u32, u32)> = Vec::new();
                for &(c, g) in &m {
                    match groups.last_mut() {
                        Some(gr) if gr.1 + 1 == c && gr.2 + (gr.1 - gr.0) + 1 == g as u32 => gr.1 = c,
                        _ => groups.push((c, c, g as u32)),
                    }
                }
                f12.extend(12u16.to_be_bytes());
                f12.extend(0u16.to_be_bytes());
                f12.extend(((16 + 12 * groups.len()) as u32).to_be_bytes());
                f12.extend(0u32.to_be_bytes());
                f12.extend((groups.len() as u32).to_be_bytes());
                for g in groups {
                    f12.extend(g.0.to_be_bytes());
                    f12.extend(g.1.to_be_bytes());
                    f12.extend(g.2.to_be_bytes());
                }
            }
            let nsub = if self.cmap12 { 2u16 } else { 1 };
            let mut t = Vec::new();
            t.extend(0u16.to_be_bytes());
            t.extend(nsub.to_be_bytes());
            let first = 4 + 8 * nsub as u32;
            t.extend(3u16.to_be_bytes());
            t.extend(1u16.to_be_bytes());
            t.extend(first.to_be_bytes());
            if self.cmap12 {
                t.extend(3u16.to_be_bytes());
                t.extend(10u16.to_be_bytes());
                t.extend((first + f4.len() as u32).to_be_bytes());
            }
            t.extend(f4);
            t.extend(f12);
            t
        }

        /// Serialise to a complete .ttf file.
        pub fn build(&self) -> Vec<u8> {
            let n = self.glyphs.len();
            assert!(n >= 1 && self.num_h_metrics >= 1 && self.num_h_metrics as usize <= n);
            // glyf + loca
            let mut glyf = Vec::new();
            let mut offs = Vec::with_capacity(n + 1);
            for g in 0..n {
                offs.push(glyf.len() as u32);
                glyf.extend(self.glyph_bytes(g as u16));
                // short loca needs even offsets; long loca fonts are padded to 4 like most tools do
                let al = if self.long_loca { 4 } else { 2 };
                while glyf.len() % al != 0 {
                    glyf.push(0);
                }
            }
            offs.push(glyf.len() as u32);
            let mut loca = Vec::new();
            for &o in &offs {
                if self.long_loca {
                    loca.extend(o.to_be_bytes());
                } else {
                    assert!(o % 2 == 0 && o / 2 <= 0xFFFF);
                    loca.extend(((o / 2) as u16).to_be_bytes());
                }
            }
            // hmtx
            let nh = self.num_h_metrics as usize;
            let mut hmtx = Vec::new();
            for (i, g) in self.glyphs.iter().enumerate() {
                if i < nh {
                    hmtx.extend(g.advance.to_be_bytes());
                }
                hmtx.extend(g.lsb.to_be_bytes());
            }
            // font bbox
            let mut fb = [i16::MAX, i16::MAX, i16::MIN, i16::MIN];
            for g in 0..n {
                if !matches!(self.glyphs[g].body, Body::Empty) {
                    let b = self.bbox(g as u16);
                    fb = [fb[0].min(b[0]), fb[1].min(b[1]), fb[2].max(b[2]), fb[3].max(b[3])];
                }
            }
            if fb[0] == i16::MAX {
                fb = [0; 4];
            }
            // head
            let mut head = Vec::new();
            head.extend(0x0001_0000u32.to_be_bytes()); // version
            head.extend(0x0001_0000u32.to_be_bytes()); // fontRevision
            head.extend(0u32.to_be_bytes()); // checkSumAdjustment (filled in last)
            head.extend(0x5F0F_3CF5u32.to_be_bytes());
            head.extend(0x000Bu16.to_be_bytes()); // flags
            head.extend(self.units_per_em.to_be_bytes());
            head.extend([0u8; 16]); // created, modified
            for v in fb {
                head.extend(v.to_be_bytes());
            }
            head.extend(0u16.to_be_bytes()); // macStyle
            head.extend(8u16.to_be_bytes()); // lowestRecPPEM
            head.extend(2i16.to_be_bytes()); // fontDirectionHint
            head.extend((self.long_loca as i16).to_be_bytes());
            head.extend(0i16.to_be_bytes()); // glyphDataFormat
            assert_eq!(head.len(), 54);
            // hhea
            let mut hhea = Vec::new();
            hhea.extend(0x0001_0000u32.to_be_bytes());
            hhea.extend(fb[3].max(0).to_be_bytes()); // ascender
            hhea.extend(fb[1].min(0).to_be_bytes()); // descender
            hhea.extend(0i16.to_be_bytes()); // lineGap
            hhea.extend(self.glyphs.iter().map(|g| g.advance).max().unwrap_or(0).to_be_bytes());
            hhea.extend([0u8; 6]); // minLSB, minRSB, xMaxExtent
            hhea.extend(1i16.to_be_bytes()); // caretSlopeRise
            hhea.extend([0u8; 12]); // caretSlopeRun, caretOffset, 4 reserved
            hhea.extend(0i16.to_be_bytes()); // metricDataFormat
            hhea.extend(self.num_h_metrics.to_be_bytes());
            assert_eq!(hhea.len(), 36);
            // maxp 1.0
            let mut maxp = Vec::new();
            maxp.extend(0x0001_0000u32.to_be_bytes());
            maxp.extend((n as u16).to_be_bytes());
            for v in [64u16, 8, 128, 16, 2, 0, 0, 0, 0, 64, 64, 8, 4] {
                maxp.extend(v.to_be_bytes());
            }
            assert_eq!(maxp.len(), 32);
            // post 3.0
            let mut post = Vec::new();
            post.extend(0x0003_0000u32.to_be_bytes());
            post.extend([0u8; 28]);
            // name: one record (postscript name, Mac Roman)
            let psname = b"VerifSynth";
            let mut name = Vec::new();
            name.extend(0u16.to_be_bytes());
            name.extend(1u16.to_be_bytes());
            name.extend(18u16.to_be_bytes());
            for v in [1u16, 0, 0, 6, psname.len() as u16, 0] {
                name.extend(v.to_be_bytes());
            }
            name.extend(psname);
            let cmap = self.cmap_table();
            let mut tables: Vec<([u8; 4], Vec<u8>)> = vec![
                (*b"cmap", cmap),
                (*b"glyf", glyf),
                (*b"head", head),
                (*b"hhea", hhea),
                (*b"hmtx", hmtx),
                (*b"loca", loca),
                (*b"maxp", maxp),
                (*b"name", name),
                (*b"post", post),
            ];
            if self.pad_table > 0 {
                let pad: Vec<u8> = (0..self.pad_table).map(|i| (i * 31 % 251) as u8).collect();
                tables.push((*b"zzzz", pad));
            }
            tables.sort_by(|a, b| a.0.cmp(&b.0));
            assemble_sfnt(0x0001_0000, &tables)
        }
    }

    /// Lay out an sfnt from (tag, bytes) pairs given in ascending tag order, computing all
    /// checksums and head.checkSumAdjustment.
    pub fn assemble_sfnt(version: u32, tables: &[([u8; 4], Vec<u8>)]) -> Vec<u8> {
        let n = tables.len();
        let es = (usize::BITS - 1 - n.leading_zeros()) as u16;
        let sr = (1u16 << es) * 16;
        let mut out = Vec::new();
        out.extend(version.to_be_bytes());
        out.extend((n as u16).to_be_bytes());
        out.extend(sr.to_be_bytes());
        out.extend(es.to_be_bytes());
        out.extend(((n as u16) * 16 - sr).to_be_bytes());
        let mut off = 12 + 16 * n;
        let mut head_off = None;
        for (tag, data) in tables {
            out.extend(tag);
            out.extend(table_checksum(data).to_be_bytes());
            out.extend((off as u32).to_be_bytes());
            out.extend((data.len() as u32).to_be_bytes());
            if tag == b"head" {
                head_off = Some(off);
            }
            off += (data.len() + 3) & !3;
        }
        for (_, data) in tables {
            out.extend(data);
            while out.len() % 4 != 0 {
                out.push(0);
            }
        }
        if let Some(h) = head_off {
            let adj = 0xB1B0_AFBAu32.wrapping_sub(table_checksum(&out));
            out[h + 8..h + 12].copy_from_slice(&adj.to_be_bytes());
        }
        out
    }
}

#[cfg(test)]
mod tests {
    use super::synth::*;
    use super::*;

    fn bundled(name: &str) -> Vec<u8> {
        let root = std::env::var("VERIF_REPO").unwrap_or_else(|_| "/repo".into());
        std::fs::read(format!("{root}/test-pdfs/{name}")).expect("bundled font")
    }

    #[test]
    fn checksum_rule_small() {
        assert_eq!(table_checksum(&[0, 1, 2, 3, 4, 5]), 0x00010203u32.wrapping_add(0x04050000));
        assert_eq!(table_checksum(&[0xFF; 8]), 0xFFFF_FFFE);
    }

    fn check_sfnt(name: &str) -> Font {
        let data = bundled(name);
        let f = Font::parse(&data).unwrap();
        assert_eq!(f.sfnt.directory_problems(), Vec::<String>::new(), "{name} directory");
        assert_eq!(f.sfnt.checksum_problems(), Vec::<String>::new(), "{name} table checksums");
        let (stored, want) = f.sfnt.file_checksum().unwrap();
        assert_eq!(stored, want, "{name} checkSumAdjustment");
        assert_eq!(f.structure_problems(), Vec::<String>::new(), "{name} structure");
        f
    }

    #[test]
    fn roboto_every_glyph_decodes_and_bbox_matches() {
        let f = check_sfnt("Roboto-Regular.ttf");
        assert!(f.is_glyf());
        let (mut simple, mut comp, mut empty, mut scaled, mut nested) = (0, 0, 0, 0, 0);
        for gid in 0..f.num_glyphs {
            let bytes_len = f.glyph_bytes(gid).unwrap().len();
            let g = f.glyph(gid).unwrap();
            let bbox = match &g {
                Glyph::Empty => {
                    empty += 1;
                    continue;
                }
                Glyph::Simple { bbox, consumed, .. } => {
                    simple += 1;
                    assert!(*consumed <= bytes_len && bytes_len - consumed < 4, "glyph {gid}: consumed {consumed} of {bytes_len}");
                    *bbox
                }
                Glyph::Composite { bbox, components, consumed, .. } => {
                    comp += 1;
                    assert!(*consumed <= bytes_len && bytes_len - consumed < 4, "glyph {gid}: consumed {consumed} of {bytes_len}");
                    if components.iter().any(|c| c.xform != [0x4000, 0, 0, 0x4000]) {
                        scaled += 1;
                    }
                    if components.iter().any(|c| matches!(f.glyph(c.gid).unwrap(), Glyph::Composite { .. })) {
                        nested += 1;
                    }
                    *bbox
                }
            };
            let o = f.flatten(gid).unwrap();
            let xs: Vec<f64> = o.iter().flatten().map(|p| p.x).collect();
            let ys: Vec<f64> = o.iter().flatten().map(|p| p.y).collect();
            let mn = |v: &[f64]| v.iter().cloned().fold(f64::MAX, f64::min);
            let mx = |v: &[f64]| v.iter().cloned().fold(f64::MIN, f64::max);
            let got = [mn(&xs), mn(&ys), mx(&xs), mx(&ys)];
            for k in 0..4 {
                assert!((got[k] - bbox[k] as f64).abs() <= 1.0, "glyph {gid}: header bbox {bbox:?}, flattened outline bbox {got:?}");
            }
        }
        eprintln!("roboto: {simple} simple, {comp} composite ({scaled} with a transform, {nested} nested), {empty} empty");
        assert!(simple > 500 && comp > 100 && empty >= 1);
        // advances come from hmtx for every glyph
        for gid in 0..f.num_glyphs {
            f.advance(gid).unwrap();
            f.lsb(gid).unwrap();
        }
    }

    #[test]
    fn cmap_subtables_agree_and_known_points() {
        for name in ["Roboto-Regular.ttf", "SourceSans3-Regular.otf"] {
            let f = check_sfnt(name);
            let cm = f.cmap().unwrap();
            let usable: Vec<&CmapSub> = cm.subs.iter().filter(|s| (s.format == 4 || s.format == 12) && (s.platform == 3 || s.platform == 0)).collect();
            assert!(!usable.is_empty());
            let base = cm.mappings(usable[0]).unwrap();
            assert!(base.len() > 500, "{name}: {} mappings", base.len());
            for s in &usable[1..] {
                let other = cm.mappings(s).unwrap();
                let a: Vec<_> = base.iter().filter(|e| e.0 <= 0xFFFF).collect();
                let b: Vec<_> = other.iter().filter(|e| e.0 <= 0xFFFF).collect();
                assert_eq!(a, b, "{name}: subtables disagree on the BMP");
            }
            // every mapped glyph exists; lookup agrees with the enumeration
            for &(c, g) in &base {
                assert!(g < f.num_glyphs);
                assert_eq!(cm.lookup_in(usable[0], c).unwrap(), g);
            }
            assert_ne!(cm.unicode_lookup('A' as u32).unwrap(), 0);
            assert_ne!(cm.unicode_lookup(0x0416).unwrap(), 0, "{name} Cyrillic");
            assert_eq!(cm.unicode_lookup(0x4E2D).unwrap(), 0, "{name} has no CJK");
            // A and B are different glyphs with plausible advances
            let (ga, gb) = (cm.unicode_lookup(65).unwrap(), cm.unicode_lookup(66).unwrap());
            assert_ne!(ga, gb);
            let adv = f.advance(ga).unwrap() as f64 / f.units_per_em as f64;
            assert!(adv > 0.4 && adv < 0.8, "{name}: advance of A = {adv} em");
        }
    }

    pub fn sq(x: i16, y: i16, w: i16) -> Vec<(i16, i16, bool)> {
        vec![(x, y, true), (x + w, y, true), (x + w, y + w, true), (x, y + w, true)]
    }

    pub fn sample_font(long_loca: bool) -> SFont {
        let simple = |c: Vec<Vec<(i16, i16, bool)>>, ins: Vec<u8>| Body::Simple { contours: c, instructions: ins };
        let g = |adv, body| SGlyph { advance: adv, lsb: 3, body };
        SFont {
            units_per_em: 2048,
            long_loca,
            num_h_metrics: 6,
            cmap12: true,
            pad_table: 0,
            cmap: vec![(0x20, 1), (0x41, 2), (0x42, 3), (0xC9, 4), (0x1F600, 7), (0x416, 5), (0x417, 6)],
            glyphs: vec![
                g(500, simple(vec![sq(0, 0, 500), vec![(100, 100, true), (250, 400, false), (400, 100, true)]], vec![1, 2, 3])),
                g(250, Body::Empty),
                g(600, simple(vec![vec![(0, 0, true), (300, 700, false), (600, 0, true), (300, -200, false), (300, 1, true)]], vec![])),
                g(700, simple(vec![sq(10, 20, 300), sq(-400, 1000, 255), sq(0, 0, 256)], vec![9; 5])),
                // composite: A + scaled accent, with instructions
                g(
                    610,
                    Body::Composite {
                        comps: vec![
                            Comp { gid: 2, arg: Arg::XyBytes(0, 0), xform: Xform::None, extra_flags: USE_MY_METRICS },
                            Comp { gid: 3, arg: Arg::XyWords(300, 800), xform: Xform::Scale(0x2000), extra_flags: 0x0004 },
                        ],
                        instructions: vec![7, 7, 7],
                    },
                ),
                // nested composite with 2x2 and x/y scale, scaled offset
                g(
                    800,
                    Body::Composite {
                        comps: vec![
                            Comp { gid: 4, arg: Arg::XyWords(-20, 10), xform: Xform::TwoByTwo(0x4000, 0x1000, -0x0800, 0x3000), extra_flags: SCALED_COMPONENT_OFFSET },
                            Comp { gid: 0, arg: Arg::XyBytes(-5, 100), xform: Xform::XY(0x6000, 0x2000), extra_flags: UNSCALED_COMPONENT_OFFSET },
                        ],
                        instructions: vec![],
                    },
                ),
                // point matching
                g(
                    900,
                    Body::Composite {
                        comps: vec![
                            Comp { gid: 3, arg: Arg::XyBytes(0, 0), xform: Xform::None, extra_flags: 0 },
                            Comp { gid: 2, arg: Arg::PtBytes(5, 2), xform: Xform::Scale(0x3000), extra_flags: 0 },
                            Comp { gid: 5, arg: Arg::PtWords(1, 0), xform: Xform::None, extra_flags: 0 },
                        ],
                        instructions: vec![1],
                    },
                ),
                g(111, simple(vec![sq(0, 0, 10)], vec![])),
            ],
        }
    }

    #[test]
    fn synthetic_fonts_read_back() {
        for long in [false, true] {
            let spec = sample_font(long);
            let bytes = spec.build();
            let f = Font::parse(&bytes).unwrap();
            assert_eq!(f.sfnt.directory_problems(), Vec::<String>::new());
            assert_eq!(f.sfnt.checksum_problems(), Vec::<String>::new());
            let (s, w) = f.sfnt.file_checksum().unwrap();
            assert_eq!(s, w);
            assert_eq!(f.structure_problems(), Vec::<String>::new());
            assert_eq!(f.index_to_loc_format, long as i16);
            assert_eq!(f.num_glyphs, 8);
            for gid in 0..8u16 {
                let got = f.flatten(gid).unwrap();
                let want = spec.expected_outline(gid).unwrap();
                assert_eq!(outline_diff(&got, &want), None, "glyph {gid} long={long}");
                assert_eq!(f.advance(gid).unwrap(), spec.file_advance(gid));
                assert_eq!(f.lsb(gid).unwrap(), 3);
            }
            // shared trailing advance
            assert_eq!(f.advance(6).unwrap(), 800);
            assert_eq!(f.advance(7).unwrap(), 800);
            // hand-computed point: glyph 4 = A (unchanged) + glyph 3 scaled by 0.5 then moved by (300,800)
            let o = f.flatten(4).unwrap();
            assert_eq!(o.len(), 1 + 3);
            assert_eq!(o[1][0], Pt { x: 10.0 * 0.5 + 300.0, y: 20.0 * 0.5 + 800.0, on: true });
            assert_eq!(o[2][2], Pt { x: (-400.0 + 255.0) * 0.5 + 300.0, y: (1000.0 + 255.0) * 0.5 + 800.0, on: true });
            // glyph 5, component 1: 2x2 applied to glyph 4's first point (0,0) -> offset (-20,10) through the matrix too
            let o5 = f.flatten(5).unwrap();
            let (a, b, c, d) = (1.0, 0.25, -0.125, 0.75);
            assert_eq!(o5[0][0], Pt { x: a * -20.0 + c * 10.0, y: b * -20.0 + d * 10.0, on: true });
            assert_eq!(o5[0][1], Pt { x: a * 300.0 + c * 700.0 + (a * -20.0 + c * 10.0), y: b * 300.0 + d * 700.0 + (b * -20.0 + d * 10.0), on: false });
            // glyph 6: component 2 is matched so that its point 2 lands on compound point 5
            let o6 = f.flatten(6).unwrap();
            let flat: Vec<Pt> = o6.iter().flatten().copied().collect();
            assert_eq!((flat[12 + 2].x, flat[12 + 2].y), (flat[5].x, flat[5].y));
            // cmap
            let cm = f.cmap().unwrap();
            assert_eq!(cm.unicode_lookup(0x41).unwrap(), 2);
            assert_eq!(cm.unicode_lookup(0x417).unwrap(), 6);
            assert_eq!(cm.unicode_lookup(0x1F600).unwrap(), 7);
            assert_eq!(cm.unicode_lookup(0x43).unwrap(), 0);
            let s4 = cm.subs.iter().find(|s| s.format == 4).unwrap();
            assert_eq!(cm.lookup_in(s4, 0xC9).unwrap(), 4);
            assert_eq!(cm.lookup_in(s4, 0x1F600).unwrap(), 0);
            assert_eq!(f.closure(6).unwrap(), vec![6, 3, 2, 5, 4, 0]);
        }
    }

    #[test]
    fn damage_is_noticed() {
        let spec = sample_font(false);
        let mut bytes = spec.build();
        let f = Font::parse(&bytes).unwrap();
        let g = f.sfnt.rec(b"glyf").unwrap().offset as usize;
        bytes[g + 12] ^= 0x40;
        let f2 = Font::parse(&bytes).unwrap();
        assert!(!f2.sfnt.checksum_problems().is_empty());
        let (s, w) = f2.sfnt.file_checksum().unwrap();
        assert_ne!(s, w);
    }
}
