//! Strict tokenizer/parser and serializer for PDF object syntax, written from
//! ISO 32000-1 §7.2–7.3. Independent of the library under test.
//!
//! "Strict" means: anything the standard does not allow is either an error or is
//! recorded in `Parser::issues` (the object is still produced when a conforming reader
//! could produce one), so the same parser serves as reader and as validator.

use std::fmt;

#[derive(Clone, PartialEq)]
pub enum Obj {
    Null,
    Bool(bool),
    Int(i64),
    Real(f64),
    /// string object (literal or hex), decoded bytes
    Str(Vec<u8>),
    /// name object, decoded bytes (after #xx)
    Name(Vec<u8>),
    Array(Vec<Obj>),
    Dict(Dict),
    Stream(Box<StreamObj>),
    Ref(u32, u16),
}

/// Dictionary keeping source order and duplicates (the validator wants to see them).
#[derive(Clone, PartialEq, Default)]
pub struct Dict(pub Vec<(Vec<u8>, Obj)>);

#[derive(Clone, PartialEq)]
pub struct StreamObj {
    pub dict: Dict,
    /// raw (still encoded) stream bytes
    pub data: Vec<u8>,
}

impl Dict {
    pub fn new() -> Self {
        Dict(Vec::new())
    }
    /// first entry with this key (§7.3.7: duplicate keys are undefined; the validator flags them)
    pub fn get(&self, k: &str) -> Option<&Obj> {
        self.0.iter().find(|(kk, _)| kk.as_slice() == k.as_bytes()).map(|(_, v)| v)
    }
    pub fn get_b(&self, k: &[u8]) -> Option<&Obj> {
        self.0.iter().find(|(kk, _)| kk.as_slice() == k).map(|(_, v)| v)
    }
    pub fn set(&mut self, k: &str, v: Obj) {
        if let Some(e) = self.0.iter_mut().find(|(kk, _)| kk.as_slice() == k.as_bytes()) {
            e.1 = v;
        } else {
            self.0.push((k.as_bytes().to_vec(), v));
        }
    }
    pub fn remove(&mut self, k: &str) {
        self.0.retain(|(kk, _)| kk.as_slice() != k.as_bytes());
    }
    pub fn keys(&self) -> impl Iterator<Item = &Vec<u8>> {
        self.0.iter().map(|(k, _)| k)
    }
    pub fn iter(&self) -> impl Iterator<Item = &(Vec<u8>, Obj)> {
        self.0.iter()
    }
    pub fn len(&self) -> usize {
        self.0.len()
    }
    pub fn is_empty(&self) -> bool {
        self.0.is_empty()
    }
    pub fn has_duplicates(&self) -> bool {
        for (i, (k, _)) in self.0.iter().enumerate() {
            if self.0[..i].iter().any(|(k2, _)| k2 == k) {
                return true;
            }
        }
        false
    }
    /// Order-insensitive equality (dictionary entries are unordered, §7.3.7).
    pub fn same(&self, other: &Dict) -> bool {
        self.0.len() == other.0.len()
            && self.0.iter().all(|(k, v)| other.get_b(k).map(|o| o.same(v)).unwrap_or(false))
    }
}

impl Obj {
    pub fn name(s: &str) -> Obj {
        Obj::Name(s.as_bytes().to_vec())
    }
    pub fn str(s: &[u8]) -> Obj {
        Obj::Str(s.to_vec())
    }
    pub fn dict(entries: Vec<(&str, Obj)>) -> Obj {
        Obj::Dict(Dict(entries.into_iter().map(|(k, v)| (k.as_bytes().to_vec(), v)).collect()))
    }
    pub fn stream(entries: Vec<(&str, Obj)>, data: Vec<u8>) -> Obj {
        let d = Dict(entries.into_iter().map(|(k, v)| (k.as_bytes().to_vec(), v)).collect());
        Obj::Stream(Box::new(StreamObj { dict: d, data }))
    }
    pub fn as_int(&self) -> Option<i64> {
        match self {
            Obj::Int(i) => Some(*i),
            _ => None,
        }
    }
    pub fn as_num(&self) -> Option<f64> {
        match self {
            Obj::Int(i) => Some(*i as f64),
            Obj::Real(r) => Some(*r),
            _ => None,
        }
    }
    pub fn as_name(&self) -> Option<&[u8]> {
        match self {
            Obj::Name(n) => Some(n),
            _ => None,
        }
    }
    pub fn as_str_bytes(&self) -> Option<&[u8]> {
        match self {
            Obj::Str(s) => Some(s),
            _ => None,
        }
    }
    pub fn as_array(&self) -> Option<&[Obj]> {
        match self {
            Obj::Array(a) => Some(a),
            _ => None,
        }
    }
    pub fn as_dict(&self) -> Option<&Dict> {
        match self {
            Obj::Dict(d) => Some(d),
            Obj::Stream(s) => Some(&s.dict),
            _ => None,
        }
    }
    pub fn as_stream(&self) -> Option<&StreamObj> {
        match self {
            Obj::Stream(s) => Some(s),
            _ => None,
        }
    }
    pub fn as_ref(&self) -> Option<(u32, u16)> {
        match self {
            Obj::Ref(n, g) => Some((*n, *g)),
            _ => None,
        }
    }
    pub fn dict_get(&self, k: &str) -> Option<&Obj> {
        self.as_dict().and_then(|d| d.get(k))
    }
    pub fn is_null(&self) -> bool {
        matches!(self, Obj::Null)
    }
    pub fn type_name(&self) -> &'static str {
        match self {
            Obj::Null => "null",
            Obj::Bool(_) => "bool",
            Obj::Int(_) => "int",
            Obj::Real(_) => "real",
            Obj::Str(_) => "string",
            Obj::Name(_) => "name",
            Obj::Array(_) => "array",
            Obj::Dict(_) => "dict",
            Obj::Stream(_) => "stream",
            Obj::Ref(..) => "ref",
        }
    }
    /// Structural equality with unordered dictionaries and Int/Real compared as numbers only
    /// when both are the same kind.
    pub fn same(&self, o: &Obj) -> bool {
        match (self, o) {
            (Obj::Dict(a), Obj::Dict(b)) => a.same(b),
            (Obj::Stream(a), Obj::Stream(b)) => a.dict.same(&b.dict) && a.data == b.data,
            (Obj::Array(a), Obj::Array(b)) => a.len() == b.len() && a.iter().zip(b).all(|(x, y)| x.same(y)),
            (Obj::Real(a), Obj::Real(b)) => a == b || (a.is_nan() && b.is_nan()),
            _ => self == o,
        }
    }
}

impl fmt::Debug for Obj {
    fn fmt(&self, f: &mut fmt::Formatter<'_>) -> fmt::Result {
        let mut v = Vec::new();
        write_obj(self, &mut v);
        let s: String = v.iter().take(600).map(|&b| if (0x20..0x7f).contains(&b) { b as char } else if b == b'\n' { ' ' } else { '·' }).collect();
        write!(f, "{s}")
    }
}
impl fmt::Debug for Dict {
    fn fmt(&self, f: &mut fmt::Formatter<'_>) -> fmt::Result {
        Obj::Dict(self.clone()).fmt(f)
    }
}

// ------------------------------------------------------------------ character classes

#[inline]
pub fn is_ws(b: u8) -> bool {
    matches!(b, 0x00 | 0x09 | 0x0A | 0x0C | 0x0D | 0x20)
}
#[inline]
pub fn is_delim(b: u8) -> bool {
    matches!(b, b'(' | b')' | b'<' | b'>' | b'[' | b']' | b'{' | b'}' | b'/' | b'%')
}
#[inline]
pub fn is_regular(b: u8) -> bool {
    !is_ws(b) && !is_delim(b)
}
fn hexval(b: u8) -> Option<u8> {
    match b {
        b'0'..=b'9' => Some(b - b'0'),
        b'a'..=b'f' => Some(b - b'a' + 10),
        b'A'..=b'F' => Some(b - b'A' + 10),
        _ => None,
    }
}

// ------------------------------------------------------------------ parser

#[derive(Debug, Clone, PartialEq)]
pub struct SynErr {
    pub pos: usize,
    pub msg: String,
}
impl fmt::Display for SynErr {
    fn fmt(&self, f: &mut fmt::Formatter<'_>) -> fmt::Result {
        write!(f, "syntax error at byte {}: {}", self.pos, self.msg)
    }
}

pub struct Parser<'a> {
    pub b: &'a [u8],
    pub pos: usize,
    /// deviations from the standard that still allowed an object to be produced
    pub issues: Vec<String>,
    depth: usize,
}

type PResult<T> = Result<T, SynErr>;

impl<'a> Parser<'a> {
    pub fn new(b: &'a [u8], pos: usize) -> Self {
        Parser { b, pos, issues: Vec::new(), depth: 0 }
    }
    fn err<T>(&self, msg: impl Into<String>) -> PResult<T> {
        Err(SynErr { pos: self.pos, msg: msg.into() })
    }
    pub fn peek(&self) -> Option<u8> {
        self.b.get(self.pos).copied()
    }
    pub fn at_end(&self) -> bool {
        self.pos >= self.b.len()
    }
    /// skip white space and comments
    pub fn skip_ws(&mut self) {
        while let Some(c) = self.peek() {
            if is_ws(c) {
                self.pos += 1;
            } else if c == b'%' {
                while let Some(c) = self.peek() {
                    if c == b'\n' || c == b'\r' {
                        break;
                    }
                    self.pos += 1;
                }
            } else {
                break;
            }
        }
    }
    pub fn starts_with(&self, s: &[u8]) -> bool {
        self.b[self.pos.min(self.b.len())..].starts_with(s)
    }
    /// consume a keyword that must be followed by a non-regular character or EOF
    pub fn keyword(&mut self, k: &[u8]) -> bool {
        if self.starts_with(k) {
            let after = self.b.get(self.pos + k.len()).copied();
            if after.map(|c| !is_regular(c)).unwrap_or(true) {
                self.pos += k.len();
                return true;
            }
        }
        false
    }

    fn regular_run(&mut self) -> &'a [u8] {
        let s = self.pos;
        while let Some(c) = self.peek() {
            if is_regular(c) {
                self.pos += 1;
            } else {
                break;
            }
        }
        &self.b[s..self.pos]
    }

    /// Parse a number token (already known to start with sign, digit or '.').
    fn number(&mut self) -> PResult<Obj> {
        let start = self.pos;
        let tok = self.regular_run();
        parse_number_token(tok).map_err(|m| SynErr { pos: start, msg: m })
    }

    pub fn parse_object(&mut self) -> PResult<Obj> {
        self.skip_ws();
        let Some(c) = self.peek() else { return self.err("unexpected end of data") };
        if self.depth > 200 {
            return self.err("nesting deeper than 200");
        }
        match c {
            b'/' => Ok(Obj::Name(self.name()?)),
            b'(' => Ok(Obj::Str(self.literal_string()?)),
            b'<' => {
                if self.b.get(self.pos + 1) == Some(&b'<') {
                    self.depth += 1;
                    let d = self.dict();
                    self.depth -= 1;
                    Ok(Obj::Dict(d?))
                } else {
                    Ok(Obj::Str(self.hex_string()?))
                }
            }
            b'[' => {
                self.pos += 1;
                self.depth += 1;
                let mut v = Vec::new();
                loop {
                    self.skip_ws();
                    match self.peek() {
                        None => {
                            self.depth -= 1;
                            return self.err("unterminated array");
                        }
                        Some(b']') => {
                            self.pos += 1;
                            break;
                        }
                        _ => match self.parse_object() {
                            Ok(o) => v.push(o),
                            Err(e) => {
                                self.depth -= 1;
                                return Err(e);
                            }
                        },
                    }
                }
                self.depth -= 1;
                Ok(Obj::Array(v))
            }
            b'+' | b'-' | b'.' | b'0'..=b'9' => {
                let save = self.pos;
                let n = self.number()?;
                // reference lookahead: int int R
                if let Obj::Int(a) = n {
                    if a >= 0 && self.b[save..self.pos].iter().all(|c| c.is_ascii_digit()) {
                        let after_first = self.pos;
                        self.skip_ws();
                        if self.peek().map(|c| c.is_ascii_digit()).unwrap_or(false) {
                            let s2 = self.pos;
                            let t2 = self.regular_run();
                            if t2.iter().all(|c| c.is_ascii_digit()) && !t2.is_empty() {
                                let g: Option<u32> = std::str::from_utf8(t2).ok().and_then(|s| s.parse().ok());
                                self.skip_ws();
                                if let Some(g) = g {
                                    if self.keyword(b"R") && g <= 65535 && a <= u32::MAX as i64 {
                                        return Ok(Obj::Ref(a as u32, g as u16));
                                    }
                                }
                            }
                            let _ = s2;
                        }
                        self.pos = after_first;
                    }
                }
                Ok(n)
            }
            _ => {
                if self.keyword(b"true") {
                    Ok(Obj::Bool(true))
                } else if self.keyword(b"false") {
                    Ok(Obj::Bool(false))
                } else if self.keyword(b"null") {
                    Ok(Obj::Null)
                } else {
                    let s = self.pos;
                    let t = self.regular_run();
                    let shown = String::from_utf8_lossy(&t[..t.len().min(20)]).to_string();
                    self.pos = s;
                    self.err(format!("unexpected token {shown:?} (byte 0x{c:02x})"))
                }
            }
        }
    }

    fn name(&mut self) -> PResult<Vec<u8>> {
        debug_assert_eq!(self.peek(), Some(b'/'));
        self.pos += 1;
        let mut out = Vec::new();
        while let Some(c) = self.peek() {
            if !is_regular(c) {
                break;
            }
            if c == b'#' {
                let h = self.b.get(self.pos + 1).copied().and_then(hexval);
                let l = self.b.get(self.pos + 2).copied().and_then(hexval);
                match (h, l) {
                    (Some(h), Some(l)) => {
                        let v = h * 16 + l;
                        if v == 0 {
                            self.issues.push(format!("name contains #00 at byte {}", self.pos));
                        }
                        out.push(v);
                        self.pos += 3;
                    }
                    _ => {
                        self.issues.push(format!("'#' in name not followed by two hex digits at byte {}", self.pos));
                        out.push(b'#');
                        self.pos += 1;
                    }
                }
            } else {
                if !(0x21..=0x7e).contains(&c) {
                    // §7.3.5: characters outside ! .. ~ should be written with #xx
                    self.issues.push(format!("name contains raw byte 0x{c:02x} outside '!'..'~' at byte {}", self.pos));
                }
                out.push(c);
                self.pos += 1;
            }
        }
        Ok(out)
    }

    fn literal_string(&mut self) -> PResult<Vec<u8>> {
        let start = self.pos;
        self.pos += 1;
        let mut depth = 1usize;
        let mut out = Vec::new();
        loop {
            let Some(c) = self.peek() else {
                self.pos = start;
                return self.err("unterminated literal string");
            };
            self.pos += 1;
            match c {
                b'(' => {
                    depth += 1;
                    out.push(c);
                }
                b')' => {
                    depth -= 1;
                    if depth == 0 {
                        return Ok(out);
                    }
                    out.push(c);
                }
                b'\r' => {
                    // §7.3.4.2: an EOL marker inside a literal string is read as LF
                    if self.peek() == Some(b'\n') {
                        self.pos += 1;
                    }
                    out.push(b'\n');
                }
                b'\\' => {
                    let Some(e) = self.peek() else {
                        self.pos = start;
                        return self.err("unterminated literal string");
                    };
                    self.pos += 1;
                    match e {
                        b'n' => out.push(b'\n'),
                        b'r' => out.push(b'\r'),
                        b't' => out.push(b'\t'),
                        b'b' => out.push(0x08),
                        b'f' => out.push(0x0c),
                        b'(' | b')' | b'\\' => out.push(e),
                        b'\r' => {
                            if self.peek() == Some(b'\n') {
                                self.pos += 1;
                            }
                        }
                        b'\n' => {}
                        b'0'..=b'7' => {
                            let mut v: u32 = (e - b'0') as u32;
                            for _ in 0..2 {
                                match self.peek() {
                                    Some(d @ b'0'..=b'7') => {
                                        v = v * 8 + (d - b'0') as u32;
                                        self.pos += 1;
                                    }
                                    _ => break,
                                }
                            }
                            out.push((v & 0xff) as u8); // high-order overflow ignored
                        }
                        other => out.push(other), // backslash ignored
                    }
                }
                _ => out.push(c),
            }
        }
    }

    fn hex_string(&mut self) -> PResult<Vec<u8>> {
        let start = self.pos;
        self.pos += 1;
        let mut out = Vec::new();
        let mut hi: Option<u8> = None;
        loop {
            let Some(c) = self.peek() else {
                self.pos = start;
                return self.err("unterminated hex string");
            };
            self.pos += 1;
            if c == b'>' {
                if let Some(h) = hi {
                    out.push(h << 4);
                }
                return Ok(out);
            }
            if is_ws(c) {
                continue;
            }
            match hexval(c) {
                Some(v) => match hi.take() {
                    Some(h) => out.push((h << 4) | v),
                    None => hi = Some(v),
                },
                None => {
                    self.pos -= 1;
                    return self.err(format!("invalid character 0x{c:02x} in hex string"));
                }
            }
        }
    }

    fn dict(&mut self) -> PResult<Dict> {
        self.pos += 2;
        let mut d = Dict::new();
        loop {
            self.skip_ws();
            match self.peek() {
                None => return self.err("unterminated dictionary"),
                Some(b'>') => {
                    if self.b.get(self.pos + 1) == Some(&b'>') {
                        self.pos += 2;
                        return Ok(d);
                    }
                    return self.err("single '>' in dictionary");
                }
                Some(b'/') => {
                    let k = self.name()?;
                    let v = self.parse_object()?;
                    d.0.push((k, v));
                }
                Some(c) => return self.err(format!("dictionary key is not a name (byte 0x{c:02x})")),
            }
        }
    }

    /// After a dictionary: if the `stream` keyword follows, read the stream body.
    /// `length_of` resolves an indirect /Length. Returns the dict unchanged when no stream follows.
    pub fn maybe_stream(&mut self, d: Dict, length_of: &dyn Fn(&Obj) -> Option<i64>) -> PResult<Obj> {
        let save = self.pos;
        self.skip_ws();
        if !self.keyword(b"stream") {
            self.pos = save;
            return Ok(Obj::Dict(d));
        }
        // §7.3.8.1: `stream` is followed by CRLF or LF, not by CR alone
        match (self.peek(), self.b.get(self.pos + 1).copied()) {
            (Some(b'\r'), Some(b'\n')) => self.pos += 2,
            (Some(b'\n'), _) => self.pos += 1,
            (Some(b'\r'), _) => {
                self.issues.push(format!("'stream' followed by a lone CR at byte {}", self.pos));
                self.pos += 1;
            }
            _ => self.issues.push(format!("'stream' keyword not followed by an end-of-line at byte {}", self.pos)),
        }
        let len = match d.get("Length") {
            Some(l) => length_of(l),
            None => None,
        };
        let Some(len) = len else { return self.err("stream without a usable /Length") };
        if len < 0 || self.pos + len as usize > self.b.len() {
            return self.err(format!("stream /Length {len} runs past the end of the data"));
        }
        let data = self.b[self.pos..self.pos + len as usize].to_vec();
        self.pos += len as usize;
        // §7.3.8.1: there should be an EOL before endstream
        let mut eol = false;
        if self.peek() == Some(b'\r') {
            self.pos += 1;
            eol = true;
        }
        if self.peek() == Some(b'\n') {
            self.pos += 1;
            eol = true;
        }
        if !self.keyword(b"endstream") {
            return self.err(format!("no 'endstream' after {len} bytes of stream data (/Length wrong)"));
        }
        // ISO 32000-1 7.3.8.1 only says there *should* be an EOL before `endstream`; not an issue.
        let _ = eol;
        Ok(Obj::Stream(Box::new(StreamObj { dict: d, data })))
    }

    /// `N G obj <object> endobj` at the current position. Returns (num, gen, object).
    pub fn indirect_object(&mut self, length_of: &dyn Fn(&Obj) -> Option<i64>) -> PResult<(u32, u16, Obj)> {
        self.skip_ws();
        let (n, g) = self.obj_header()?;
        let o = self.parse_object()?;
        let o = match o {
            Obj::Dict(d) => self.maybe_stream(d, length_of)?,
            other => other,
        };
        self.skip_ws();
        if !self.keyword(b"endobj") {
            return self.err("missing 'endobj'");
        }
        Ok((n, g, o))
    }

    /// `N G obj` exactly at the current position (no leading white space allowed here).
    pub fn obj_header(&mut self) -> PResult<(u32, u16)> {
        let s = self.pos;
        let t = self.regular_run();
        if t.is_empty() || !t.iter().all(|c| c.is_ascii_digit()) {
            self.pos = s;
            return self.err("object header: object number expected");
        }
        let n: u32 = std::str::from_utf8(t).unwrap().parse().map_err(|_| SynErr { pos: s, msg: "object number out of range".into() })?;
        self.skip_ws();
        let s2 = self.pos;
        let t = self.regular_run();
        if t.is_empty() || !t.iter().all(|c| c.is_ascii_digit()) {
            self.pos = s2;
            return self.err("object header: generation expected");
        }
        let g: u32 = std::str::from_utf8(t).unwrap().parse().map_err(|_| SynErr { pos: s2, msg: "generation out of range".into() })?;
        if g > 65535 {
            self.pos = s2;
            return self.err("generation above 65535");
        }
        self.skip_ws();
        if !self.keyword(b"obj") {
            return self.err("object header: 'obj' expected");
        }
        Ok((n, g as u16))
    }
}

/// §7.3.3: integers are optional sign + digits; reals are optional sign + digits with one
/// '.'; no exponent, no radix notation.
pub fn parse_number_token(tok: &[u8]) -> Result<Obj, String> {
    let s = std::str::from_utf8(tok).map_err(|_| "non-ASCII number token".to_string())?;
    let body = s.strip_prefix('+').or_else(|| s.strip_prefix('-')).unwrap_or(s);
    if body.is_empty() {
        return Err(format!("bad number token {s:?}"));
    }
    let dots = body.bytes().filter(|&c| c == b'.').count();
    if !body.bytes().all(|c| c.is_ascii_digit() || c == b'.') || dots > 1 {
        return Err(format!("bad number token {s:?}"));
    }
    if dots == 0 {
        match s.parse::<i64>() {
            Ok(i) => Ok(Obj::Int(i)),
            // out-of-range integers: a conforming reader may convert to real (Annex C)
            Err(_) => s.parse::<f64>().map(Obj::Real).map_err(|_| format!("bad number token {s:?}")),
        }
    } else {
        if body == "." {
            return Err("bad number token \".\"".into());
        }
        let norm = if body.starts_with('.') { format!("0{body}") } else if body.ends_with('.') { format!("{body}0") } else { body.to_string() };
        let v: f64 = norm.parse().map_err(|_| format!("bad number token {s:?}"))?;
        Ok(Obj::Real(if s.starts_with('-') { -v } else { v }))
    }
}

/// Parse a complete byte string as exactly one object (trailing white space allowed).
pub fn parse_one(b: &[u8]) -> Result<(Obj, Vec<String>), SynErr> {
    let mut p = Parser::new(b, 0);
    let o = p.parse_object()?;
    let o = match o {
        Obj::Dict(d) => p.maybe_stream(d, &|l| l.as_int())?,
        o => o,
    };
    p.skip_ws();
    if !p.at_end() {
        return Err(SynErr { pos: p.pos, msg: "trailing data after object".into() });
    }
    Ok((o, p.issues))
}

// ------------------------------------------------------------------ serializer

pub fn write_name(n: &[u8], out: &mut Vec<u8>) {
    out.push(b'/');
    for &c in n {
        if (0x21..=0x7e).contains(&c) && !is_delim(c) && c != b'#' {
            out.push(c);
        } else {
            out.extend_from_slice(format!("#{c:02X}").as_bytes());
        }
    }
}

pub fn write_string(s: &[u8], out: &mut Vec<u8>) {
    out.push(b'(');
    for &c in s {
        match c {
            b'(' | b')' | b'\\' => {
                out.push(b'\\');
                out.push(c);
            }
            b'\r' => out.extend_from_slice(b"\\r"),
            b'\n' => out.extend_from_slice(b"\\n"),
            _ => out.push(c),
        }
    }
    out.push(b')');
}

pub fn write_hex_string(s: &[u8], out: &mut Vec<u8>) {
    out.push(b'<');
    for c in s {
        out.extend_from_slice(format!("{c:02X}").as_bytes());
    }
    out.push(b'>');
}

pub fn fmt_real(r: f64) -> String {
    if !r.is_finite() {
        return "0".into();
    }
    let mut s = format!("{r:.6}");
    if s.contains('.') {
        while s.ends_with('0') {
            s.pop();
        }
        if s.ends_with('.') {
            s.pop();
        }
    }
    if s == "-0" {
        s = "0".into();
    }
    s
}

pub fn write_obj(o: &Obj, out: &mut Vec<u8>) {
    match o {
        Obj::Null => out.extend_from_slice(b"null"),
        Obj::Bool(b) => out.extend_from_slice(if *b { b"true" } else { b"false" }),
        Obj::Int(i) => out.extend_from_slice(i.to_string().as_bytes()),
        Obj::Real(r) => out.extend_from_slice(fmt_real(*r).as_bytes()),
        Obj::Str(s) => write_string(s, out),
        Obj::Name(n) => write_name(n, out),
        Obj::Array(a) => {
            out.push(b'[');
            for (i, x) in a.iter().enumerate() {
                if i > 0 {
                    out.push(b' ');
                }
                write_obj(x, out);
            }
            out.push(b']');
        }
        Obj::Dict(d) => write_dict(d, out),
        Obj::Stream(s) => {
            let mut d = s.dict.clone();
            if d.get("Length").map(|l| !matches!(l, Obj::Ref(..))).unwrap_or(true) {
                d.set("Length", Obj::Int(s.data.len() as i64));
            }
            write_dict(&d, out);
            out.extend_from_slice(b"\nstream\n");
            out.extend_from_slice(&s.data);
            out.extend_from_slice(b"\nendstream");
        }
        Obj::Ref(n, g) => out.extend_from_slice(format!("{n} {g} R").as_bytes()),
    }
}

pub fn write_dict(d: &Dict, out: &mut Vec<u8>) {
    out.extend_from_slice(b"<<");
    for (k, v) in d.iter() {
        out.push(b' ');
        write_name(k, out);
        out.push(b' ');
        write_obj(v, out);
    }
    out.extend_from_slice(b" >>");
}

pub fn to_bytes(o: &Obj) -> Vec<u8> {
    let mut v = Vec::new();
    write_obj(o, &mut v);
    v
}

#[cfg(test)]
mod tests {
    use super::*;
    fn p(s: &[u8]) -> Obj {
        parse_one(s).unwrap().0
    }
    #[test]
    fn basics() {
        assert_eq!(p(b"null"), Obj::Null);
        assert_eq!(p(b"-12"), Obj::Int(-12));
        assert_eq!(p(b"+.5"), Obj::Real(0.5));
        assert_eq!(p(b"4."), Obj::Real(4.0));
        assert_eq!(p(b"12 0 R"), Obj::Ref(12, 0));
        assert_eq!(p(b"[1 2 R 3]"), Obj::Array(vec![Obj::Ref(1, 2), Obj::Int(3)]));
        assert_eq!(p(b"/A#20B"), Obj::Name(b"A B".to_vec()));
        assert_eq!(p(b"(a\\)b\\\\c\\053\\5x\\\r\ny\rz)"), Obj::Str(b"a)b\\c+\x05xy\nz".to_vec()));
        assert_eq!(p(b"<48 65 6C6c6F7>"), Obj::Str(b"Hellop".to_vec()));
        assert_eq!(p(b"(a(b)c)"), Obj::Str(b"a(b)c".to_vec()));
        // ISO 32000-1 7.3.4.2 example: \0053 is \005 followed by '3'
        assert_eq!(p(b"(\\0053)"), Obj::Str(b"\x053".to_vec()));
        assert!(parse_one(b"1e5").is_err());
        assert!(parse_one(b"<4G>").is_err());
    }
    #[test]
    fn roundtrip() {
        let o = Obj::dict(vec![
            ("A B", Obj::str(b"x(\\)\r\n\x00\xff")),
            ("K", Obj::Array(vec![Obj::Real(-0.5), Obj::Int(i64::MIN), Obj::Ref(3, 1), Obj::Null, Obj::Bool(true)])),
            ("N", Obj::Name(b"#/ (\x80".to_vec())),
        ]);
        let b = to_bytes(&o);
        let (back, issues) = parse_one(&b).unwrap();
        assert!(issues.is_empty(), "{issues:?}");
        assert!(back.same(&o), "{back:?}");
    }
    #[test]
    fn stream() {
        let o = Obj::stream(vec![("Type", Obj::name("X"))], b"abc\nendstream".to_vec());
        let b = to_bytes(&o);
        let (back, issues) = parse_one(&b).unwrap();
        assert!(issues.is_empty());
        assert_eq!(back.as_stream().unwrap().data, b"abc\nendstream");
    }
}
