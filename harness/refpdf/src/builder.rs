//! Builder for crafted PDF files: objects → bytes in classic-table / xref-stream /
//! object-stream form, with appended incremental revisions. Everything it writes must pass
//! `file::validate` (checked by the unit tests below and again at harness setup).

use crate::filters;
use crate::syntax::{write_obj, Dict, Obj};
use std::collections::{BTreeMap, BTreeSet};

#[derive(Clone, Copy, Debug, PartialEq, Eq, Hash)]
pub enum XrefForm {
    Table,
    Stream,
}

#[derive(Clone, Debug)]
pub struct Revision {
    pub form: XrefForm,
    /// objects (re)defined in this revision
    pub objects: Vec<(u32, u16, Obj)>,
    /// objects freed in this revision: (number, generation of the *next* use)
    pub free: Vec<(u32, u16)>,
    /// numbers (subset of `objects`) to pack into one object stream; needs `XrefForm::Stream`
    pub in_objstm: BTreeSet<u32>,
    /// extra trailer entries
    pub trailer_extra: Vec<(String, Obj)>,
    /// compress the xref stream with Flate + PNG predictor 12
    pub xref_predictor: bool,
    /// compress the object stream with Flate
    pub objstm_flate: bool,
}

impl Revision {
    pub fn new(form: XrefForm) -> Self {
        Revision { form, objects: Vec::new(), free: Vec::new(), in_objstm: BTreeSet::new(), trailer_extra: Vec::new(), xref_predictor: false, objstm_flate: true }
    }
    pub fn obj(mut self, num: u32, o: Obj) -> Self {
        self.objects.push((num, 0, o));
        self
    }
    pub fn add(&mut self, num: u32, o: Obj) {
        self.objects.push((num, 0, o));
    }
}

/// End-of-line flavour for every EOL the builder writes outside stream data (§7.2.3: CR, LF
/// and CRLF are all end-of-line markers). Cross-reference table entries stay 20 bytes
/// (" \n", " \r" or "\r\n", §7.5.4); the `stream` keyword is always followed by LF (§7.3.8.1
/// forbids CR alone) — that part is written by `syntax::write_obj`.
#[derive(Clone, Copy, Debug, PartialEq, Eq, Hash, Default)]
pub enum Eol {
    #[default]
    Lf,
    Cr,
    CrLf,
}
impl Eol {
    pub fn s(self) -> &'static str {
        match self {
            Eol::Lf => "\n",
            Eol::Cr => "\r",
            Eol::CrLf => "\r\n",
        }
    }
    /// the two bytes that end a 20-byte cross-reference table entry
    pub fn entry_end(self) -> &'static str {
        match self {
            Eol::Lf => " \n",
            Eol::Cr => " \r",
            Eol::CrLf => "\r\n",
        }
    }
}

#[derive(Clone, Debug)]
pub struct FileBuilder {
    /// end-of-line flavour (default LF)
    pub eol: Eol,
    pub version: String,
    pub root: (u32, u16),
    pub info: Option<(u32, u16)>,
    pub revisions: Vec<Revision>,
}

#[derive(Clone, Debug, Default)]
pub struct Built {
    pub bytes: Vec<u8>,
    /// per revision: object number → byte offset of `N G obj`
    pub offsets: Vec<BTreeMap<u32, usize>>,
    /// per revision: offset of the xref section
    pub xref_offsets: Vec<usize>,
    /// per revision: file length after that revision
    pub lengths: Vec<usize>,
    /// per revision: object number given to the object stream / xref stream, if any
    pub objstm_nums: Vec<Option<u32>>,
    pub xrefstm_nums: Vec<Option<u32>>,
}

impl FileBuilder {
    pub fn new(root: u32) -> Self {
        FileBuilder { eol: Eol::Lf, version: "1.7".into(), root: (root, 0), info: None, revisions: Vec::new() }
    }

    pub fn build(&self) -> Built {
        let mut out: Vec<u8> = Vec::new();
        let mut built = Built::default();
        let e = self.eol.s();
        let ee = self.eol.entry_end();
        out.extend_from_slice(format!("%PDF-{}{e}", self.version).as_bytes());
        out.extend_from_slice(b"%\xE2\xE3\xCF\xD3");
        out.extend_from_slice(e.as_bytes());
        let mut max_obj: u32 = 0;
        for r in &self.revisions {
            for (n, _, _) in &r.objects {
                max_obj = max_obj.max(*n);
            }
            for (n, _) in &r.free {
                max_obj = max_obj.max(*n);
            }
        }
        let mut next_free_num = max_obj + 1;
        let mut prev_xref: Option<usize> = None;
        let mut size_so_far: u32 = 0;
        for (ri, r) in self.revisions.iter().enumerate() {
            let mut offs: BTreeMap<u32, usize> = BTreeMap::new();
            let mut entries: BTreeMap<u32, Entry> = BTreeMap::new();
            if ri == 0 {
                entries.insert(0, Entry::Free(0, 65535));
            }
            // plain objects
            let mut packed: Vec<(u32, &Obj)> = Vec::new();
            for (n, g, o) in &r.objects {
                if r.in_objstm.contains(n) && r.form == XrefForm::Stream && !matches!(o, Obj::Stream(_)) && *g == 0 {
                    packed.push((*n, o));
                    continue;
                }
                offs.insert(*n, out.len());
                entries.insert(*n, Entry::InUse(out.len(), *g));
                out.extend_from_slice(format!("{n} {g} obj{e}").as_bytes());
                write_obj(o, &mut out);
                out.extend_from_slice(format!("{e}endobj{e}").as_bytes());
            }
            for (n, g) in &r.free {
                entries.insert(*n, Entry::Free(0, *g));
            }
            // object stream
            let mut objstm_num = None;
            if !packed.is_empty() {
                let sn = next_free_num;
                next_free_num += 1;
                objstm_num = Some(sn);
                let mut head = Vec::new();
                let mut body = Vec::new();
                for (i, (n, o)) in packed.iter().enumerate() {
                    head.extend_from_slice(format!("{} {} ", n, body.len()).as_bytes());
                    write_obj(o, &mut body);
                    body.push(b'\n');
                    entries.insert(*n, Entry::Compressed(sn, i as u32));
                }
                let first = head.len();
                let mut data = head;
                data.extend_from_slice(&body);
                let mut d = vec![("Type", Obj::name("ObjStm")), ("N", Obj::Int(packed.len() as i64)), ("First", Obj::Int(first as i64))];
                let data = if r.objstm_flate {
                    d.push(("Filter", Obj::name("FlateDecode")));
                    filters::flate_encode(&data)
                } else {
                    data
                };
                let so = Obj::stream(d, data);
                offs.insert(sn, out.len());
                entries.insert(sn, Entry::InUse(out.len(), 0));
                out.extend_from_slice(format!("{sn} 0 obj{e}").as_bytes());
                write_obj(&so, &mut out);
                out.extend_from_slice(format!("{e}endobj{e}").as_bytes());
            }
            built.objstm_nums.push(objstm_num);
            // trailer dictionary
            let mut xrefstm_num = None;
            if r.form == XrefForm::Stream {
                xrefstm_num = Some(next_free_num);
                next_free_num += 1;
            }
            let highest = entries.keys().next_back().copied().unwrap_or(0).max(xrefstm_num.unwrap_or(0));
            size_so_far = size_so_far.max(highest + 1);
            let mut tr = Dict::new();
            tr.set("Size", Obj::Int(size_so_far as i64));
            tr.set("Root", Obj::Ref(self.root.0, self.root.1));
            if let Some((n, g)) = self.info {
                tr.set("Info", Obj::Ref(n, g));
            }
            if let Some(p) = prev_xref {
                tr.set("Prev", Obj::Int(p as i64));
            }
            for (k, v) in &r.trailer_extra {
                tr.set(k, v.clone());
            }
            let xoff = out.len();
            match r.form {
                XrefForm::Table => {
                    out.extend_from_slice(format!("xref{e}").as_bytes());
                    let keys: Vec<u32> = entries.keys().copied().collect();
                    let mut i = 0;
                    while i < keys.len() {
                        let mut j = i;
                        while j + 1 < keys.len() && keys[j + 1] == keys[j] + 1 {
                            j += 1;
                        }
                        out.extend_from_slice(format!("{} {}{e}", keys[i], j - i + 1).as_bytes());
                        for k in &keys[i..=j] {
                            match entries[k] {
                                Entry::Free(nx, g) => out.extend_from_slice(format!("{nx:010} {g:05} f{ee}").as_bytes()),
                                Entry::InUse(o, g) => out.extend_from_slice(format!("{o:010} {g:05} n{ee}").as_bytes()),
                                Entry::Compressed(..) => unreachable!(),
                            }
                        }
                        i = j + 1;
                    }
                    out.extend_from_slice(format!("trailer{e}").as_bytes());
                    write_obj(&Obj::Dict(tr), &mut out);
                    out.extend_from_slice(e.as_bytes());
                }
                XrefForm::Stream => {
                    let xn = xrefstm_num.unwrap();
                    entries.insert(xn, Entry::InUse(xoff, 0));
                    offs.insert(xn, xoff);
                    let keys: Vec<u32> = entries.keys().copied().collect();
                    let mut index = Vec::new();
                    let mut data = Vec::new();
                    let mut i = 0;
                    while i < keys.len() {
                        let mut j = i;
                        while j + 1 < keys.len() && keys[j + 1] == keys[j] + 1 {
                            j += 1;
                        }
                        index.push(Obj::Int(keys[i] as i64));
                        index.push(Obj::Int((j - i + 1) as i64));
                        for k in &keys[i..=j] {
                            let (t, a, b) = match entries[k] {
                                Entry::Free(nx, g) => (0u8, nx as u32, g),
                                Entry::InUse(o, g) => (1, o as u32, g),
                                Entry::Compressed(s, ix) => (2, s, ix as u16),
                            };
                            data.push(t);
                            data.extend_from_slice(&a.to_be_bytes());
                            data.extend_from_slice(&b.to_be_bytes());
                        }
                        i = j + 1;
                    }
                    tr.set("Type", Obj::name("XRef"));
                    tr.set("W", Obj::Array(vec![Obj::Int(1), Obj::Int(4), Obj::Int(2)]));
                    tr.set("Index", Obj::Array(index));
                    let data = if r.xref_predictor {
                        let p = filters::PredParams { predictor: 12, colors: 1, bpc: 8, columns: 7 };
                        tr.set("Filter", Obj::name("FlateDecode"));
                        tr.set("DecodeParms", Obj::dict(vec![("Predictor", Obj::Int(12)), ("Columns", Obj::Int(7))]));
                        filters::flate_encode(&filters::png_predict_encode(&data, &p, &|_| 2))
                    } else {
                        data
                    };
                    let so = Obj::Stream(Box::new(crate::syntax::StreamObj { dict: tr, data }));
                    out.extend_from_slice(format!("{xn} 0 obj{e}").as_bytes());
                    write_obj(&so, &mut out);
                    out.extend_from_slice(format!("{e}endobj{e}").as_bytes());
                }
            }
            out.extend_from_slice(format!("startxref{e}{xoff}{e}%%EOF{e}").as_bytes());
            built.xrefstm_nums.push(xrefstm_num);
            built.offsets.push(offs);
            built.xref_offsets.push(xoff);
            built.lengths.push(out.len());
            prev_xref = Some(xoff);
        }
        built.bytes = out;
        built
    }
}

#[derive(Clone, Copy, Debug)]
enum Entry {
    Free(u32, u16),
    InUse(usize, u16),
    Compressed(u32, u32),
}

/// A minimal n-page document: catalog 1, pages 2, page objects 3.., one content stream each.
/// Returns the objects so callers can add or change things before building.
pub fn simple_doc_objects(n_pages: usize, content: &dyn Fn(usize) -> Vec<u8>) -> Vec<(u32, Obj)> {
    let mut objs = Vec::new();
    objs.push((1, Obj::dict(vec![("Type", Obj::name("Catalog")), ("Pages", Obj::Ref(2, 0))])));
    let kids: Vec<Obj> = (0..n_pages).map(|i| Obj::Ref(3 + 2 * i as u32, 0)).collect();
    objs.push((2, Obj::dict(vec![("Type", Obj::name("Pages")), ("Kids", Obj::Array(kids)), ("Count", Obj::Int(n_pages as i64))])));
    for i in 0..n_pages {
        let pn = 3 + 2 * i as u32;
        objs.push((
            pn,
            Obj::dict(vec![
                ("Type", Obj::name("Page")),
                ("Parent", Obj::Ref(2, 0)),
                ("MediaBox", Obj::Array(vec![Obj::Int(0), Obj::Int(0), Obj::Int(612), Obj::Int(792)])),
                ("Resources", Obj::dict(vec![("Font", Obj::dict(vec![("F1", Obj::dict(vec![("Type", Obj::name("Font")), ("Subtype", Obj::name("Type1")), ("BaseFont", Obj::name("Helvetica")), ("Encoding", Obj::name("WinAnsiEncoding"))]))]))])),
                ("Contents", Obj::Ref(pn + 1, 0)),
            ]),
        ));
        objs.push((pn + 1, Obj::stream(vec![], content(i))));
    }
    objs
}

pub fn simple_doc(n_pages: usize, form: XrefForm, objstm: bool) -> Built {
    let objs = simple_doc_objects(n_pages, &|i| format!("BT /F1 12 Tf 72 720 Td (Page {}) Tj ET", i + 1).into_bytes());
    let mut r = Revision::new(form);
    for (n, o) in objs {
        if objstm && !matches!(o, Obj::Stream(_)) {
            r.in_objstm.insert(n);
        }
        r.add(n, o);
    }
    let mut fb = FileBuilder::new(1);
    fb.revisions.push(r);
    fb.build()
}

#[cfg(test)]
mod tests {
    use super::*;
    use crate::file::{validate, PdfFile};
    #[test]
    fn built_files_validate() {
        for form in [XrefForm::Table, XrefForm::Stream] {
            for objstm in [false, true] {
                let b = simple_doc(3, form, objstm);
                let issues = validate(&b.bytes);
                assert!(issues.is_empty(), "{form:?} objstm={objstm}: {issues:?}");
                let f = PdfFile::parse(&b.bytes).unwrap();
                let pages = f.pages().unwrap();
                assert_eq!(pages.len(), 3);
                assert_eq!(f.page_content(&pages[1]).unwrap(), b"BT /F1 12 Tf 72 720 Td (Page 2) Tj ET");
                assert_eq!(pages[0].media_box(), Some([0.0, 0.0, 612.0, 792.0]));
            }
        }
    }
    #[test]
    fn revisions() {
        for f1 in [XrefForm::Table, XrefForm::Stream] {
            for f2 in [XrefForm::Table, XrefForm::Stream] {
                let objs = simple_doc_objects(1, &|_| b"BT ET".to_vec());
                let mut r = Revision::new(f1);
                for (n, o) in objs {
                    r.add(n, o);
                }
                r.add(10, Obj::Int(1));
                r.add(11, Obj::Int(1));
                let mut r2 = Revision::new(f2);
                r2.add(10, Obj::Int(2));
                r2.free.push((11, 1));
                r2.xref_predictor = true;
                let mut fb = FileBuilder::new(1);
                fb.revisions.push(r);
                fb.revisions.push(r2);
                let b = fb.build();
                let issues = validate(&b.bytes);
                assert!(issues.is_empty(), "{f1:?}/{f2:?}: {issues:?}");
                let f = PdfFile::parse(&b.bytes).unwrap();
                assert_eq!(f.get(10), Obj::Int(2));
                assert_eq!(f.get(11), Obj::Null);
                let f0 = PdfFile::parse(&b.bytes[..b.lengths[0]]).unwrap();
                assert_eq!(f0.get(10), Obj::Int(1));
            }
        }
    }
    /// All three end-of-line flavours give valid files that read back identically; CR-only
    /// files contain no LF outside stream objects, and `stream` is never followed by CR alone.
    #[test]
    fn eol_flavours_validate_and_read_back() {
        for eol in [Eol::Lf, Eol::Cr, Eol::CrLf] {
            for (f1, f2, objstm) in [(XrefForm::Table, XrefForm::Table, false), (XrefForm::Table, XrefForm::Stream, false), (XrefForm::Stream, XrefForm::Table, true)] {
                let objs = simple_doc_objects(2, &|i| format!("BT (p{i}) Tj ET").into_bytes());
                let mut r = Revision::new(f1);
                for (n, o) in objs {
                    if objstm && !matches!(o, Obj::Stream(_)) {
                        r.in_objstm.insert(n);
                    }
                    r.add(n, o);
                }
                r.add(10, Obj::Int(1));
                r.add(11, Obj::Int(1));
                let mut r2 = Revision::new(f2);
                r2.add(10, Obj::Int(2));
                r2.free.push((11, 1));
                let mut fb = FileBuilder::new(1);
                fb.eol = eol;
                fb.revisions = vec![r, r2];
                let b = fb.build();
                let issues = validate(&b.bytes);
                assert!(issues.is_empty(), "{eol:?} {f1:?}/{f2:?}: {issues:?}");
                let f = PdfFile::parse(&b.bytes).unwrap();
                assert_eq!(f.get(10), Obj::Int(2));
                assert_eq!(f.get(11), Obj::Null);
                let pages = f.pages().unwrap();
                assert_eq!(pages.len(), 2);
                assert_eq!(f.page_content(&pages[1]).unwrap(), b"BT (p1) Tj ET");
                for (n, off) in &b.offsets[0] {
                    assert!(b.bytes[*off..].starts_with(format!("{n} 0 obj{}", eol.s()).as_bytes()), "{eol:?}: header of {n}");
                }
                if f1 == XrefForm::Table {
                    // 20-byte entries with the flavour's two-byte ending
                    let x = b.xref_offsets[0] + 4 + eol.s().len();
                    let hdr_end = crate::file::find_first(&b.bytes, eol.s().as_bytes(), x).unwrap() + eol.s().len();
                    assert_eq!(&b.bytes[hdr_end + 18..hdr_end + 20], eol.entry_end().as_bytes());
                }
                if eol != Eol::Lf {
                    assert!(crate::file::find_first(&b.bytes, b"obj\n", 0).is_none(), "{eol:?}: LF after an obj keyword");
                }
                // `stream` is followed by LF in every flavour
                let mut p = 0;
                while let Some(i) = crate::file::find_first(&b.bytes, b"\nstream", p) {
                    assert_eq!(b.bytes[i + 7], b'\n', "{eol:?}: stream keyword at {i}");
                    p = i + 7;
                }
            }
        }
    }
    /// Behaviours the C04 / C19 checks rely on: an object listed twice in one revision leaves
    /// an orphaned earlier copy and the table references the later one; a freed object can be
    /// re-added with the generation recorded in its free entry; an object stream in an
    /// appended revision supersedes a plain definition and vice versa.
    #[test]
    fn orphan_copy_readd_and_objstm_supersession() {
        let objs = simple_doc_objects(1, &|_| b"BT ET".to_vec());
        let mut r = Revision::new(XrefForm::Stream);
        r.add(10, Obj::Int(100)); // orphaned copy
        for (n, o) in objs {
            r.add(n, o);
        }
        r.add(10, Obj::Int(1));
        r.add(11, Obj::Int(1));
        r.add(12, Obj::dict(vec![("V", Obj::Int(1))]));
        r.in_objstm.insert(12);
        let mut r2 = Revision::new(XrefForm::Table);
        r2.free.push((11, 1));
        r2.add(12, Obj::dict(vec![("V", Obj::Int(2))])); // plain supersedes compressed
        let mut r3 = Revision::new(XrefForm::Stream);
        r3.objects.push((11, 1, Obj::Int(3))); // re-add with the bumped generation
        r3.add(10, Obj::dict(vec![("V", Obj::Int(3))]));
        r3.in_objstm.insert(10); // compressed supersedes plain
        let mut fb = FileBuilder::new(1);
        fb.revisions = vec![r, r2, r3];
        let b = fb.build();
        let issues = validate(&b.bytes);
        assert!(issues.is_empty(), "{issues:?}");
        // the orphan is in the file, before the referenced copy
        let first = crate::file::find_first(&b.bytes, b"10 0 obj\n100", 0).expect("orphan present");
        assert!(first < b.offsets[0][&10]);
        let f1 = PdfFile::parse(&b.bytes[..b.lengths[0]]).unwrap();
        assert_eq!(f1.get(10), Obj::Int(1));
        assert_eq!(f1.get(12).dict_get("V"), Some(&Obj::Int(1)));
        let f2 = PdfFile::parse(&b.bytes[..b.lengths[1]]).unwrap();
        assert_eq!(f2.get(11), Obj::Null);
        assert_eq!(f2.get(12).dict_get("V"), Some(&Obj::Int(2)));
        let f3 = PdfFile::parse(&b.bytes).unwrap();
        assert_eq!(f3.get_gen(11, 1), Obj::Int(3));
        assert_eq!(f3.get_gen(11, 0), Obj::Null);
        assert_eq!(f3.get(10).dict_get("V"), Some(&Obj::Int(3)));
        assert_eq!(f3.get(12).dict_get("V"), Some(&Obj::Int(2)));
    }
}
