//! refpdf — the reference layer: independent re-implementations of the parts of PDF the
//! checks need an oracle for, written from the specifications (never from /repo).
//! Optional parts sit behind cargo features so that a part under construction cannot
//! break the build of checks that do not use it.
pub mod builder;
pub mod file;
pub mod filters;
pub mod syntax;
pub mod textstr;

#[cfg(feature = "ccitt")]
pub mod ccitt;
#[cfg(feature = "cff")]
pub mod cff;
#[cfg(feature = "cmap")]
pub mod cmap;
#[cfg(feature = "content")]
pub mod content;
#[cfg(feature = "crypto")]
pub mod crypto;
#[cfg(feature = "encodings")]
pub mod encodings;
#[cfg(feature = "pngenc")]
pub mod pngenc;
#[cfg(feature = "ttf")]
pub mod ttf;
