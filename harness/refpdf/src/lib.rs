//! refpdf — the reference layer: independent re-implementations of the parts of PDF the
//! checks need an oracle for, written from the specifications (never from /repo).
pub mod builder;
pub mod file;
pub mod filters;
pub mod syntax;
pub mod textstr;
