//! Text-string codec (ISO 32000-1 §7.9.2.2, ISO 32000-2 for the UTF-8 form) and the
//! PDFDocEncoding table (Annex D.2 / D.3), written from the standard.

/// PDFDocEncoding byte → Unicode. None = undefined in the table.
pub fn pdfdoc_to_unicode(b: u8) -> Option<char> {
    const HI: [u32; 33] = [
        0x2022, 0x2020, 0x2021, 0x2026, 0x2014, 0x2013, 0x0192, 0x2044, 0x2039, 0x203A, 0x2212, 0x2030, 0x201E, 0x201C,
        0x201D, 0x2018, 0x2019, 0x201A, 0x2122, 0xFB01, 0xFB02, 0x0141, 0x0152, 0x0160, 0x0178, 0x017D, 0x0131, 0x0142,
        0x0153, 0x0161, 0x017E, 0, 0x20AC,
    ];
    const LO: [u32; 8] = [0x02D8, 0x02C7, 0x02C6, 0x02D9, 0x02DD, 0x02DB, 0x02DA, 0x02DC];
    let cp = match b {
        0x09 | 0x0A | 0x0D => b as u32,
        0x00..=0x17 => return None,
        0x18..=0x1F => LO[(b - 0x18) as usize],
        0x20..=0x7E => b as u32,
        0x7F => return None,
        0x80..=0xA0 => {
            let v = HI[(b - 0x80) as usize];
            if v == 0 {
                return None;
            }
            v
        }
        0xAD => return None,
        _ => b as u32,
    };
    char::from_u32(cp)
}

pub fn unicode_to_pdfdoc(c: char) -> Option<u8> {
    (0u16..=255).map(|b| b as u8).find(|&b| pdfdoc_to_unicode(b) == Some(c))
}

/// Decode a text string the way a conforming reader does.
/// Undefined PDFDocEncoding bytes decode to U+FFFD; control bytes 0x00–0x17 that the table
/// leaves undefined are passed through as the same code point (universal reader practice).
pub fn decode_text_string(b: &[u8]) -> String {
    if b.starts_with(&[0xFE, 0xFF]) {
        let units: Vec<u16> = b[2..].chunks(2).map(|c| if c.len() == 2 { (c[0] as u16) << 8 | c[1] as u16 } else { 0xFFFD }).collect();
        char::decode_utf16(units).map(|r| r.unwrap_or('\u{FFFD}')).collect()
    } else if b.starts_with(&[0xEF, 0xBB, 0xBF]) {
        String::from_utf8_lossy(&b[3..]).into_owned()
    } else {
        b.iter()
            .map(|&x| match pdfdoc_to_unicode(x) {
                Some(c) => c,
                None if x < 0x18 => x as char,
                None => '\u{FFFD}',
            })
            .collect()
    }
}

/// Encode as a text string: PDFDocEncoding when every character is representable and the
/// result cannot be mistaken for a BOM, else UTF-16BE with BOM.
pub fn encode_text_string(s: &str) -> Vec<u8> {
    let pd: Option<Vec<u8>> = s.chars().map(unicode_to_pdfdoc).collect();
    if let Some(v) = pd {
        if !v.starts_with(&[0xFE, 0xFF]) && !v.starts_with(&[0xEF, 0xBB, 0xBF]) {
            return v;
        }
    }
    let mut o = vec![0xFE, 0xFF];
    for u in s.encode_utf16() {
        o.extend_from_slice(&u.to_be_bytes());
    }
    o
}

#[cfg(test)]
mod tests {
    use super::*;
    #[test]
    fn roundtrip() {
        for s in ["", "abc", "Año €", "中文", "😀", "\u{FEFF}x", "þÿ", "a\r\nb", "Ł"] {
            assert_eq!(decode_text_string(&encode_text_string(s)), s, "{s:?}");
        }
        assert_eq!(decode_text_string(b"\xFE\xFF\xD8\x3D\xDE\x00"), "😀");
        assert_eq!(decode_text_string(b"\xEF\xBB\xBFA\xC3\xB1o"), "Año");
        assert_eq!(decode_text_string(b"\xA0\x80"), "€•");
    }
}
