//! refpdf::pngenc — not written yet.
