//! refpdf::pngenc — a PNG *encoder* written from the PNG specification (W3C PNG, 2nd
//! edition / ISO 15948; RFC 2083), plus the image-XObject sample interpreter of
//! ISO 32000-1 §8.9.5 that the C24 check needs to read an embedded image back.
//! Nothing here is derived from the library under test.
//!
//! Encoder coverage: the 15 valid colour-type/bit-depth pairs, row filters 0–4 chosen per
//! row, Adam7 interlacing, PLTE, tRNS (grey / RGB colour key, palette alpha table), IDAT
//! split into several chunks, zlib through `flate2`, CRC-32 per chunk (own table).
//! Validation (unit tests at the bottom): every file written is decoded by the third-party
//! `png` crate and must give back the samples / RGBA values that were asked for.

use crate::syntax::{Dict, Obj};
use std::io::Write;

// ------------------------------------------------------------------------------------
// PNG encoder
// ------------------------------------------------------------------------------------

/// tRNS content (PNG §11.3.2.1).
#[derive(Clone, Debug, PartialEq)]
pub enum Trns {
    /// colour type 0: one grey sample value (in the image's own bit depth) is transparent
    Gray(u16),
    /// colour type 2: one RGB triple is transparent
    Rgb(u16, u16, u16),
    /// colour type 3: alpha per palette entry; may be shorter than the palette
    Palette(Vec<u8>),
}

/// How the filter type of each scanline is chosen.
#[derive(Clone, Debug, PartialEq)]
pub enum RowFilter {
    /// the same filter type (0..=4) on every row
    Fixed(u8),
    /// row `y` of each (sub)image uses `(y + offset) % 5`
    Cycle(u8),
    /// per row, the type with the smallest sum of absolute signed residuals (§12.8 heuristic)
    MinSum,
}

#[derive(Clone, Debug)]
pub struct PngSpec {
    pub width: u32,
    pub height: u32,
    /// 0 grey, 2 RGB, 3 palette, 4 grey+alpha, 6 RGB+alpha
    pub color_type: u8,
    pub bit_depth: u8,
    pub interlace: bool,
    /// PLTE entries (required for colour type 3; written for 2/6 too when non-empty)
    pub palette: Vec<[u8; 3]>,
    pub trns: Option<Trns>,
    pub filter: RowFilter,
    /// row-major samples, `channels` per pixel, each `< 2^bit_depth` (palette: the index)
    pub samples: Vec<u16>,
    /// maximum IDAT chunk payload; 0 = a single IDAT
    pub idat_chunk: usize,
    /// zlib level 0..=9
    pub level: u32,
    /// write pHYs + tEXt before PLTE/IDAT and a tEXt after the last IDAT
    pub ancillary: bool,
}

pub const VALID_PAIRS: [(u8, u8); 15] = [
    (0, 1), (0, 2), (0, 4), (0, 8), (0, 16),
    (2, 8), (2, 16),
    (3, 1), (3, 2), (3, 4), (3, 8),
    (4, 8), (4, 16),
    (6, 8), (6, 16),
];

pub fn channels(color_type: u8) -> usize {
    match color_type {
        0 | 3 => 1,
        2 => 3,
        4 => 2,
        6 => 4,
        _ => panic!("invalid colour type {color_type}"),
    }
}

/// CRC-32 (ISO 3309 / PNG annex D), table driven.
pub fn crc32(bytes: &[u8]) -> u32 {
    static TABLE: std::sync::OnceLock<[u32; 256]> = std::sync::OnceLock::new();
    let t = TABLE.get_or_init(|| {
        let mut t = [0u32; 256];
        for n in 0..256u32 {
            let mut c = n;
            for _ in 0..8 {
                c = if c & 1 != 0 { 0xEDB8_8320 ^ (c >> 1) } else { c >> 1 };
            }
            t[n as usize] = c;
        }
        t
    });
    let mut c = 0xFFFF_FFFFu32;
    for &b in bytes {
        c = t[((c ^ b as u32) & 0xFF) as usize] ^ (c >> 8);
    }
    c ^ 0xFFFF_FFFF
}

fn chunk(out: &mut Vec<u8>, ty: &[u8; 4], data: &[u8]) {
    out.extend_from_slice(&(data.len() as u32).to_be_bytes());
    let start = out.len();
    out.extend_from_slice(ty);
    out.extend_from_slice(data);
    let c = crc32(&out[start..]);
    out.extend_from_slice(&c.to_be_bytes());
}

/// Pack one row of samples (`n_px` pixels × `ch` channels) into scanline bytes (§7.2):
/// samples MSB first, sub-byte samples packed left to right from the high bits, rows
/// padded with zero bits to a byte boundary, 16-bit samples big-endian.
pub fn pack_row(samples: &[u16], depth: u8) -> Vec<u8> {
    match depth {
        16 => samples.iter().flat_map(|s| s.to_be_bytes()).collect(),
        8 => samples.iter().map(|&s| s as u8).collect(),
        1 | 2 | 4 => {
            let per = 8 / depth as usize;
            let mut out = vec![0u8; samples.len().div_ceil(per)];
            for (i, &s) in samples.iter().enumerate() {
                debug_assert!(s < (1 << depth));
                let shift = 8 - depth as usize * (i % per + 1);
                out[i / per] |= (s as u8) << shift;
            }
            out
        }
        _ => panic!("invalid bit depth {depth}"),
    }
}

/// The scanlines of the whole (non-interlaced) image, packed, without filter bytes.
pub fn packed_rows(spec: &PngSpec) -> Vec<Vec<u8>> {
    let ch = channels(spec.color_type);
    let w = spec.width as usize;
    (0..spec.height as usize).map(|y| pack_row(&spec.samples[y * w * ch..(y + 1) * w * ch], spec.bit_depth)).collect()
}

fn paeth(a: u8, b: u8, c: u8) -> u8 {
    // §9.4: p = a + b - c; nearest of a, b, c to p, ties in the order a, b, c
    let (ia, ib, ic) = (a as i32, b as i32, c as i32);
    let p = ia + ib - ic;
    let (pa, pb, pc) = ((p - ia).abs(), (p - ib).abs(), (p - ic).abs());
    if pa <= pb && pa <= pc {
        a
    } else if pb <= pc {
        b
    } else {
        c
    }
}

/// Filter one scanline (§9.2). `bpp` = bytes per complete pixel, rounded up to 1.
pub fn filter_row(ft: u8, row: &[u8], prior: &[u8], bpp: usize) -> Vec<u8> {
    let mut out = Vec::with_capacity(row.len());
    for x in 0..row.len() {
        let a = if x >= bpp { row[x - bpp] } else { 0 };
        let b = prior[x];
        let c = if x >= bpp { prior[x - bpp] } else { 0 };
        let pred = match ft {
            0 => 0,
            1 => a,
            2 => b,
            3 => ((a as u16 + b as u16) / 2) as u8,
            4 => paeth(a, b, c),
            _ => panic!("invalid filter type {ft}"),
        };
        out.push(row[x].wrapping_sub(pred));
    }
    out
}

fn filter_image(rows: &[Vec<u8>], bpp: usize, choice: &RowFilter, out: &mut Vec<u8>) {
    if rows.is_empty() {
        return;
    }
    let mut prior = vec![0u8; rows[0].len()];
    for (y, row) in rows.iter().enumerate() {
        let ft = match choice {
            RowFilter::Fixed(f) => *f,
            RowFilter::Cycle(o) => ((y + *o as usize) % 5) as u8,
            RowFilter::MinSum => (0..5u8)
                .min_by_key(|f| filter_row(*f, row, &prior, bpp).iter().map(|&b| (b as i8).unsigned_abs() as u64).sum::<u64>())
                .unwrap(),
        };
        out.push(ft);
        out.extend(filter_row(ft, row, &prior, bpp));
        prior = row.clone();
    }
}

/// Adam7 passes (§8.2): (x start, y start, x step, y step).
pub const ADAM7: [(usize, usize, usize, usize); 7] =
    [(0, 0, 8, 8), (4, 0, 8, 8), (0, 4, 4, 8), (2, 0, 4, 4), (0, 2, 2, 4), (1, 0, 2, 2), (0, 1, 1, 2)];

/// Encode to a complete PNG datastream. Panics on a spec that is not a valid PNG
/// (wrong pair, sample out of range, palette index beyond PLTE, …) — the generator must
/// only ask for valid files.
pub fn encode(spec: &PngSpec) -> Vec<u8> {
    assert!(VALID_PAIRS.contains(&(spec.color_type, spec.bit_depth)), "invalid colour type / bit depth pair");
    assert!(spec.width > 0 && spec.height > 0);
    let ch = channels(spec.color_type);
    let (w, h) = (spec.width as usize, spec.height as usize);
    assert_eq!(spec.samples.len(), w * h * ch, "sample count");
    let max = if spec.bit_depth == 16 { u16::MAX as u32 } else { (1u32 << spec.bit_depth) - 1 };
    assert!(spec.samples.iter().all(|&s| s as u32 <= max), "sample exceeds bit depth");
    if spec.color_type == 3 {
        assert!(!spec.palette.is_empty() && spec.palette.len() <= (1 << spec.bit_depth), "PLTE size");
        assert!(spec.samples.iter().all(|&s| (s as usize) < spec.palette.len()), "palette index beyond PLTE");
    } else {
        assert!(spec.color_type == 2 || spec.color_type == 6 || spec.palette.is_empty(), "PLTE not allowed for grey");
    }
    match (&spec.trns, spec.color_type) {
        (None, _) => {}
        (Some(Trns::Gray(v)), 0) => assert!(*v as u32 <= max),
        (Some(Trns::Rgb(r, g, b)), 2) => assert!([r, g, b].iter().all(|v| **v as u32 <= max)),
        (Some(Trns::Palette(t)), 3) => assert!(!t.is_empty() && t.len() <= spec.palette.len()),
        _ => panic!("tRNS form does not fit the colour type"),
    }

    let mut out = Vec::new();
    out.extend_from_slice(b"\x89PNG\r\n\x1a\n");
    let mut ihdr = Vec::new();
    ihdr.extend_from_slice(&spec.width.to_be_bytes());
    ihdr.extend_from_slice(&spec.height.to_be_bytes());
    ihdr.extend_from_slice(&[spec.bit_depth, spec.color_type, 0, 0, spec.interlace as u8]);
    chunk(&mut out, b"IHDR", &ihdr);
    if spec.ancillary {
        // 2835 px/m in both directions, unit metre; and a Latin-1 text chunk
        let mut phys = Vec::new();
        phys.extend_from_slice(&2835u32.to_be_bytes());
        phys.extend_from_slice(&2835u32.to_be_bytes());
        phys.push(1);
        chunk(&mut out, b"pHYs", &phys);
        chunk(&mut out, b"tEXt", b"Comment\0IDAT IEND PLTE tRNS inside a text chunk");
    }
    if !spec.palette.is_empty() {
        let p: Vec<u8> = spec.palette.iter().flatten().copied().collect();
        chunk(&mut out, b"PLTE", &p);
    }
    match &spec.trns {
        None => {}
        Some(Trns::Gray(v)) => chunk(&mut out, b"tRNS", &v.to_be_bytes()),
        Some(Trns::Rgb(r, g, b)) => {
            let d: Vec<u8> = [r, g, b].iter().flat_map(|v| v.to_be_bytes()).collect();
            chunk(&mut out, b"tRNS", &d);
        }
        Some(Trns::Palette(t)) => chunk(&mut out, b"tRNS", t),
    }

    // filtered scanlines
    let bpp = (ch * spec.bit_depth as usize).div_ceil(8).max(1);
    let mut raw = Vec::new();
    if !spec.interlace {
        filter_image(&packed_rows(spec), bpp, &spec.filter, &mut raw);
    } else {
        for &(x0, y0, dx, dy) in &ADAM7 {
            if x0 >= w || y0 >= h {
                continue; // empty pass: no scanlines at all, not even filter bytes
            }
            let rows: Vec<Vec<u8>> = (y0..h)
                .step_by(dy)
                .map(|y| {
                    let mut s = Vec::new();
                    for x in (x0..w).step_by(dx) {
                        let i = (y * w + x) * ch;
                        s.extend_from_slice(&spec.samples[i..i + ch]);
                    }
                    pack_row(&s, spec.bit_depth)
                })
                .collect();
            filter_image(&rows, bpp, &spec.filter, &mut raw);
        }
    }
    let mut z = flate2::write::ZlibEncoder::new(Vec::new(), flate2::Compression::new(spec.level.min(9)));
    z.write_all(&raw).unwrap();
    let z = z.finish().unwrap();
    if spec.idat_chunk == 0 {
        chunk(&mut out, b"IDAT", &z);
    } else {
        for part in z.chunks(spec.idat_chunk) {
            chunk(&mut out, b"IDAT", part);
        }
    }
    if spec.ancillary {
        chunk(&mut out, b"tEXt", b"Software\0refpdf::pngenc");
    }
    chunk(&mut out, b"IEND", &[]);
    out
}

/// Pixels in a common RGBA form: `depth` is 8 or 16 and applies to all four channels.
#[derive(Clone, Debug, PartialEq)]
pub struct Rgba {
    pub width: u32,
    pub height: u32,
    pub depth: u8,
    pub px: Vec<[u16; 4]>,
}

/// What a conforming decoder that expands palette, sub-byte grey and tRNS must deliver
/// (PNG §13.12–13.16): grey below 8 bits scaled exactly by 255/(2^d−1), 16-bit kept, palette
/// looked up, tRNS colour key → alpha 0 on exactly matching *unscaled* samples, palette
/// entries beyond the tRNS table opaque.
pub fn expected_rgba(spec: &PngSpec) -> Rgba {
    let ch = channels(spec.color_type);
    let d = spec.bit_depth;
    let out_depth = if d == 16 { 16 } else { 8 };
    let opaque: u16 = if d == 16 { 65535 } else { 255 };
    let scale = |v: u16| -> u16 {
        match d {
            1 | 2 | 4 => (v as u32 * 255 / ((1u32 << d) - 1)) as u16,
            _ => v,
        }
    };
    let px = spec
        .samples
        .chunks(ch)
        .map(|s| match spec.color_type {
            0 => {
                let a = if spec.trns == Some(Trns::Gray(s[0])) { 0 } else { opaque };
                [scale(s[0]), scale(s[0]), scale(s[0]), a]
            }
            2 => {
                let a = if spec.trns == Some(Trns::Rgb(s[0], s[1], s[2])) { 0 } else { opaque };
                [s[0], s[1], s[2], a]
            }
            3 => {
                let e = spec.palette[s[0] as usize];
                let a = match &spec.trns {
                    Some(Trns::Palette(t)) => t.get(s[0] as usize).copied().unwrap_or(255),
                    _ => 255,
                };
                [e[0] as u16, e[1] as u16, e[2] as u16, a as u16]
            }
            4 => [s[0], s[0], s[0], s[1]],
            6 => [s[0], s[1], s[2], s[3]],
            _ => unreachable!(),
        })
        .collect();
    Rgba { width: spec.width, height: spec.height, depth: out_depth, px }
}

/// Decode a PNG with the third-party `png` crate (palette, sub-byte grey and tRNS expanded,
/// 16 bits kept) into the common RGBA form. This is the independent decoder of property C24.
pub fn decode_with_png_crate(bytes: &[u8]) -> Result<Rgba, String> {
    let mut dec = png::Decoder::new(std::io::Cursor::new(bytes));
    dec.set_transformations(png::Transformations::EXPAND);
    let mut reader = dec.read_info().map_err(|e| format!("png crate: {e}"))?;
    let size = reader.output_buffer_size().ok_or("png crate: output size overflow")?;
    let mut buf = vec![0u8; size];
    let info = reader.next_frame(&mut buf).map_err(|e| format!("png crate: {e}"))?;
    let depth = match info.bit_depth {
        png::BitDepth::Eight => 8u8,
        png::BitDepth::Sixteen => 16,
        other => return Err(format!("png crate delivered depth {other:?} after EXPAND")),
    };
    let ch = match info.color_type {
        png::ColorType::Grayscale => 1,
        png::ColorType::GrayscaleAlpha => 2,
        png::ColorType::Rgb => 3,
        png::ColorType::Rgba => 4,
        png::ColorType::Indexed => return Err("png crate delivered indexed after EXPAND".into()),
    };
    let (w, h) = (info.width as usize, info.height as usize);
    let bps = depth as usize / 8;
    let opaque: u16 = if depth == 16 { 65535 } else { 255 };
    let mut px = Vec::with_capacity(w * h);
    for y in 0..h {
        let row = &buf[y * info.line_size..];
        for x in 0..w {
            let s = |c: usize| -> u16 {
                let o = (x * ch + c) * bps;
                if bps == 2 { u16::from_be_bytes([row[o], row[o + 1]]) } else { row[o] as u16 }
            };
            px.push(match ch {
                1 => [s(0), s(0), s(0), opaque],
                2 => [s(0), s(0), s(0), s(1)],
                3 => [s(0), s(1), s(2), opaque],
                _ => [s(0), s(1), s(2), s(3)],
            });
        }
    }
    Ok(Rgba { width: info.width, height: info.height, depth, px })
}

// ------------------------------------------------------------------------------------
// Image XObject sample interpreter (ISO 32000-1 §8.9.5, §8.6.6.3 Indexed, §11.6.5.3 SMask)
// ------------------------------------------------------------------------------------

/// One decoded image plane set: colour as RGB plus the depth the samples were stored at.
#[derive(Clone, Debug, PartialEq)]
pub struct XImage {
    pub width: u32,
    pub height: u32,
    /// 8 or 16: resolution of `rgb` values (16 only when /BitsPerComponent is 16)
    pub colour_depth: u8,
    pub rgb: Vec<[u16; 3]>,
    /// raw sample values before /Decode, `ncomp` per pixel (needed for colour-key masks)
    pub raw: Vec<u16>,
    pub ncomp: usize,
    pub bpc: u8,
    /// description of the representation, for outcome classes: e.g. "DeviceRGB/8"
    pub repr: String,
    /// bytes of decoded stream data beyond what width × height × components need
    pub surplus_bytes: usize,
}

/// Unpack `/BitsPerComponent`-bit samples: rows start on byte boundaries, samples MSB first
/// (§8.9.3). Returns Err when the data is too short for `width × height × ncomp` samples.
pub fn unpack_samples(data: &[u8], width: usize, height: usize, ncomp: usize, bpc: u8) -> Result<(Vec<u16>, usize), String> {
    if ![1, 2, 4, 8, 16].contains(&bpc) {
        return Err(format!("/BitsPerComponent {bpc} is not 1, 2, 4, 8 or 16"));
    }
    let row_bytes = (width * ncomp * bpc as usize).div_ceil(8);
    let need = row_bytes * height;
    if data.len() < need {
        return Err(format!("sample data too short: {} bytes, {}x{}x{} at {} bits needs {}", data.len(), width, height, ncomp, bpc, need));
    }
    let mut out = Vec::with_capacity(width * height * ncomp);
    for y in 0..height {
        let row = &data[y * row_bytes..(y + 1) * row_bytes];
        for i in 0..width * ncomp {
            let v = match bpc {
                16 => u16::from_be_bytes([row[2 * i], row[2 * i + 1]]),
                8 => row[i] as u16,
                _ => {
                    let bit = i * bpc as usize;
                    let shift = 8 - bpc as usize - bit % 8;
                    ((row[bit / 8] >> shift) & ((1u8 << bpc) - 1)) as u16
                }
            };
            out.push(v);
        }
    }
    Ok((out, data.len() - need))
}

enum Cs {
    Gray,
    Rgb,
    /// base is grey (1) or RGB (3); lookup bytes; hival
    Indexed(usize, Vec<u8>, usize),
}

/// Interpret a colour space object whose references have already been resolved
/// (`lookup_stream_data` supplies decoded data when the Indexed lookup is a stream).
fn colour_space(cs: &Obj, lookup_stream_data: &dyn Fn(&Obj) -> Option<Vec<u8>>) -> Result<(Cs, String), String> {
    let base = |o: &Obj| -> Option<usize> {
        match o.as_name()? {
            b"DeviceGray" | b"G" | b"CalGray" => Some(1),
            b"DeviceRGB" | b"RGB" | b"CalRGB" => Some(3),
            _ => None,
        }
    };
    if let Some(n) = cs.as_name() {
        return match n {
            b"DeviceGray" | b"G" => Ok((Cs::Gray, "DeviceGray".into())),
            b"DeviceRGB" | b"RGB" => Ok((Cs::Rgb, "DeviceRGB".into())),
            other => Err(format!("colour space /{} not interpreted by the reference", String::from_utf8_lossy(other))),
        };
    }
    let a = cs.as_array().ok_or("colour space is neither a name nor an array")?;
    match a.first().and_then(|o| o.as_name()) {
        Some(b"Indexed") | Some(b"I") if a.len() == 4 => {
            let nb = base(&a[1]).ok_or("Indexed base colour space not interpreted by the reference")?;
            let hival = a[2].as_int().filter(|h| (0..=255).contains(h)).ok_or("Indexed hival not an integer 0..=255")? as usize;
            let lookup = match &a[3] {
                Obj::Str(s) => s.clone(),
                o @ Obj::Stream(_) => lookup_stream_data(o).ok_or("Indexed lookup stream undecodable")?,
                _ => return Err("Indexed lookup is neither a string nor a stream".into()),
            };
            if lookup.len() < (hival + 1) * nb {
                return Err(format!("Indexed lookup has {} bytes, hival {} needs {}", lookup.len(), hival, (hival + 1) * nb));
            }
            Ok((Cs::Indexed(nb, lookup, hival), format!("Indexed[{}]", if nb == 1 { "Gray" } else { "RGB" })))
        }
        Some(b"CalGray") => Ok((Cs::Gray, "CalGray".into())),
        Some(b"CalRGB") => Ok((Cs::Rgb, "CalRGB".into())),
        Some(other) => Err(format!("colour space [/{} …] not interpreted by the reference", String::from_utf8_lossy(other))),
        None => Err("colour space array does not start with a name".into()),
    }
}

fn decode_array(d: &Dict, n: usize) -> Result<Option<Vec<(f64, f64)>>, String> {
    match d.get("Decode").or_else(|| d.get("D")) {
        None | Some(Obj::Null) => Ok(None),
        Some(o) => {
            let a = o.as_array().ok_or("/Decode is not an array")?;
            if a.len() != 2 * n {
                return Err(format!("/Decode has {} numbers, expected {}", a.len(), 2 * n));
            }
            let v: Option<Vec<f64>> = a.iter().map(|x| x.as_num()).collect();
            let v = v.ok_or("/Decode holds a non-number")?;
            Ok(Some(v.chunks(2).map(|p| (p[0], p[1])).collect()))
        }
    }
}

/// Interpret the samples of an image XObject. `dict` = the stream dictionary with
/// /ColorSpace (and anything inside it) already resolved to direct objects; `data` = the
/// stream data after its filters.
pub fn interpret_image(dict: &Dict, data: &[u8], lookup_stream_data: &dyn Fn(&Obj) -> Option<Vec<u8>>) -> Result<XImage, String> {
    let int = |k: &str| -> Result<i64, String> { dict.get(k).and_then(|o| o.as_int()).ok_or(format!("image has no integer /{k}")) };
    let (w, h) = (int("Width")?, int("Height")?);
    if w <= 0 || h <= 0 {
        return Err(format!("image dimensions {w}x{h}"));
    }
    let bpc = int("BitsPerComponent")?;
    if !(1..=16).contains(&bpc) {
        return Err(format!("/BitsPerComponent {bpc}"));
    }
    let bpc = bpc as u8;
    let cs_obj = dict.get("ColorSpace").or_else(|| dict.get("CS")).ok_or("image has no /ColorSpace")?;
    let (cs, cs_name) = colour_space(cs_obj, lookup_stream_data)?;
    let ncomp = match cs {
        Cs::Gray | Cs::Indexed(..) => 1,
        Cs::Rgb => 3,
    };
    let (raw, surplus) = unpack_samples(data, w as usize, h as usize, ncomp, bpc)?;
    let dec = decode_array(dict, ncomp)?;
    let maxv = ((1u32 << bpc) - 1) as f64;
    let colour_depth: u8 = if bpc == 16 && !matches!(cs, Cs::Indexed(..)) { 16 } else { 8 };
    let full = if colour_depth == 16 { 65535.0 } else { 255.0 };
    // component value in the output resolution (§8.9.5.2: Dmin + v·(Dmax−Dmin)/(2ⁿ−1))
    let comp = |v: u16, c: usize| -> u16 {
        match &dec {
            None => {
                if bpc == 8 || bpc == 16 {
                    v
                } else {
                    (v as u32 * 255 / ((1u32 << bpc) - 1)) as u16
                }
            }
            Some(d) => {
                let (lo, hi) = d[c];
                let f = (lo + v as f64 * (hi - lo) / maxv).clamp(0.0, 1.0);
                (f * full).round() as u16
            }
        }
    };
    let mut rgb = Vec::with_capacity(raw.len() / ncomp);
    for p in raw.chunks(ncomp) {
        rgb.push(match &cs {
            Cs::Gray => {
                let g = comp(p[0], 0);
                [g, g, g]
            }
            Cs::Rgb => [comp(p[0], 0), comp(p[1], 1), comp(p[2], 2)],
            Cs::Indexed(nb, lookup, hival) => {
                // default /Decode for Indexed is [0 2ⁿ−1]: the sample is the index
                let idx = match &dec {
                    None => p[0] as f64,
                    Some(d) => d[0].0 + p[0] as f64 * (d[0].1 - d[0].0) / maxv,
                };
                // §8.6.6.3: out-of-range indices are clamped to 0..=hival
                let idx = (idx.round().max(0.0) as usize).min(*hival);
                if *nb == 1 {
                    let g = lookup[idx] as u16;
                    [g, g, g]
                } else {
                    [lookup[3 * idx] as u16, lookup[3 * idx + 1] as u16, lookup[3 * idx + 2] as u16]
                }
            }
        });
    }
    Ok(XImage {
        width: w as u32,
        height: h as u32,
        colour_depth,
        rgb,
        raw,
        ncomp,
        bpc,
        repr: format!("{cs_name}/{bpc}{}", if dec.is_some() { "/Decode" } else { "" }),
        surplus_bytes: surplus,
    })
}

/// Alpha plane of a soft-mask image (§11.6.5.3): a DeviceGray image XObject; returns
/// (depth 8|16, values). /Matte (pre-blended colour) is reported as an error because the
/// colour would then need un-blending.
pub fn interpret_smask(dict: &Dict, data: &[u8]) -> Result<(u32, u32, u8, Vec<u16>), String> {
    if dict.get("Matte").is_some() {
        return Err("/SMask with /Matte not interpreted by the reference".into());
    }
    match dict.get("ColorSpace").and_then(|o| o.as_name()) {
        Some(b"DeviceGray") => {}
        _ => return Err("/SMask colour space is not /DeviceGray".into()),
    }
    let x = interpret_image(dict, data, &|_| None)?;
    Ok((x.width, x.height, x.colour_depth, x.rgb.iter().map(|p| p[0]).collect()))
}

/// Alpha from a colour-key /Mask array (§8.9.6.4): a pixel whose every raw component lies
/// in [min, max] is not painted.
pub fn colour_key_alpha(img: &XImage, mask: &[Obj]) -> Result<Vec<u16>, String> {
    if mask.len() != 2 * img.ncomp {
        return Err(format!("colour-key /Mask has {} numbers, expected {}", mask.len(), 2 * img.ncomp));
    }
    let m: Option<Vec<i64>> = mask.iter().map(|o| o.as_int()).collect();
    let m = m.ok_or("colour-key /Mask holds a non-integer")?;
    Ok(img
        .raw
        .chunks(img.ncomp)
        .map(|p| {
            let inside = p.iter().enumerate().all(|(c, &v)| (m[2 * c]..=m[2 * c + 1]).contains(&(v as i64)));
            if inside { 0 } else { 255 }
        })
        .collect())
}

/// Alpha from an explicit stencil /Mask stream (§8.9.6.3): /ImageMask true, 1 bit per
/// sample; with the default /Decode [0 1] a 0 sample is painted, a 1 sample is masked out.
pub fn stencil_alpha(dict: &Dict, data: &[u8]) -> Result<(u32, u32, Vec<u16>), String> {
    if dict.get("ImageMask") != Some(&Obj::Bool(true)) {
        return Err("explicit /Mask stream is not an /ImageMask".into());
    }
    let w = dict.get("Width").and_then(|o| o.as_int()).ok_or("mask has no /Width")? as usize;
    let h = dict.get("Height").and_then(|o| o.as_int()).ok_or("mask has no /Height")? as usize;
    if let Some(b) = dict.get("BitsPerComponent").and_then(|o| o.as_int()) {
        if b != 1 {
            return Err("image mask /BitsPerComponent is not 1".into());
        }
    }
    let inverted = match decode_array(dict, 1)? {
        None => false,
        Some(d) => d[0] == (1.0, 0.0),
    };
    let (raw, _) = unpack_samples(data, w, h, 1, 1)?;
    Ok((w as u32, h as u32, raw.iter().map(|&v| if (v == 0) != inverted { 255 } else { 0 }).collect()))
}

// ------------------------------------------------------------------------------------
// validation
// ------------------------------------------------------------------------------------
#[cfg(test)]
mod tests {
    use super::*;

    fn mix(mut x: u64) -> u64 {
        x ^= x >> 33;
        x = x.wrapping_mul(0xff51_afd7_ed55_8ccd);
        x ^= x >> 33;
        x = x.wrapping_mul(0xc4ce_b9fe_1a85_ec53);
        x ^ (x >> 33)
    }

    fn spec(ct: u8, d: u8, w: u32, h: u32, interlace: bool, filter: RowFilter, pattern: u8, trns: bool) -> PngSpec {
        let ch = channels(ct);
        let palette: Vec<[u8; 3]> = if ct == 3 {
            let n = if pattern % 2 == 0 { 1usize << d } else { ((1usize << d) * 3 / 4).max(1) };
            (0..n).map(|i| [(i * 37 + 11) as u8, (i * 101 + 3) as u8, 255u8.wrapping_sub((i * 13) as u8)]).collect()
        } else {
            vec![]
        };
        let lim: u64 = if ct == 3 { palette.len() as u64 } else if d == 16 { 65536 } else { 1 << d };
        let mut samples = Vec::new();
        for y in 0..h as u64 {
            for x in 0..w as u64 {
                for c in 0..ch as u64 {
                    let v = match pattern {
                        0 => (x * 3 + y * 5 + c * 7) * lim / 23 % lim,
                        1 => if (x + y + c) % 2 == 0 { 0 } else { lim - 1 },
                        _ => mix(x * 1_000_003 + y * 10_007 + c * 101 + d as u64) % lim,
                    };
                    samples.push(v as u16);
                }
            }
        }
        let trns = if !trns {
            None
        } else {
            match ct {
                0 => Some(Trns::Gray(samples[0])),
                2 => Some(Trns::Rgb(samples[0], samples[1], samples[2])),
                3 => Some(Trns::Palette((0..palette.len().div_ceil(2)).map(|i| (i * 85) as u8).collect())),
                _ => None,
            }
        };
        PngSpec { width: w, height: h, color_type: ct, bit_depth: d, interlace, palette, trns, filter, samples, idat_chunk: 0, level: 6, ancillary: false }
    }

    /// Raw (untransformed) decode by the `png` crate: packed scanlines exactly as encoded.
    /// Returns (interlaced flag, PLTE bytes, scanline bytes).
    fn raw_decode(bytes: &[u8]) -> (bool, Option<Vec<u8>>, Vec<u8>) {
        let mut dec = png::Decoder::new(std::io::Cursor::new(bytes));
        dec.set_transformations(png::Transformations::IDENTITY);
        let mut r = dec.read_info().expect("read_info");
        let mut buf = vec![0u8; r.output_buffer_size().unwrap()];
        let fi = r.next_frame(&mut buf).expect("next_frame");
        buf.truncate(fi.buffer_size());
        let info = r.info();
        (info.interlaced, info.palette.as_ref().map(|p| p.to_vec()), buf)
    }

    #[test]
    fn crc_matches_known_vectors() {
        assert_eq!(crc32(b"IEND"), 0xAE42_6082); // the CRC of every IEND chunk
        assert_eq!(crc32(b"123456789"), 0xCBF4_3926); // the standard check value
    }

    /// Every (pair of this colour type) × size × interlace × filter choice × pattern × tRNS:
    /// the `png` crate must return the packed scanlines and the expanded RGBA asked for.
    fn roundtrip_colour_type(only_ct: u8) -> usize {
        let sizes = [(1, 1), (1, 2), (3, 1), (7, 3), (9, 2), (8, 8), (17, 5), (33, 9)];
        let filters = [
            RowFilter::Fixed(0), RowFilter::Fixed(1), RowFilter::Fixed(2), RowFilter::Fixed(3), RowFilter::Fixed(4),
            RowFilter::Cycle(1), RowFilter::MinSum,
        ];
        let mut n = 0;
        for &(ct, d) in VALID_PAIRS.iter().filter(|p| p.0 == only_ct) {
            for &(w, h) in &sizes {
                for interlace in [false, true] {
                    for f in &filters {
                        for pattern in 0..3u8 {
                            for trns in [false, true] {
                                if trns && (ct == 4 || ct == 6) {
                                    continue;
                                }
                                let s = spec(ct, d, w, h, interlace, f.clone(), pattern, trns);
                                let bytes = encode(&s);
                                // 1. raw scanlines identical (de-interlaced by the png crate)
                                let (il, plte, raw) = raw_decode(&bytes);
                                let want_raw: Vec<u8> = packed_rows(&s).concat();
                                assert_eq!(raw, want_raw, "raw samples ct={ct} d={d} {w}x{h} il={interlace} f={f:?} p={pattern}");
                                assert_eq!(il, interlace);
                                if ct == 3 {
                                    let p: Vec<u8> = s.palette.iter().flatten().copied().collect();
                                    assert_eq!(plte, Some(p));
                                }
                                // 2. expanded RGBA equals the specification-derived expectation
                                let got = decode_with_png_crate(&bytes).expect("decode");
                                assert_eq!(got, expected_rgba(&s), "rgba ct={ct} d={d} {w}x{h} il={interlace} f={f:?} p={pattern} trns={trns}");
                                n += 1;
                            }
                        }
                    }
                }
            }
        }
        n
    }
    #[test]
    fn roundtrip_grey() {
        assert_eq!(roundtrip_colour_type(0), 5 * 8 * 2 * 7 * 3 * 2);
    }
    #[test]
    fn roundtrip_rgb() {
        assert_eq!(roundtrip_colour_type(2), 2 * 8 * 2 * 7 * 3 * 2);
    }
    #[test]
    fn roundtrip_palette() {
        assert_eq!(roundtrip_colour_type(3), 4 * 8 * 2 * 7 * 3 * 2);
    }
    #[test]
    fn roundtrip_grey_alpha() {
        assert_eq!(roundtrip_colour_type(4), 2 * 8 * 2 * 7 * 3);
    }
    #[test]
    fn roundtrip_rgb_alpha() {
        assert_eq!(roundtrip_colour_type(6), 2 * 8 * 2 * 7 * 3);
    }

    #[test]
    fn filter_types_are_the_ones_asked_for() {
        // inflate the IDAT ourselves and look at the filter bytes
        for f in 0..5u8 {
            let s = spec(2, 8, 7, 3, false, RowFilter::Fixed(f), 2, false);
            let bytes = encode(&s);
            let idat = idat_payload(&bytes);
            let raw = crate::filters::flate_decode(&idat).unwrap();
            let stride = 1 + 7 * 3;
            assert_eq!(raw.len(), 3 * stride);
            for y in 0..3 {
                assert_eq!(raw[y * stride], f);
            }
        }
        let s = spec(0, 8, 4, 7, false, RowFilter::Cycle(2), 2, false);
        let raw = crate::filters::flate_decode(&idat_payload(&encode(&s))).unwrap();
        for y in 0..7 {
            assert_eq!(raw[y * 5] as usize, (y + 2) % 5);
        }
    }

    fn idat_payload(png: &[u8]) -> Vec<u8> {
        let mut pos = 8;
        let mut out = Vec::new();
        while pos < png.len() {
            let len = u32::from_be_bytes(png[pos..pos + 4].try_into().unwrap()) as usize;
            if &png[pos + 4..pos + 8] == b"IDAT" {
                out.extend_from_slice(&png[pos + 8..pos + 8 + len]);
            }
            pos += 12 + len;
        }
        out
    }

    #[test]
    fn adam7_pass_geometry_of_small_images() {
        // 1x1: only pass 1 exists: one scanline of 1 pixel → 2 raw bytes for 8-bit grey
        let s = spec(0, 8, 1, 1, true, RowFilter::Fixed(0), 0, false);
        assert_eq!(crate::filters::flate_decode(&idat_payload(&encode(&s))).unwrap().len(), 2);
        // 3x1 8-bit grey: pass 1 (x=0), pass 4 (x=2), pass 6 (x=1) → three 1-pixel rows = 6 bytes
        let s = spec(0, 8, 3, 1, true, RowFilter::Fixed(0), 0, false);
        assert_eq!(crate::filters::flate_decode(&idat_payload(&encode(&s))).unwrap().len(), 6);
        // 8x8 1-bit grey: passes have 1,1,2,2x2,4x2,4x4,8x4 pixels → rows 1,1,1,2,2,4,4 each 1 byte + filter byte
        let s = spec(0, 1, 8, 8, true, RowFilter::Fixed(0), 1, false);
        assert_eq!(crate::filters::flate_decode(&idat_payload(&encode(&s))).unwrap().len(), (1 + 1 + 1 + 2 + 2 + 4 + 4) * 2);
    }

    #[test]
    fn idat_split_levels_and_ancillary_chunks_do_not_change_the_pixels() {
        for &(ct, d) in &VALID_PAIRS {
            for (idat, level, anc) in [(1, 6, false), (7, 0, true), (0, 9, true), (3, 1, false)] {
                let mut s = spec(ct, d, 9, 5, d % 2 == 0, RowFilter::Cycle(0), 2, ct < 4);
                s.idat_chunk = idat;
                s.level = level;
                s.ancillary = anc;
                let bytes = encode(&s);
                assert_eq!(decode_with_png_crate(&bytes).unwrap(), expected_rgba(&s));
                if idat == 1 {
                    assert!(bytes.windows(4).filter(|w| w == b"IDAT").count() > 5);
                }
            }
        }
    }

    #[test]
    fn trns_near_miss_stays_opaque() {
        // 16-bit RGB colour key: a pixel differing only in a low byte must stay opaque
        let mut s = spec(2, 16, 2, 1, false, RowFilter::Fixed(0), 0, false);
        s.samples = vec![0x1234, 0x5678, 0x9ABC, 0x1234, 0x5678, 0x9ABD];
        s.trns = Some(Trns::Rgb(0x1234, 0x5678, 0x9ABC));
        let got = decode_with_png_crate(&encode(&s)).unwrap();
        assert_eq!(got.px[0][3], 0);
        assert_eq!(got.px[1][3], 65535);
        assert_eq!(got, expected_rgba(&s));
    }

    // ---- image XObject interpreter

    fn d(entries: Vec<(&str, Obj)>) -> Dict {
        match Obj::dict(entries) {
            Obj::Dict(d) => d,
            _ => unreachable!(),
        }
    }

    #[test]
    fn interpreter_follows_iso_32000_sample_layout() {
        // 3x2 DeviceGray at 2 bits: rows padded to a byte: samples 0,1,2 | 3,2,1
        let dict = d(vec![("Width", Obj::Int(3)), ("Height", Obj::Int(2)), ("BitsPerComponent", Obj::Int(2)), ("ColorSpace", Obj::name("DeviceGray"))]);
        let x = interpret_image(&dict, &[0b00_01_10_00, 0b11_10_01_00], &|_| None).unwrap();
        assert_eq!(x.rgb.iter().map(|p| p[0]).collect::<Vec<_>>(), vec![0, 85, 170, 255, 170, 85]);
        assert_eq!(x.colour_depth, 8);
        // same with /Decode [1 0]
        let mut d2 = dict.clone();
        d2.set("Decode", Obj::Array(vec![Obj::Int(1), Obj::Int(0)]));
        let x = interpret_image(&d2, &[0b00_01_10_00, 0b11_10_01_00], &|_| None).unwrap();
        assert_eq!(x.rgb.iter().map(|p| p[0]).collect::<Vec<_>>(), vec![255, 170, 85, 0, 85, 170]);
        // too short
        assert!(interpret_image(&dict, &[0], &|_| None).is_err());
        // 1x1 RGB 16 bits
        let dict = d(vec![("Width", Obj::Int(1)), ("Height", Obj::Int(1)), ("BitsPerComponent", Obj::Int(16)), ("ColorSpace", Obj::name("DeviceRGB"))]);
        let x = interpret_image(&dict, &[0x12, 0x34, 0x56, 0x78, 0x9a, 0xbc, 0xff], &|_| None).unwrap();
        assert_eq!((x.colour_depth, x.rgb[0], x.surplus_bytes), (16, [0x1234, 0x5678, 0x9abc], 1));
        // Indexed, 4-bit, 3 pixels wide, hival 2, index 7 clamps to hival
        let cs = Obj::Array(vec![Obj::name("Indexed"), Obj::name("DeviceRGB"), Obj::Int(2), Obj::str(&[1, 2, 3, 4, 5, 6, 7, 8, 9])]);
        let dict = d(vec![("Width", Obj::Int(3)), ("Height", Obj::Int(1)), ("BitsPerComponent", Obj::Int(4)), ("ColorSpace", cs)]);
        let x = interpret_image(&dict, &[0x20, 0x70], &|_| None).unwrap();
        assert_eq!(x.rgb, vec![[7, 8, 9], [1, 2, 3], [7, 8, 9]]);
        // colour key on raw samples
        let dict = d(vec![("Width", Obj::Int(2)), ("Height", Obj::Int(1)), ("BitsPerComponent", Obj::Int(8)), ("ColorSpace", Obj::name("DeviceRGB"))]);
        let x = interpret_image(&dict, &[1, 2, 3, 1, 2, 4], &|_| None).unwrap();
        let key: Vec<Obj> = [1, 1, 2, 2, 3, 3].iter().map(|&v| Obj::Int(v)).collect();
        assert_eq!(colour_key_alpha(&x, &key).unwrap(), vec![0, 255]);
        // stencil mask: 0 paints
        let dict = d(vec![("Width", Obj::Int(3)), ("Height", Obj::Int(1)), ("ImageMask", Obj::Bool(true))]);
        assert_eq!(stencil_alpha(&dict, &[0b010_00000]).unwrap().2, vec![255, 0, 255]);
    }

    /// The interpreter against the `png` crate: a PNG's IDENTITY-decoded scanlines have the
    /// same layout as PDF image samples, so feeding them (with the matching /ColorSpace)
    /// must reproduce the EXPAND-decoded pixels.
    #[test]
    fn interpreter_agrees_with_png_crate_on_png_scanlines() {
        for &(ct, dpt) in &VALID_PAIRS {
            if ct == 4 || ct == 6 {
                continue;
            }
            for &(w, h) in &[(1u32, 1u32), (3, 1), (7, 3), (9, 2)] {
                let s = spec(ct, dpt, w, h, false, RowFilter::Fixed(4), 2, false);
                let bytes = encode(&s);
                let (_, _, raw) = raw_decode(&bytes);
                let cs = match ct {
                    0 => Obj::name("DeviceGray"),
                    2 => Obj::name("DeviceRGB"),
                    _ => Obj::Array(vec![
                        Obj::name("Indexed"),
                        Obj::name("DeviceRGB"),
                        Obj::Int(s.palette.len() as i64 - 1),
                        Obj::str(&s.palette.iter().flatten().copied().collect::<Vec<u8>>()),
                    ]),
                };
                let dict = d(vec![("Width", Obj::Int(w as i64)), ("Height", Obj::Int(h as i64)), ("BitsPerComponent", Obj::Int(dpt as i64)), ("ColorSpace", cs)]);
                let x = interpret_image(&dict, &raw, &|_| None).unwrap();
                let want = decode_with_png_crate(&bytes).unwrap();
                assert_eq!(x.colour_depth, want.depth);
                assert_eq!(x.rgb, want.px.iter().map(|p| [p[0], p[1], p[2]]).collect::<Vec<_>>(), "ct={ct} d={dpt} {w}x{h}");
            }
        }
    }
}
