//! Reference stream filters (ISO 32000-1 §7.4). Encoders and decoders written from the
//! standard; Flate itself comes from third-party codecs that are independent of the
//! library's own decoder path (`zune-inflate` to decode, `flate2`/miniz to encode).
use crate::syntax::{Dict, Obj};

pub type FResult<T> = Result<T, String>;

// ------------------------------------------------------------------ Flate

pub fn flate_encode(data: &[u8]) -> Vec<u8> {
    use std::io::Write;
    let mut e = flate2::write::ZlibEncoder::new(Vec::new(), flate2::Compression::default());
    e.write_all(data).unwrap();
    e.finish().unwrap()
}

pub fn flate_encode_level(data: &[u8], level: u32) -> Vec<u8> {
    use std::io::Write;
    let mut e = flate2::write::ZlibEncoder::new(Vec::new(), flate2::Compression::new(level));
    e.write_all(data).unwrap();
    e.finish().unwrap()
}

pub fn flate_decode(data: &[u8]) -> FResult<Vec<u8>> {
    let opts = zune_inflate::DeflateOptions::default().set_limit(1 << 30).set_confirm_checksum(false);
    let mut d = zune_inflate::DeflateDecoder::new_with_options(data, opts);
    d.decode_zlib().map_err(|e| format!("flate: {e:?}"))
}

// ------------------------------------------------------------------ ASCIIHex

pub fn asciihex_encode(data: &[u8]) -> Vec<u8> {
    let mut o = Vec::with_capacity(data.len() * 2 + 1);
    for b in data {
        o.extend_from_slice(format!("{b:02X}").as_bytes());
    }
    o.push(b'>');
    o
}

pub fn asciihex_decode(data: &[u8]) -> FResult<Vec<u8>> {
    let mut o = Vec::new();
    let mut hi: Option<u8> = None;
    for &c in data {
        if c == b'>' {
            break;
        }
        if crate::syntax::is_ws(c) {
            continue;
        }
        let v = match c {
            b'0'..=b'9' => c - b'0',
            b'a'..=b'f' => c - b'a' + 10,
            b'A'..=b'F' => c - b'A' + 10,
            _ => return Err(format!("asciihex: bad byte 0x{c:02x}")),
        };
        match hi.take() {
            Some(h) => o.push(h << 4 | v),
            None => hi = Some(v),
        }
    }
    if let Some(h) = hi {
        o.push(h << 4);
    }
    Ok(o)
}

// ------------------------------------------------------------------ ASCII85

pub fn ascii85_encode(data: &[u8]) -> Vec<u8> {
    let mut o = Vec::new();
    for ch in data.chunks(4) {
        let mut v: u32 = 0;
        for i in 0..4 {
            v = v << 8 | *ch.get(i).unwrap_or(&0) as u32;
        }
        if ch.len() == 4 && v == 0 {
            o.push(b'z');
            continue;
        }
        let mut g = [0u8; 5];
        let mut x = v;
        for i in (0..5).rev() {
            g[i] = (x % 85) as u8 + b'!';
            x /= 85;
        }
        o.extend_from_slice(&g[..ch.len() + 1]);
    }
    o.extend_from_slice(b"~>");
    o
}

pub fn ascii85_decode(data: &[u8]) -> FResult<Vec<u8>> {
    let mut o = Vec::new();
    let mut g: Vec<u8> = Vec::with_capacity(5);
    let mut it = data.iter().copied().peekable();
    // optional <~ prefix (not part of the PDF encoding, but tolerated by many producers)
    while let Some(c) = it.next() {
        if crate::syntax::is_ws(c) {
            continue;
        }
        if c == b'~' {
            break;
        }
        if c == b'z' {
            if !g.is_empty() {
                return Err("ascii85: 'z' inside a group".into());
            }
            o.extend_from_slice(&[0, 0, 0, 0]);
            continue;
        }
        if !(b'!'..=b'u').contains(&c) {
            return Err(format!("ascii85: bad byte 0x{c:02x}"));
        }
        g.push(c - b'!');
        if g.len() == 5 {
            let mut v: u64 = 0;
            for &d in &g {
                v = v * 85 + d as u64;
            }
            if v > u32::MAX as u64 {
                return Err("ascii85: group value above 2^32-1".into());
            }
            o.extend_from_slice(&(v as u32).to_be_bytes());
            g.clear();
        }
    }
    if !g.is_empty() {
        if g.len() == 1 {
            return Err("ascii85: final group of one character".into());
        }
        let n = g.len();
        while g.len() < 5 {
            g.push(84);
        }
        let mut v: u64 = 0;
        for &d in &g {
            v = v * 85 + d as u64;
        }
        if v > u32::MAX as u64 {
            return Err("ascii85: group value above 2^32-1".into());
        }
        o.extend_from_slice(&(v as u32).to_be_bytes()[..n - 1]);
    }
    Ok(o)
}

// ------------------------------------------------------------------ RunLength

pub fn runlength_encode(data: &[u8]) -> Vec<u8> {
    let mut o = Vec::new();
    let mut i = 0;
    while i < data.len() {
        // run?
        let mut run = 1;
        while i + run < data.len() && data[i + run] == data[i] && run < 128 {
            run += 1;
        }
        if run >= 2 {
            o.push((257 - run) as u8);
            o.push(data[i]);
            i += run;
        } else {
            let s = i;
            let mut n = 0;
            while i < data.len() && n < 128 {
                if i + 1 < data.len() && data[i + 1] == data[i] {
                    break;
                }
                i += 1;
                n += 1;
            }
            o.push((n - 1) as u8);
            o.extend_from_slice(&data[s..s + n]);
        }
    }
    o.push(128);
    o
}

pub fn runlength_decode(data: &[u8]) -> FResult<Vec<u8>> {
    let mut o = Vec::new();
    let mut i = 0;
    while i < data.len() {
        let l = data[i];
        i += 1;
        if l == 128 {
            break;
        }
        if l < 128 {
            let n = l as usize + 1;
            if i + n > data.len() {
                return Err("runlength: literal run past end".into());
            }
            o.extend_from_slice(&data[i..i + n]);
            i += n;
        } else {
            let n = 257 - l as usize;
            let Some(&b) = data.get(i) else { return Err("runlength: repeat without byte".into()) };
            i += 1;
            o.extend(std::iter::repeat(b).take(n));
        }
    }
    Ok(o)
}

// ------------------------------------------------------------------ LZW (§7.4.4)

/// LZW encoder with PDF's variable code width (9..12 bits, MSB first), clear code 256,
/// EOD 257. `early_change` = 1 is the PDF default (width grows one code early).
pub fn lzw_encode(data: &[u8], early_change: bool) -> Vec<u8> {
    use std::collections::HashMap;
    let mut out = BitWriter::new();
    let mut dict: HashMap<(u16, u8), u16> = HashMap::new();
    let mut next: u16 = 258;
    let mut width = 9u32;
    let ec: u16 = if early_change { 1 } else { 0 };
    out.put(256, width);
    let mut cur: Option<u16> = None;
    for &b in data {
        match cur {
            None => cur = Some(b as u16),
            Some(c) => {
                if let Some(&code) = dict.get(&(c, b)) {
                    cur = Some(code);
                } else {
                    out.put(c as u32, width);
                    dict.insert((c, b), next);
                    next += 1;
                    // width switch as seen by the decoder, which is one entry behind the encoder
                    if next + ec > (1 << width) && width < 12 {
                        width += 1;
                    }
                    if next == 4094 {
                        // table full (4096 - 2 kept clear of the 12-bit limit): clear
                        out.put(256, width);
                        dict.clear();
                        next = 258;
                        width = 9;
                    }
                    cur = Some(b as u16);
                }
            }
        }
    }
    if let Some(c) = cur {
        out.put(c as u32, width);
        // the decoder adds one more entry after this code; account for the width step
        next += 1;
        if next + ec > (1 << width) && width < 12 {
            width += 1;
        }
    }
    out.put(257, width);
    out.finish()
}

pub fn lzw_decode(data: &[u8], early_change: bool) -> FResult<Vec<u8>> {
    let mut table: Vec<Vec<u8>> = Vec::with_capacity(4096);
    let reset = |t: &mut Vec<Vec<u8>>| {
        t.clear();
        for i in 0..256u16 {
            t.push(vec![i as u8]);
        }
        t.push(vec![]);
        t.push(vec![]);
    };
    reset(&mut table);
    let ec = if early_change { 1 } else { 0 };
    let mut width = 9u32;
    let mut rd = BitReader::new(data);
    let mut out = Vec::new();
    let mut prev: Option<Vec<u8>> = None;
    loop {
        let Some(code) = rd.get(width) else { break };
        if code == 256 {
            reset(&mut table);
            width = 9;
            prev = None;
            continue;
        }
        if code == 257 {
            break;
        }
        let entry = if (code as usize) < table.len() {
            table[code as usize].clone()
        } else if code as usize == table.len() {
            match &prev {
                Some(p) => {
                    let mut e = p.clone();
                    e.push(p[0]);
                    e
                }
                None => return Err("lzw: KwKwK code with no previous entry".into()),
            }
        } else {
            return Err(format!("lzw: code {code} beyond table size {}", table.len()));
        };
        out.extend_from_slice(&entry);
        if let Some(p) = prev.take() {
            if table.len() < 4096 {
                let mut e = p;
                e.push(entry[0]);
                table.push(e);
            }
        }
        prev = Some(entry);
        // width grows when the table (after this code's entry) reaches 2^width - early_change
        if table.len() + ec >= (1usize << width) && width < 12 {
            width += 1;
        }
    }
    Ok(out)
}

struct BitWriter {
    out: Vec<u8>,
    acc: u64,
    n: u32,
}
impl BitWriter {
    fn new() -> Self {
        BitWriter { out: Vec::new(), acc: 0, n: 0 }
    }
    fn put(&mut self, v: u32, w: u32) {
        self.acc = (self.acc << w) | v as u64;
        self.n += w;
        while self.n >= 8 {
            self.out.push((self.acc >> (self.n - 8)) as u8);
            self.n -= 8;
        }
    }
    fn finish(mut self) -> Vec<u8> {
        if self.n > 0 {
            self.out.push((self.acc << (8 - self.n)) as u8);
        }
        self.out
    }
}
struct BitReader<'a> {
    d: &'a [u8],
    pos: usize,
    acc: u64,
    n: u32,
}
impl<'a> BitReader<'a> {
    fn new(d: &'a [u8]) -> Self {
        BitReader { d, pos: 0, acc: 0, n: 0 }
    }
    fn get(&mut self, w: u32) -> Option<u32> {
        while self.n < w {
            let b = *self.d.get(self.pos)?;
            self.pos += 1;
            self.acc = (self.acc << 8) | b as u64;
            self.n += 8;
        }
        let v = (self.acc >> (self.n - w)) & ((1 << w) - 1);
        self.n -= w;
        Some(v as u32)
    }
}

// ------------------------------------------------------------------ predictors (§7.4.4.4)

#[derive(Clone, Copy, Debug, PartialEq, Eq)]
pub struct PredParams {
    pub predictor: i64,
    pub colors: usize,
    pub bpc: usize,
    pub columns: usize,
}
impl Default for PredParams {
    fn default() -> Self {
        PredParams { predictor: 1, colors: 1, bpc: 8, columns: 1 }
    }
}
impl PredParams {
    pub fn from_dict(d: Option<&Dict>) -> Self {
        let g = |k: &str, def: i64| d.and_then(|d| d.get(k)).and_then(|o| o.as_int()).unwrap_or(def);
        PredParams {
            predictor: g("Predictor", 1),
            colors: g("Colors", 1).max(1) as usize,
            bpc: g("BitsPerComponent", 8).max(1) as usize,
            columns: g("Columns", 1).max(1) as usize,
        }
    }
    pub fn row_bytes(&self) -> usize {
        (self.colors * self.bpc * self.columns + 7) / 8
    }
    pub fn bpp(&self) -> usize {
        ((self.colors * self.bpc + 7) / 8).max(1)
    }
}

fn paeth(a: u8, b: u8, c: u8) -> u8 {
    let (ia, ib, ic) = (a as i32, b as i32, c as i32);
    let p = ia + ib - ic;
    let (pa, pb, pc) = ((p - ia).abs(), (p - ib).abs(), (p - ic).abs());
    if pa <= pb && pa <= pc {
        a
    } else if pb <= pc {
        b
    } else {
        c
    }
}

/// Apply a PNG row filter (`ft` 0..=4) to one row → filtered bytes.
pub fn png_filter_row(ft: u8, row: &[u8], prev: &[u8], bpp: usize) -> Vec<u8> {
    (0..row.len())
        .map(|i| {
            let a = if i >= bpp { row[i - bpp] } else { 0 };
            let b = prev[i];
            let c = if i >= bpp { prev[i - bpp] } else { 0 };
            let pred = match ft {
                0 => 0,
                1 => a,
                2 => b,
                3 => ((a as u16 + b as u16) / 2) as u8,
                _ => paeth(a, b, c),
            };
            row[i].wrapping_sub(pred)
        })
        .collect()
}

/// PNG-predict `data` (rows of `p.row_bytes()`); `filter_for_row(r)` chooses the row filter.
pub fn png_predict_encode(data: &[u8], p: &PredParams, filter_for_row: &dyn Fn(usize) -> u8) -> Vec<u8> {
    let rb = p.row_bytes();
    let bpp = p.bpp();
    let mut out = Vec::new();
    let mut prev = vec![0u8; rb];
    for (r, row) in data.chunks(rb).enumerate() {
        let mut full = row.to_vec();
        full.resize(rb, 0);
        let ft = filter_for_row(r);
        out.push(ft);
        out.extend(png_filter_row(ft, &full, &prev, bpp));
        prev = full;
    }
    out
}

pub fn png_predict_decode(data: &[u8], p: &PredParams) -> FResult<Vec<u8>> {
    let rb = p.row_bytes();
    let bpp = p.bpp();
    let mut out = Vec::with_capacity(data.len());
    let mut prev = vec![0u8; rb];
    for chunk in data.chunks(rb + 1) {
        let ft = chunk[0];
        let mut row = chunk[1..].to_vec();
        for i in 0..row.len() {
            let a = if i >= bpp { row[i - bpp] } else { 0 };
            let b = prev[i];
            let c = if i >= bpp { prev[i - bpp] } else { 0 };
            let pred = match ft {
                0 => 0,
                1 => a,
                2 => b,
                3 => ((a as u16 + b as u16) / 2) as u8,
                4 => paeth(a, b, c),
                _ => return Err(format!("png predictor: bad row filter {ft}")),
            };
            row[i] = row[i].wrapping_add(pred);
        }
        out.extend_from_slice(&row);
        prev = row;
        prev.resize(rb, 0);
    }
    Ok(out)
}

fn get_sample(row: &[u8], idx: usize, bpc: usize) -> u32 {
    match bpc {
        8 => row[idx] as u32,
        16 => (row[idx * 2] as u32) << 8 | row[idx * 2 + 1] as u32,
        _ => {
            let bit = idx * bpc;
            let byte = row[bit / 8];
            let shift = 8 - bpc - (bit % 8);
            ((byte >> shift) as u32) & ((1 << bpc) - 1)
        }
    }
}
fn put_sample(row: &mut [u8], idx: usize, bpc: usize, v: u32) {
    match bpc {
        8 => row[idx] = v as u8,
        16 => {
            row[idx * 2] = (v >> 8) as u8;
            row[idx * 2 + 1] = v as u8;
        }
        _ => {
            let bit = idx * bpc;
            let shift = 8 - bpc - (bit % 8);
            let mask = (((1u32 << bpc) - 1) << shift) as u8;
            row[bit / 8] = (row[bit / 8] & !mask) | (((v << shift) as u8) & mask);
        }
    }
}

/// TIFF predictor 2 (horizontal differencing per component), any bpc in {1,2,4,8,16}.
pub fn tiff_predict_encode(data: &[u8], p: &PredParams) -> Vec<u8> {
    let rb = p.row_bytes();
    let mut out = Vec::with_capacity(data.len());
    let modulus = 1u64 << p.bpc;
    for row in data.chunks(rb) {
        let mut full = row.to_vec();
        full.resize(rb, 0);
        let mut enc = full.clone();
        for col in (1..p.columns).rev() {
            for comp in 0..p.colors {
                let cur = get_sample(&full, col * p.colors + comp, p.bpc) as u64;
                let left = get_sample(&full, (col - 1) * p.colors + comp, p.bpc) as u64;
                put_sample(&mut enc, col * p.colors + comp, p.bpc, ((cur + modulus - left) % modulus) as u32);
            }
        }
        enc.truncate(row.len());
        out.extend_from_slice(&enc);
    }
    out
}

pub fn tiff_predict_decode(data: &[u8], p: &PredParams) -> Vec<u8> {
    let rb = p.row_bytes();
    let mut out = Vec::with_capacity(data.len());
    let modulus = 1u64 << p.bpc;
    for row in data.chunks(rb) {
        let mut full = row.to_vec();
        full.resize(rb, 0);
        for col in 1..p.columns {
            for comp in 0..p.colors {
                let cur = get_sample(&full, col * p.colors + comp, p.bpc) as u64;
                let left = get_sample(&full, (col - 1) * p.colors + comp, p.bpc) as u64;
                put_sample(&mut full, col * p.colors + comp, p.bpc, ((cur + left) % modulus) as u32);
            }
        }
        full.truncate(row.len());
        out.extend_from_slice(&full);
    }
    out
}

pub fn unpredict(data: Vec<u8>, p: &PredParams) -> FResult<Vec<u8>> {
    match p.predictor {
        1 => Ok(data),
        2 => Ok(tiff_predict_decode(&data, p)),
        10..=15 => png_predict_decode(&data, p),
        other => Err(format!("unknown /Predictor {other}")),
    }
}

// ------------------------------------------------------------------ filter chains

/// Normalise /Filter + /DecodeParms into a list of (filter name, params dict).
pub fn filter_chain(d: &Dict) -> FResult<Vec<(Vec<u8>, Option<Dict>)>> {
    let filters: Vec<Vec<u8>> = match d.get("Filter") {
        None | Some(Obj::Null) => vec![],
        Some(Obj::Name(n)) => vec![n.clone()],
        Some(Obj::Array(a)) => a.iter().map(|o| o.as_name().map(|n| n.to_vec()).ok_or("non-name in /Filter")).collect::<Result<_, _>>()?,
        Some(_) => return Err("bad /Filter".into()),
    };
    let parms: Vec<Option<Dict>> = match d.get("DecodeParms").or_else(|| d.get("DP")) {
        None | Some(Obj::Null) => vec![None; filters.len()],
        Some(Obj::Dict(p)) => {
            let mut v = vec![None; filters.len()];
            if !v.is_empty() {
                v[0] = Some(p.clone());
            }
            v
        }
        Some(Obj::Array(a)) => {
            let mut v: Vec<Option<Dict>> = a.iter().map(|o| o.as_dict().cloned()).collect();
            v.resize(filters.len(), None);
            v
        }
        Some(_) => return Err("bad /DecodeParms (indirect parameters must be resolved by the caller)".into()),
    };
    Ok(filters.into_iter().zip(parms).collect())
}

pub fn decode_one(name: &[u8], parms: Option<&Dict>, data: &[u8]) -> FResult<Vec<u8>> {
    let pp = PredParams::from_dict(parms);
    match name {
        b"FlateDecode" | b"Fl" => unpredict(flate_decode(data)?, &pp),
        b"LZWDecode" | b"LZW" => {
            let ec = parms.and_then(|d| d.get("EarlyChange")).and_then(|o| o.as_int()).unwrap_or(1) != 0;
            unpredict(lzw_decode(data, ec)?, &pp)
        }
        b"ASCIIHexDecode" | b"AHx" => asciihex_decode(data),
        b"ASCII85Decode" | b"A85" => ascii85_decode(data),
        b"RunLengthDecode" | b"RL" => runlength_decode(data),
        other => Err(format!("filter {} not supported by the reference", String::from_utf8_lossy(other))),
    }
}

/// Decode a stream's data through its whole filter chain (direct parameters only).
pub fn decode_stream(dict: &Dict, raw: &[u8]) -> FResult<Vec<u8>> {
    let mut data = raw.to_vec();
    for (name, parms) in filter_chain(dict)? {
        data = decode_one(&name, parms.as_ref(), &data)?;
    }
    Ok(data)
}

#[cfg(test)]
mod tests {
    use super::*;
    fn pat(n: usize, k: usize) -> Vec<u8> {
        (0..n).map(|i| match k { 0 => 0, 1 => (i % 251) as u8, 2 => ((i * i) % 7) as u8, _ => ((i * 31 + i / 7) % 256) as u8 }).collect()
    }
    #[test]
    fn codecs_roundtrip() {
        for k in 0..4 {
            for n in [0usize, 1, 2, 3, 4, 5, 127, 128, 129, 255, 256, 257, 1000] {
                let d = pat(n, k);
                assert_eq!(asciihex_decode(&asciihex_encode(&d)).unwrap(), d);
                assert_eq!(ascii85_decode(&ascii85_encode(&d)).unwrap(), d);
                assert_eq!(runlength_decode(&runlength_encode(&d)).unwrap(), d);
                assert_eq!(flate_decode(&flate_encode(&d)).unwrap(), d);
            }
        }
    }
    #[test]
    fn lzw_against_weezl() {
        // PDF LZW = MSB-first, 8-bit symbols, "TIFF size switch" (early change).
        for k in 0..4 {
            for n in (0..6000).step_by(7).chain([510, 511, 512, 513, 1022, 1023, 1024, 2046, 2047, 2048, 4093, 4094, 4095, 4096, 4097]) {
                let d = pat(n, k);
                for ec in [true, false] {
                    let mine = lzw_encode(&d, ec);
                    assert_eq!(lzw_decode(&mine, ec).unwrap(), d, "self n={n} k={k} ec={ec}");
                    let mut dec = if ec {
                        weezl::decode::Decoder::with_tiff_size_switch(weezl::BitOrder::Msb, 8)
                    } else {
                        weezl::decode::Decoder::new(weezl::BitOrder::Msb, 8)
                    };
                    let w = dec.decode(&mine).unwrap_or_else(|e| panic!("weezl rejects my encoding n={n} k={k} ec={ec}: {e:?}"));
                    assert_eq!(w, d, "weezl decode of my encoding n={n} k={k} ec={ec}");
                    let mut enc = if ec {
                        weezl::encode::Encoder::with_tiff_size_switch(weezl::BitOrder::Msb, 8)
                    } else {
                        weezl::encode::Encoder::new(weezl::BitOrder::Msb, 8)
                    };
                    let theirs = enc.encode(&d).unwrap();
                    assert_eq!(lzw_decode(&theirs, ec).unwrap(), d, "my decode of weezl encoding n={n} k={k} ec={ec}");
                }
            }
        }
    }
    /// TIFF predictor 2 vectors worked out by hand from TIFF 6.0 section 14 (each sample minus
    /// the sample of the same component one pixel to the left, modulo 2^bpc; first pixel kept).
    #[test]
    fn tiff_predictor_hand_vectors() {
        let rgb8 = PredParams { predictor: 2, colors: 3, bpc: 8, columns: 2 };
        assert_eq!(tiff_predict_encode(&[10, 20, 30, 15, 25, 35, 200, 0, 5, 100, 255, 5], &rgb8), vec![10, 20, 30, 5, 5, 5, 200, 0, 5, 156, 255, 0]);
        let g4 = PredParams { predictor: 2, colors: 1, bpc: 4, columns: 4 };
        assert_eq!(tiff_predict_encode(&[0x13, 0x62], &g4), vec![0x12, 0x3C]); // 1,3,6,2 -> 1,2,3,12
        let g16 = PredParams { predictor: 2, colors: 1, bpc: 16, columns: 2 };
        assert_eq!(tiff_predict_encode(&[0x01, 0x00, 0x00, 0xFF], &g16), vec![0x01, 0x00, 0xFF, 0xFF]);
        let g1 = PredParams { predictor: 2, colors: 1, bpc: 1, columns: 8 };
        assert_eq!(tiff_predict_encode(&[0b1011_0010], &g1), vec![0b1110_1011]); // xor with the left neighbour
        for (p, e) in [(rgb8, vec![10u8, 20, 30, 5, 5, 5]), (g4, vec![0x12, 0x3C]), (g16, vec![1, 0, 0xFF, 0xFF]), (g1, vec![0b1110_1011])] {
            assert_eq!(tiff_predict_encode(&tiff_predict_decode(&e, &p), &p), e);
        }
    }

    fn png_file(width: u32, height: u32, bit_depth: u8, color_type: u8, filtered_rows: &[u8]) -> Vec<u8> {
        fn chunk(out: &mut Vec<u8>, kind: &[u8; 4], body: &[u8]) {
            out.extend_from_slice(&(body.len() as u32).to_be_bytes());
            let mut crc = flate2::Crc::new();
            crc.update(kind);
            crc.update(body);
            out.extend_from_slice(kind);
            out.extend_from_slice(body);
            out.extend_from_slice(&crc.sum().to_be_bytes());
        }
        let mut out = b"\x89PNG\r\n\x1a\n".to_vec();
        let mut ihdr = Vec::new();
        ihdr.extend_from_slice(&width.to_be_bytes());
        ihdr.extend_from_slice(&height.to_be_bytes());
        ihdr.extend_from_slice(&[bit_depth, color_type, 0, 0, 0]);
        chunk(&mut out, b"IHDR", &ihdr);
        chunk(&mut out, b"IDAT", &flate_encode(filtered_rows));
        chunk(&mut out, b"IEND", &[]);
        out
    }

    /// The PNG row filters (what /Predictor 10..15 undoes) against the third-party `png` decoder:
    /// rows filtered by `png_predict_encode`, wrapped into a PNG file, must decode to the data.
    #[test]
    fn png_filters_against_png_crate() {
        let mut cells = 0;
        for (colors, color_type, depths) in [(1usize, 0u8, &[1usize, 2, 4, 8, 16][..]), (3, 2, &[8, 16][..]), (2, 4, &[8, 16][..]), (4, 6, &[8, 16][..])] {
            for &bpc in depths {
                for columns in [1usize, 2, 3, 5, 8, 9, 17] {
                    let p = PredParams { predictor: 15, colors, bpc, columns };
                    let rb = p.row_bytes();
                    let rows = 3;
                    let mut d = pat(rb * rows, 3);
                    let pad = rb * 8 - colors * bpc * columns;
                    for r in 0..rows {
                        d[(r + 1) * rb - 1] &= (0xFFu16 << pad) as u8;
                    }
                    // a row's filter acts on the *data* of the row above, not on its filter type,
                    // so every type on every row position with three companions is enough
                    for t0 in 0..5u8 {
                        for step in 0..3u8 {
                            {
                                let tags = [t0, (t0 + step) % 5, (t0 + 2 * step) % 5];
                                let enc = png_predict_encode(&d, &p, &|r| tags[r]);
                                let file = png_file(columns as u32, rows as u32, bpc as u8, color_type, &enc);
                                let mut dec = png::Decoder::new(std::io::Cursor::new(file));
                                dec.set_transformations(png::Transformations::IDENTITY);
                                let mut reader = dec.read_info().expect("png header");
                                let mut buf = vec![0u8; reader.output_buffer_size().expect("size")];
                                let info = reader.next_frame(&mut buf).expect("png frame");
                                assert_eq!(&buf[..info.buffer_size()], &d[..], "colors={colors} bpc={bpc} columns={columns} tags={tags:?}");
                                cells += 1;
                            }
                        }
                    }
                }
            }
        }
        assert_eq!(cells, 11 * 7 * 15);
    }

    #[test]
    fn predictors_roundtrip() {
        for colors in 1..=4 {
            for bpc in [1usize, 2, 4, 8, 16] {
                for columns in [1usize, 2, 3, 7, 8, 9, 64] {
                    let p = PredParams { predictor: 15, colors, bpc, columns };
                    let rb = p.row_bytes();
                    let d = pat(rb * 3, 3);
                    for ft in 0..5u8 {
                        let e = png_predict_encode(&d, &p, &|r| (ft + r as u8) % 5);
                        assert_eq!(png_predict_decode(&e, &p).unwrap(), d);
                    }
                    let p2 = PredParams { predictor: 2, ..p };
                    let e = tiff_predict_encode(&d, &p2);
                    assert_eq!(tiff_predict_decode(&e, &p2), d, "tiff c={colors} bpc={bpc} cols={columns}");
                }
            }
        }
    }
}
