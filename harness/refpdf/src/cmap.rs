//! Reference CMap interpreter, written from Adobe Technical Notes #5014 ("CMap and CIDFont
//! Files Specification") and #5411 ("ToUnicode Mapping File Tutorial") and ISO 32000-1
//! §9.7.5-9.7.6 (CMaps, code space ranges) and §9.10.3 (ToUnicode CMaps). Independent of /repo.
//!
//! What the sources fix, and what this module does with it:
//!
//! * **Syntax.** A CMap file is PostScript: whitespace-separated tokens, `%` comments, `/names`,
//!   `<hex strings>` (white space inside is ignored, an odd final digit is padded with 0),
//!   `(literal strings)`, `<< dictionaries >>`, `[arrays]`, integers, and operator keywords.
//!   Only the sections below carry mapping information; everything else is skipped.
//! * **Code space** (`begincodespacerange`, 1-4 byte codes, ranges of different lengths may
//!   be mixed). ISO 32000-1 §9.7.6.2: "A code shall be considered to match the range if it is
//!   the same length as the bounding codes and the value of each of its bytes lies between the
//!   corresponding bytes of the lower and upper bounds." — per-byte (rectangular) membership,
//!   not an interval of the integer value: `<8140> <9FFC>` contains `<8240>` and not `<8200>`.
//! * **`beginbfchar`**: `<src> <dst>`; dst is a string of UTF-16BE code units (one character,
//!   a surrogate pair, or several characters).
//! * **`beginbfrange`, offset form** `<lo> <hi> <dst>`: code `lo+k` maps to dst with its
//!   **last byte** incremented k times (§9.10.3). §9.10.3 continues: "When defining ranges of
//!   this type, the value of the last byte in the string shall be less than or equal to
//!   255 - (srcCode2 - srcCode1). This ensures that the last byte of the string shall not be
//!   incremented past 255; otherwise, the result of mapping is undefined." So the reading is
//!   *undefined* there: `Value::CarryUndefined` lists every defensible reading (last byte
//!   wraps; carry into the last UTF-16 unit; carry through the whole string); a reader may
//!   take any of them, and a writer must not produce such a range.
//! * **`beginbfrange`, array form** `<lo> <hi> [<d0> <d1> ...]`: code `lo+k` maps to `dk`.
//!   The array must have exactly `hi-lo+1` elements; anything else is a parse error here.
//! * **Source ranges** `<lo> <hi>` have equal lengths and denote the codes whose big-endian
//!   value lies in `lo..=hi`. (TN5014 asks producers to let only the last byte vary; when
//!   they do not — the ubiquitous `<0000> <FFFF> <0000>` identity range — every consumer takes
//!   the integer interval, which is the only reading consistent with the array form's
//!   element count. This is an assumption of the reference and is stated by the checks.)
//! * **Several entries for one code**: the formats do not order bfchar against bfrange, so
//!   `candidates()` returns the value of every covering entry, in file order.
//! * `begincidchar` / `begincidrange` / `beginnotdefrange` (code -> CID) are parsed too, for
//!   the checks that need an Encoding CMap; `usecmap`, `/CMapName`, `/WMode` are recorded.

#[derive(Clone, Debug, PartialEq, Eq)]
pub struct CodeSpaceRange {
    pub lo: Vec<u8>,
    pub hi: Vec<u8>,
}

impl CodeSpaceRange {
    /// §9.7.6.2: same length, every byte within the corresponding bounds.
    pub fn contains(&self, code: &[u8]) -> bool {
        code.len() == self.lo.len() && code.iter().zip(self.lo.iter().zip(self.hi.iter())).all(|(c, (l, h))| l <= c && c <= h)
    }
}

#[derive(Clone, Debug, PartialEq, Eq)]
pub enum Entry {
    BfChar { src: Vec<u8>, dst: Vec<u8> },
    BfRange { lo: Vec<u8>, hi: Vec<u8>, dst: Vec<u8> },
    BfRangeArray { lo: Vec<u8>, hi: Vec<u8>, dsts: Vec<Vec<u8>> },
    CidChar { src: Vec<u8>, cid: u32 },
    CidRange { lo: Vec<u8>, hi: Vec<u8>, cid: u32 },
    NotdefRange { lo: Vec<u8>, hi: Vec<u8>, cid: u32 },
}

/// What a bf entry says about one code.
#[derive(Clone, Debug, PartialEq, Eq, Hash)]
pub enum Value {
    /// the destination bytes (UTF-16BE) are fixed by the sources
    Exact(Vec<u8>),
    /// offset-form range whose last destination byte would pass 0xFF: undefined; the
    /// defensible readings are listed (deduplicated)
    CarryUndefined(Vec<Vec<u8>>),
}

#[derive(Clone, Debug, Default, PartialEq, Eq)]
pub struct CMap {
    pub name: Option<String>,
    pub wmode: Option<i64>,
    pub usecmap: Option<String>,
    pub codespace: Vec<CodeSpaceRange>,
    pub entries: Vec<Entry>,
}

pub fn be_value(b: &[u8]) -> u64 {
    b.iter().fold(0u64, |a, &x| (a << 8) | x as u64)
}

pub fn be_bytes(v: u64, len: usize) -> Vec<u8> {
    (0..len).rev().map(|i| (v >> (8 * i)) as u8).collect()
}

fn in_interval(code: &[u8], lo: &[u8], hi: &[u8]) -> Option<u64> {
    if code.len() != lo.len() {
        return None;
    }
    let (c, l, h) = (be_value(code), be_value(lo), be_value(hi));
    if l <= c && c <= h {
        Some(c - l)
    } else {
        None
    }
}

/// `dst` with its last byte incremented `k` times.
pub fn offset_destination(dst: &[u8], k: u64) -> Value {
    let Some(&last) = dst.last() else { return Value::Exact(Vec::new()) };
    if last as u64 + k <= 0xFF {
        let mut v = dst.to_vec();
        *v.last_mut().unwrap() = (last as u64 + k) as u8;
        return Value::Exact(v);
    }
    let n = dst.len();
    let mut readings: Vec<Vec<u8>> = Vec::new();
    // (a) last byte wraps, nothing else changes
    let mut a = dst.to_vec();
    a[n - 1] = ((last as u64 + k) & 0xFF) as u8;
    readings.push(a);
    // (b) carry into the last UTF-16 code unit only
    if n >= 2 {
        let unit = ((dst[n - 2] as u64) << 8 | last as u64).wrapping_add(k) & 0xFFFF;
        let mut b = dst.to_vec();
        b[n - 2] = (unit >> 8) as u8;
        b[n - 1] = unit as u8;
        readings.push(b);
    }
    // (c) carry through the whole string (big-endian integer addition, overflow dropped)
    let mut c = dst.to_vec();
    let mut carry = k;
    for byte in c.iter_mut().rev() {
        let s = *byte as u64 + (carry & 0xFF);
        *byte = s as u8;
        carry = (carry >> 8) + (s >> 8);
    }
    readings.push(c);
    readings.sort();
    readings.dedup();
    Value::CarryUndefined(readings)
}

impl Entry {
    /// source length of the entry
    pub fn src_len(&self) -> usize {
        match self {
            Entry::BfChar { src, .. } | Entry::CidChar { src, .. } => src.len(),
            Entry::BfRange { lo, .. }
            | Entry::BfRangeArray { lo, .. }
            | Entry::CidRange { lo, .. }
            | Entry::NotdefRange { lo, .. } => lo.len(),
        }
    }
    /// Does the entry say anything about `code`?
    pub fn covers(&self, code: &[u8]) -> bool {
        match self {
            Entry::BfChar { src, .. } | Entry::CidChar { src, .. } => src == code,
            Entry::BfRange { lo, hi, .. }
            | Entry::BfRangeArray { lo, hi, .. }
            | Entry::CidRange { lo, hi, .. }
            | Entry::NotdefRange { lo, hi, .. } => in_interval(code, lo, hi).is_some(),
        }
    }
    /// The Unicode destination a bf entry gives `code`; None for codes it does not cover and
    /// for cid/notdef entries.
    pub fn bf_value(&self, code: &[u8]) -> Option<Value> {
        match self {
            Entry::BfChar { src, dst } => (src == code).then(|| Value::Exact(dst.clone())),
            Entry::BfRange { lo, hi, dst } => in_interval(code, lo, hi).map(|k| offset_destination(dst, k)),
            Entry::BfRangeArray { lo, hi, dsts } => {
                in_interval(code, lo, hi).and_then(|k| dsts.get(k as usize)).map(|d| Value::Exact(d.clone()))
            }
            _ => None,
        }
    }
    /// The CID a cidchar/cidrange entry gives `code`.
    pub fn cid_value(&self, code: &[u8]) -> Option<u32> {
        match self {
            Entry::CidChar { src, cid } => (src == code).then_some(*cid),
            Entry::CidRange { lo, hi, cid } => in_interval(code, lo, hi).map(|k| cid.wrapping_add(k as u32)),
            _ => None,
        }
    }
}

#[derive(Clone, Debug, PartialEq)]
enum Tok {
    Hex(Vec<u8>),
    Name(String),
    Int(i64),
    Kw(String),
    ArrOpen,
    ArrClose,
    Other,
}

fn is_ps_ws(b: u8) -> bool {
    matches!(b, 0 | 9 | 10 | 12 | 13 | 32)
}
fn is_ps_delim(b: u8) -> bool {
    matches!(b, b'(' | b')' | b'<' | b'>' | b'[' | b']' | b'{' | b'}' | b'/' | b'%')
}

fn tokenize(data: &[u8]) -> Result<Vec<Tok>, String> {
    let mut t = Vec::new();
    let mut i = 0;
    while i < data.len() {
        let b = data[i];
        if is_ps_ws(b) {
            i += 1;
        } else if b == b'%' {
            while i < data.len() && data[i] != b'\n' && data[i] != b'\r' {
                i += 1;
            }
        } else if b == b'<' && data.get(i + 1) == Some(&b'<') {
            t.push(Tok::Other);
            i += 2;
        } else if b == b'>' && data.get(i + 1) == Some(&b'>') {
            t.push(Tok::Other);
            i += 2;
        } else if b == b'<' {
            let mut digits: Vec<u8> = Vec::new();
            i += 1;
            loop {
                let Some(&c) = data.get(i) else { return Err("unterminated hex string".into()) };
                i += 1;
                if c == b'>' {
                    break;
                }
                if is_ps_ws(c) {
                    continue;
                }
                let v = (c as char).to_digit(16).ok_or_else(|| format!("bad hex digit {:?} at {}", c as char, i - 1))?;
                digits.push(v as u8);
            }
            if digits.len() % 2 == 1 {
                digits.push(0);
            }
            t.push(Tok::Hex(digits.chunks(2).map(|p| p[0] << 4 | p[1]).collect()));
        } else if b == b'(' {
            let mut depth = 1;
            i += 1;
            while depth > 0 {
                let Some(&c) = data.get(i) else { return Err("unterminated literal string".into()) };
                i += 1;
                match c {
                    b'\\' => i += 1,
                    b'(' => depth += 1,
                    b')' => depth -= 1,
                    _ => {}
                }
            }
            t.push(Tok::Other);
        } else if b == b'[' {
            t.push(Tok::ArrOpen);
            i += 1;
        } else if b == b']' {
            t.push(Tok::ArrClose);
            i += 1;
        } else if b == b'{' || b == b'}' || b == b')' || b == b'>' {
            t.push(Tok::Other);
            i += 1;
        } else if b == b'/' {
            let s = i + 1;
            i = s;
            while i < data.len() && !is_ps_ws(data[i]) && !is_ps_delim(data[i]) {
                i += 1;
            }
            t.push(Tok::Name(String::from_utf8_lossy(&data[s..i]).into_owned()));
        } else {
            let s = i;
            while i < data.len() && !is_ps_ws(data[i]) && !is_ps_delim(data[i]) {
                i += 1;
            }
            let w = String::from_utf8_lossy(&data[s..i]).into_owned();
            match w.parse::<i64>() {
                Ok(n) => t.push(Tok::Int(n)),
                Err(_) => t.push(Tok::Kw(w)),
            }
        }
    }
    Ok(t)
}

fn check_code_len(c: &[u8], what: &str) -> Result<(), String> {
    if (1..=4).contains(&c.len()) {
        Ok(())
    } else {
        Err(format!("{what}: code length {} outside 1..=4", c.len()))
    }
}

fn check_range(lo: &[u8], hi: &[u8], what: &str) -> Result<(), String> {
    check_code_len(lo, what)?;
    if lo.len() != hi.len() {
        return Err(format!("{what}: bounds of different length"));
    }
    if be_value(lo) > be_value(hi) {
        return Err(format!("{what}: low bound above high bound"));
    }
    Ok(())
}

impl CMap {
    /// Strict parse: structural errors in a mapping section are errors, not skipped.
    pub fn parse(data: &[u8]) -> Result<CMap, String> {
        let toks = tokenize(data)?;
        let mut m = CMap::default();
        let mut i = 0;
        // collect the operands of a section up to its end keyword
        fn section<'a>(toks: &'a [Tok], i: &mut usize, end: &str) -> Result<&'a [Tok], String> {
            let s = *i;
            while *i < toks.len() {
                if toks[*i] == Tok::Kw(end.to_string()) {
                    let r = &toks[s..*i];
                    *i += 1;
                    return Ok(r);
                }
                *i += 1;
            }
            Err(format!("missing {end}"))
        }
        fn declared(toks: &[Tok], at: usize) -> Option<i64> {
            match at.checked_sub(1).and_then(|p| toks.get(p)) {
                Some(Tok::Int(n)) => Some(*n),
                _ => None,
            }
        }
        while i < toks.len() {
            let kw = match &toks[i] {
                Tok::Kw(k) => k.clone(),
                Tok::Name(n) if n == "CMapName" => {
                    if let Some(Tok::Name(v)) = toks.get(i + 1) {
                        m.name = Some(v.clone());
                    }
                    i += 1;
                    continue;
                }
                Tok::Name(n) if n == "WMode" => {
                    if let Some(Tok::Int(v)) = toks.get(i + 1) {
                        m.wmode = Some(*v);
                    }
                    i += 1;
                    continue;
                }
                _ => {
                    i += 1;
                    continue;
                }
            };
            let at = i;
            i += 1;
            match kw.as_str() {
                "usecmap" => {
                    if let Some(Tok::Name(n)) = at.checked_sub(1).and_then(|p| toks.get(p)) {
                        m.usecmap = Some(n.clone());
                    } else {
                        return Err("usecmap without a name operand".into());
                    }
                }
                "begincodespacerange" => {
                    let ops = section(&toks, &mut i, "endcodespacerange")?;
                    if ops.len() % 2 != 0 {
                        return Err("codespacerange: odd number of operands".into());
                    }
                    if let Some(n) = declared(&toks, at) {
                        if n as usize != ops.len() / 2 {
                            return Err(format!("codespacerange: declared {n}, found {}", ops.len() / 2));
                        }
                    }
                    for p in ops.chunks(2) {
                        match (&p[0], &p[1]) {
                            (Tok::Hex(lo), Tok::Hex(hi)) => {
                                check_code_len(lo, "codespacerange")?;
                                if lo.len() != hi.len() {
                                    return Err("codespacerange: bounds of different length".into());
                                }
                                if lo.iter().zip(hi.iter()).any(|(l, h)| l > h) {
                                    return Err("codespacerange: a low byte above its high byte".into());
                                }
                                m.codespace.push(CodeSpaceRange { lo: lo.clone(), hi: hi.clone() });
                            }
                            _ => return Err("codespacerange: operands must be hex strings".into()),
                        }
                    }
                }
                "beginbfchar" => {
                    let ops = section(&toks, &mut i, "endbfchar")?;
                    if ops.len() % 2 != 0 {
                        return Err("bfchar: odd number of operands".into());
                    }
                    if let Some(n) = declared(&toks, at) {
                        if n as usize != ops.len() / 2 {
                            return Err(format!("bfchar: declared {n}, found {}", ops.len() / 2));
                        }
                    }
                    for p in ops.chunks(2) {
                        match (&p[0], &p[1]) {
                            (Tok::Hex(src), Tok::Hex(dst)) => {
                                check_code_len(src, "bfchar")?;
                                m.entries.push(Entry::BfChar { src: src.clone(), dst: dst.clone() });
                            }
                            // TN5014 also allows a glyph name as destination; no Unicode value
                            (Tok::Hex(_), Tok::Name(_)) => {}
                            _ => return Err("bfchar: operands must be <src> <dst>".into()),
                        }
                    }
                }
                "beginbfrange" => {
                    let ops = section(&toks, &mut i, "endbfrange")?;
                    let mut j = 0;
                    let mut count = 0;
                    while j < ops.len() {
                        let (lo, hi) = match (ops.get(j), ops.get(j + 1)) {
                            (Some(Tok::Hex(lo)), Some(Tok::Hex(hi))) => (lo.clone(), hi.clone()),
                            _ => return Err("bfrange: expected <lo> <hi>".into()),
                        };
                        check_range(&lo, &hi, "bfrange")?;
                        match ops.get(j + 2) {
                            Some(Tok::Hex(dst)) => {
                                m.entries.push(Entry::BfRange { lo, hi, dst: dst.clone() });
                                j += 3;
                            }
                            Some(Tok::ArrOpen) => {
                                let mut dsts = Vec::new();
                                j += 3;
                                loop {
                                    match ops.get(j) {
                                        Some(Tok::Hex(d)) => dsts.push(d.clone()),
                                        Some(Tok::Name(_)) => return Err("bfrange: glyph-name array not supported".into()),
                                        Some(Tok::ArrClose) => {
                                            j += 1;
                                            break;
                                        }
                                        _ => return Err("bfrange: unterminated destination array".into()),
                                    }
                                    j += 1;
                                }
                                let want = be_value(&hi) - be_value(&lo) + 1;
                                if dsts.len() as u64 != want {
                                    return Err(format!("bfrange: array has {} elements for {want} codes", dsts.len()));
                                }
                                m.entries.push(Entry::BfRangeArray { lo, hi, dsts });
                            }
                            _ => return Err("bfrange: expected <dst> or [array]".into()),
                        }
                        count += 1;
                    }
                    if let Some(n) = declared(&toks, at) {
                        if n != count {
                            return Err(format!("bfrange: declared {n}, found {count}"));
                        }
                    }
                }
                "begincidchar" => {
                    let ops = section(&toks, &mut i, "endcidchar")?;
                    if ops.len() % 2 != 0 {
                        return Err("cidchar: odd number of operands".into());
                    }
                    for p in ops.chunks(2) {
                        match (&p[0], &p[1]) {
                            (Tok::Hex(src), Tok::Int(c)) if *c >= 0 => {
                                check_code_len(src, "cidchar")?;
                                m.entries.push(Entry::CidChar { src: src.clone(), cid: *c as u32 });
                            }
                            _ => return Err("cidchar: operands must be <src> cid".into()),
                        }
                    }
                }
                k @ ("begincidrange" | "beginnotdefrange") => {
                    let end = if k == "begincidrange" { "endcidrange" } else { "endnotdefrange" };
                    let ops = section(&toks, &mut i, end)?;
                    if ops.len() % 3 != 0 {
                        return Err(format!("{k}: operands not in triples"));
                    }
                    for p in ops.chunks(3) {
                        match (&p[0], &p[1], &p[2]) {
                            (Tok::Hex(lo), Tok::Hex(hi), Tok::Int(c)) if *c >= 0 => {
                                check_range(lo, hi, k)?;
                                let (lo, hi, cid) = (lo.clone(), hi.clone(), *c as u32);
                                m.entries.push(if k == "begincidrange" {
                                    Entry::CidRange { lo, hi, cid }
                                } else {
                                    Entry::NotdefRange { lo, hi, cid }
                                });
                            }
                            _ => return Err(format!("{k}: operands must be <lo> <hi> cid")),
                        }
                    }
                }
                _ => {}
            }
        }
        Ok(m)
    }

    /// Code space membership (§9.7.6.2).
    pub fn in_codespace(&self, code: &[u8]) -> bool {
        self.codespace.iter().any(|r| r.contains(code))
    }

    /// Value of every bf entry that covers `code`, in file order.
    pub fn candidates(&self, code: &[u8]) -> Vec<Value> {
        self.entries.iter().filter_map(|e| e.bf_value(code)).collect()
    }

    /// CID of every cid entry that covers `code`, in file order.
    pub fn cid_candidates(&self, code: &[u8]) -> Vec<u32> {
        self.entries.iter().filter_map(|e| e.cid_value(code)).collect()
    }

    /// Length of the next character code at the start of `bytes` (TN5014 §7.1 / ISO 32000-1
    /// §9.7.6.2): the shortest prefix that matches a code space range; None if no prefix of
    /// 1..=4 bytes does (an invalid code).
    pub fn next_code_len(&self, bytes: &[u8]) -> Option<usize> {
        (1..=bytes.len().min(4)).find(|&n| self.in_codespace(&bytes[..n]))
    }

    /// The exact code -> destination map, when the CMap is unambiguous: every covered code has
    /// one covering entry and no undefined carry. Err describes the first ambiguity. Only for
    /// CMaps whose ranges are small (it enumerates them).
    pub fn exact_map(&self) -> Result<std::collections::BTreeMap<Vec<u8>, Vec<u8>>, String> {
        let mut out = std::collections::BTreeMap::new();
        let mut put = |code: Vec<u8>, v: Value| -> Result<(), String> {
            let Value::Exact(d) = v else { return Err(format!("undefined carry at <{}>", hex(&code))) };
            if out.insert(code.clone(), d).is_some() {
                return Err(format!("code <{}> covered twice", hex(&code)));
            }
            Ok(())
        };
        for e in &self.entries {
            match e {
                Entry::BfChar { src, dst } => put(src.clone(), Value::Exact(dst.clone()))?,
                Entry::BfRange { lo, hi, .. } | Entry::BfRangeArray { lo, hi, .. } => {
                    let (l, h) = (be_value(lo), be_value(hi));
                    if h - l > 1 << 20 {
                        return Err("range too large to enumerate".into());
                    }
                    for v in l..=h {
                        let code = be_bytes(v, lo.len());
                        let val = e.bf_value(&code).ok_or("internal: range does not cover its own code")?;
                        put(code, val)?;
                    }
                }
                _ => {}
            }
        }
        Ok(out)
    }
}

/// UTF-16BE destination -> text; None if the bytes are not well-formed UTF-16 (odd length,
/// unpaired surrogate) — the sources define no reading for those.
pub fn utf16be_to_string(b: &[u8]) -> Option<String> {
    if b.len() % 2 != 0 {
        return None;
    }
    let units: Vec<u16> = b.chunks(2).map(|p| (p[0] as u16) << 8 | p[1] as u16).collect();
    char::decode_utf16(units).collect::<Result<String, _>>().ok()
}

pub fn string_to_utf16be(s: &str) -> Vec<u8> {
    s.encode_utf16().flat_map(|u| u.to_be_bytes()).collect()
}

pub fn hex(b: &[u8]) -> String {
    b.iter().map(|x| format!("{x:02X}")).collect()
}

#[cfg(test)]
mod tests {
    use super::*;

    fn one(m: &CMap, code: &[u8]) -> Option<String> {
        let c = m.candidates(code);
        assert!(c.len() <= 1, "{c:?}");
        c.first().map(|v| match v {
            Value::Exact(d) => utf16be_to_string(d).unwrap(),
            other => panic!("{other:?}"),
        })
    }

    /// ISO 32000-1 §9.10.3 EXAMPLE 2 (the ToUnicode CMap of the standard), complete.
    #[test]
    fn iso_32000_tounicode_example() {
        let text = br#"/CIDInit /ProcSet findresource begin
12 dict begin
begincmap
/CIDSystemInfo
<< /Registry (Adobe)
/Ordering (UCS)
/Supplement 0
>> def
/CMapName /Adobe-Identity-UCS def
/CMapType 2 def
1 begincodespacerange
<0000> <FFFF>
endcodespacerange
2 beginbfrange
<0000> <005E> <0020>
<005F> <0061> [<00660066> <00660069> <00660066006C>]
endbfrange
1 beginbfchar
<3A51> <D840DC3E>
endbfchar
endcmap
CMapName currentdict /CMap defineresource pop
end
end
"#;
        let m = CMap::parse(text).unwrap();
        assert_eq!(m.name.as_deref(), Some("Adobe-Identity-UCS"));
        assert_eq!(m.codespace, vec![CodeSpaceRange { lo: vec![0, 0], hi: vec![0xFF, 0xFF] }]);
        assert_eq!(m.entries.len(), 3);
        // "<0000> to <005E> are mapped to U+0020 to U+007E"
        assert_eq!(one(&m, &[0, 0]).as_deref(), Some(" "));
        assert_eq!(one(&m, &[0, 0x21]).as_deref(), Some("A"));
        assert_eq!(one(&m, &[0, 0x5E]).as_deref(), Some("~"));
        // "<005F> ff, <0060> fi, <0061> ffl"
        assert_eq!(one(&m, &[0, 0x5F]).as_deref(), Some("ff"));
        assert_eq!(one(&m, &[0, 0x60]).as_deref(), Some("fi"));
        assert_eq!(one(&m, &[0, 0x61]).as_deref(), Some("ffl"));
        // "<3A51> is mapped to the Unicode character U+2003E, expressed as a surrogate pair"
        assert_eq!(one(&m, &[0x3A, 0x51]).as_deref(), Some("\u{2003E}"));
        assert_eq!(one(&m, &[0, 0x62]), None);
        assert_eq!(one(&m, &[0x3A, 0x50]), None);
        assert!(m.in_codespace(&[0x12, 0x34]));
        assert!(!m.in_codespace(&[0x12]));
        assert!(!m.in_codespace(&[0, 0, 0]));
        assert_eq!(m.exact_map().unwrap().len(), 0x5F + 3 + 1);
    }

    /// TN5014 §7.1: the four code space ranges of 83pv-RKSJ-H (also ISO 32000-1 §9.7.6.2).
    #[test]
    fn tn5014_mixed_width_codespace() {
        let m = CMap::parse(b"4 begincodespacerange <00> <80> <8140> <9FFC> <A0> <DF> <E040> <FCFC> endcodespacerange").unwrap();
        assert_eq!(m.codespace.len(), 4);
        for (code, inside) in [
            (&[0x00u8][..], true),
            (&[0x80], true),
            (&[0x81], false),
            (&[0xA0], true),
            (&[0xDF], true),
            (&[0xE0], false),
            (&[0xFF], false),
            (&[0x81, 0x40], true),
            (&[0x9F, 0xFC], true),
            (&[0x81, 0x3F], false), // second byte below its bound
            (&[0x9F, 0xFD], false), // second byte above its bound
            (&[0x82, 0x00], false), // inside the integer interval, outside the byte rectangle
            (&[0x82, 0xFF], false),
            (&[0x90, 0x80], true),
            (&[0xA0, 0x40], false),
            (&[0xE0, 0x40], true),
            (&[0xFC, 0xFC], true),
            (&[0xFD, 0x40], false),
            (&[0x00, 0x00], false),
        ] {
            assert_eq!(m.in_codespace(code), inside, "{code:02X?}");
        }
        // code extraction from a string: 1-byte, 2-byte, 1-byte, 2-byte, then an invalid lead
        assert_eq!(m.next_code_len(&[0x41, 0x81, 0x40]), Some(1));
        assert_eq!(m.next_code_len(&[0x81, 0x40, 0x41]), Some(2));
        assert_eq!(m.next_code_len(&[0xB1, 0x81]), Some(1));
        assert_eq!(m.next_code_len(&[0xE0, 0x40]), Some(2));
        assert_eq!(m.next_code_len(&[0x81, 0x3F]), None);
        assert_eq!(m.next_code_len(&[0xFF]), None);
    }

    /// TN5014 cid sections and the EUC-style 4-byte code space.
    #[test]
    fn tn5014_cid_sections_and_four_byte_codes() {
        let m = CMap::parse(
            b"/CMapName /T def /WMode 1 def /Base usecmap\n\
              3 begincodespacerange <00> <80> <8EA1A1A1> <8EA2FEFE> <A1A1> <FEFE> endcodespacerange\n\
              1 begincidchar <8EA1A1A1> 17 endcidchar\n\
              2 begincidrange <20> <7E> 1 <A1A1> <A1FE> 633 endcidrange\n\
              1 beginnotdefrange <00> <1F> 1 endnotdefrange",
        )
        .unwrap();
        assert_eq!(m.wmode, Some(1));
        assert_eq!(m.usecmap.as_deref(), Some("Base"));
        assert!(m.in_codespace(&[0x8E, 0xA1, 0xA1, 0xA1]));
        assert!(m.in_codespace(&[0x8E, 0xA2, 0xFE, 0xFE]));
        assert!(!m.in_codespace(&[0x8E, 0xA2, 0xFE, 0xFF]));
        assert!(!m.in_codespace(&[0x8E, 0xA2, 0xA0, 0xB0])); // third byte below A1
        assert!(!m.in_codespace(&[0x8E, 0xA3, 0xA1, 0xA1]));
        assert_eq!(m.cid_candidates(&[0x8E, 0xA1, 0xA1, 0xA1]), vec![17]);
        assert_eq!(m.cid_candidates(&[0x20]), vec![1]);
        assert_eq!(m.cid_candidates(&[0x7E]), vec![95]);
        assert_eq!(m.cid_candidates(&[0xA1, 0xA3]), vec![635]);
        assert_eq!(m.cid_candidates(&[0x1F]), Vec::<u32>::new());
        assert_eq!(m.next_code_len(&[0x8E, 0xA1, 0xA1, 0xA1, 0x41]), Some(4));
        assert_eq!(m.next_code_len(&[0xA1, 0xA1]), Some(2));
    }

    #[test]
    fn offset_form_increments_the_last_byte() {
        // TN5411: <srcLo> <srcHi> <dstLo>: destination's last byte incremented per code
        let m = CMap::parse(b"1 begincodespacerange <0000> <FFFF> endcodespacerange 3 beginbfrange <00FE> <0101> <0041> <0200> <0202> <D83DDE00> <0300> <0301> <00660069> endbfrange").unwrap();
        // source range crosses a byte boundary: 00FE 00FF 0100 0101 -> A B C D
        assert_eq!(one(&m, &[0x00, 0xFE]).as_deref(), Some("A"));
        assert_eq!(one(&m, &[0x00, 0xFF]).as_deref(), Some("B"));
        assert_eq!(one(&m, &[0x01, 0x00]).as_deref(), Some("C"));
        assert_eq!(one(&m, &[0x01, 0x01]).as_deref(), Some("D"));
        assert_eq!(one(&m, &[0x01, 0x02]), None);
        assert_eq!(one(&m, &[0x00, 0xFD]), None);
        // surrogate pair: only the last byte moves
        assert_eq!(one(&m, &[0x02, 0x00]).as_deref(), Some("\u{1F600}"));
        assert_eq!(one(&m, &[0x02, 0x02]).as_deref(), Some("\u{1F602}"));
        // two characters: "fi" -> "fj"
        assert_eq!(one(&m, &[0x03, 0x01]).as_deref(), Some("fj"));
        // one-byte codes are not covered by two-byte entries
        assert_eq!(one(&m, &[0xFE]), None);
    }

    #[test]
    fn carry_out_of_the_last_byte_is_reported_as_undefined() {
        assert_eq!(offset_destination(&[0x00, 0xFE], 1), Value::Exact(vec![0x00, 0xFF]));
        assert_eq!(
            offset_destination(&[0x00, 0xFE], 2),
            Value::CarryUndefined(vec![vec![0x00, 0x00], vec![0x01, 0x00]])
        );
        assert_eq!(offset_destination(&[0xFF, 0xFF], 1), Value::CarryUndefined(vec![vec![0x00, 0x00], vec![0xFF, 0x00]]));
        // four bytes: wrap / carry into last unit / carry through (the last two coincide here)
        assert_eq!(
            offset_destination(&[0xD8, 0x3D, 0xDF, 0xFF], 1),
            Value::CarryUndefined(vec![vec![0xD8, 0x3D, 0xDF, 0x00], vec![0xD8, 0x3D, 0xE0, 0x00]])
        );
        // carry through differs from carry-in-unit when the last unit overflows
        assert_eq!(
            offset_destination(&[0x00, 0x41, 0xFF, 0xFF], 1),
            Value::CarryUndefined(vec![vec![0x00, 0x41, 0x00, 0x00], vec![0x00, 0x41, 0xFF, 0x00], vec![0x00, 0x42, 0x00, 0x00]])
        );
        let m = CMap::parse(b"1 beginbfrange <00> <02> <00FE> endbfrange").unwrap();
        assert!(m.exact_map().is_err());
    }

    #[test]
    fn overlapping_entries_give_every_candidate_in_file_order() {
        let m = CMap::parse(b"1 beginbfchar <41> <0058> endbfchar 1 beginbfrange <40> <42> <0061> endbfrange 1 beginbfchar <41> <0059> endbfchar").unwrap();
        assert_eq!(
            m.candidates(&[0x41]),
            vec![Value::Exact(vec![0, 0x58]), Value::Exact(vec![0, 0x62]), Value::Exact(vec![0, 0x59])]
        );
        assert_eq!(m.candidates(&[0x40]), vec![Value::Exact(vec![0, 0x61])]);
        assert!(m.exact_map().is_err());
    }

    #[test]
    fn postscript_syntax_details() {
        // one line, no spaces between strings, comment, white space inside hex, odd digit padded
        let m = CMap::parse(b"%!PS-Adobe-3.0 Resource-CMap\n1 begincodespacerange<00><FF>endcodespacerange 2 beginbfchar<41><00 41>\n<4 2> <004>endbfchar % trailing").unwrap();
        assert_eq!(m.codespace.len(), 1);
        assert_eq!(m.entries, vec![
            Entry::BfChar { src: vec![0x41], dst: vec![0x00, 0x41] },
            Entry::BfChar { src: vec![0x42], dst: vec![0x00, 0x40] },
        ]);
        // lower-case hex
        let m = CMap::parse(b"1 beginbfrange <00fe> <00ff> [<d83d de00> <ffff>] endbfrange").unwrap();
        assert_eq!(one(&m, &[0x00, 0xFE]).as_deref(), Some("\u{1F600}"));
        assert_eq!(one(&m, &[0x00, 0xFF]).as_deref(), Some("\u{FFFF}"));
        // structural errors
        assert!(CMap::parse(b"1 beginbfchar <41> endbfchar").is_err());
        assert!(CMap::parse(b"1 beginbfchar <41> <0041>").is_err());
        assert!(CMap::parse(b"1 beginbfrange <41> <42> [<0041>] endbfrange").is_err());
        assert!(CMap::parse(b"1 beginbfrange <0041> <42> <0041> endbfrange").is_err());
        assert!(CMap::parse(b"1 beginbfrange <42> <41> <0041> endbfrange").is_err());
        assert!(CMap::parse(b"2 beginbfchar <41> <0041> endbfchar").is_err());
        assert!(CMap::parse(b"1 begincodespacerange <0000000000> <FFFFFFFFFF> endcodespacerange").is_err());
        assert!(CMap::parse(b"1 beginbfchar <4G> <0041> endbfchar").is_err());
    }

    #[test]
    fn utf16_destinations() {
        assert_eq!(utf16be_to_string(&[0x00, 0x41]).as_deref(), Some("A"));
        assert_eq!(utf16be_to_string(&[0xD8, 0x3D, 0xDE, 0x00]).as_deref(), Some("\u{1F600}"));
        assert_eq!(utf16be_to_string(&[0x00, 0x66, 0x00, 0x69]).as_deref(), Some("fi"));
        assert_eq!(utf16be_to_string(&[0xFF, 0xFF]).as_deref(), Some("\u{FFFF}"));
        assert_eq!(utf16be_to_string(&[0xD8, 0x3D]), None);
        assert_eq!(utf16be_to_string(&[0xDE, 0x00, 0xD8, 0x3D]), None);
        assert_eq!(utf16be_to_string(&[0x41]), None);
        assert_eq!(utf16be_to_string(&[]).as_deref(), Some(""));
        for s in ["A", "\u{1F600}", "fi", "\u{FFFF}", "\u{10FFFF}", ""] {
            assert_eq!(utf16be_to_string(&string_to_utf16be(s)).as_deref(), Some(s));
        }
        // cross-check the surrogate arithmetic against Python's utf-16-be codec
        let out = std::process::Command::new("python3")
            .arg("-c")
            .arg("print(','.join(chr(c).encode('utf-16-be').hex() for c in (0x10000,0x1F600,0x2003E,0x10FFFF,0xFFFF,0xE000)))")
            .output()
            .expect("python3");
        let py = String::from_utf8(out.stdout).unwrap();
        let want: Vec<String> = ['\u{10000}', '\u{1F600}', '\u{2003E}', '\u{10FFFF}', '\u{FFFF}', '\u{E000}']
            .iter()
            .map(|c| hex(&string_to_utf16be(&c.to_string())).to_lowercase())
            .collect();
        assert_eq!(py.trim(), want.join(","));
    }

    /// The ToUnicode CMaps inside the repository's qpdf/pypdf-era fixtures must parse strictly
    /// and map at least one code to well-formed UTF-16 (smoke test on real producer output).
    #[test]
    fn real_world_tounicode_streams_parse() {
        let dir = std::path::Path::new("/repo/oxidize-pdf-core/tests/fixtures");
        let mut seen = 0;
        let mut parsed = 0;
        for name in ["issue_272_boe_sumario_2025_01_15.pdf", "issue_272_higgs_arxiv_1207_7214.pdf", "Cold_Email_Hacks.pdf"] {
            let Ok(bytes) = std::fs::read(dir.join(name)) else { continue };
            let Ok(f) = crate::file::PdfFile::parse(&bytes) else { continue };
            for n in f.live_objects() {
                let o = f.get(n);
                let Some(d) = o.as_dict() else { continue };
                let Some(tu) = d.get("ToUnicode") else { continue };
                let s = f.resolve(tu);
                let Some(st) = s.as_stream() else { continue };
                let Ok(data) = f.stream_data(st) else { continue };
                seen += 1;
                match CMap::parse(&data) {
                    Ok(m) => {
                        parsed += 1;
                        assert!(!m.codespace.is_empty(), "{name} obj {n}");
                        let any = m.entries.iter().any(|e| match e {
                            Entry::BfChar { dst, .. } | Entry::BfRange { dst, .. } => utf16be_to_string(dst).is_some(),
                            Entry::BfRangeArray { dsts, .. } => dsts.iter().all(|d| utf16be_to_string(d).is_some()),
                            _ => false,
                        });
                        assert!(any || m.entries.is_empty(), "{name} obj {n}");
                    }
                    Err(e) => panic!("{name} obj {n}: {e}\n{}", String::from_utf8_lossy(&data[..data.len().min(400)])),
                }
            }
        }
        eprintln!("ToUnicode streams seen={seen} parsed={parsed}");
        assert!(seen >= 9 && seen == parsed, "seen={seen} parsed={parsed}");
    }
}
