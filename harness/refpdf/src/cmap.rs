//! refpdf::cmap — not written yet.
