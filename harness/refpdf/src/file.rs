//! Reference PDF file reader and strict structural validator (ISO 32000-1 §7.5).
//! Cross-reference tables, cross-reference streams, hybrid files, /Prev chains, free
//! entries, object streams. Independent of the library under test.

use crate::filters;
use crate::syntax::{Dict, Obj, Parser, StreamObj};
use std::cell::RefCell;
use std::collections::{BTreeMap, BTreeSet, HashMap};

#[derive(Clone, Copy, Debug, PartialEq, Eq)]
pub enum XEntry {
    Free { next: u32, gen: u16 },
    InUse { offset: usize, gen: u16 },
    Compressed { stream: u32, index: u32 },
}

#[derive(Clone, Copy, Debug, PartialEq, Eq)]
pub enum XKind {
    Table,
    Stream,
}

#[derive(Clone, Debug)]
pub struct XrefSection {
    pub kind: XKind,
    pub offset: usize,
    /// byte offset just past the section (after the trailer dictionary / endobj)
    pub end: usize,
    pub entries: BTreeMap<u32, XEntry>,
    pub subsections: Vec<(u32, u32)>,
    pub trailer: Dict,
    /// object number of the xref stream itself (stream sections)
    pub stream_obj: Option<u32>,
}

pub type Decryptor = Box<dyn Fn(u32, u16, Obj) -> Obj + Send + Sync>;

pub struct PdfFile {
    pub bytes: Vec<u8>,
    pub version: String,
    pub header_offset: usize,
    pub startxref: usize,
    /// newest first
    pub sections: Vec<XrefSection>,
    /// merged view, newest definition wins
    pub xref: BTreeMap<u32, XEntry>,
    pub trailer: Dict,
    pub issues: RefCell<Vec<String>>,
    cache: RefCell<HashMap<u32, Obj>>,
    loading: RefCell<BTreeSet<u32>>,
    pub decryptor: Option<Decryptor>,
}

fn find_last(h: &[u8], n: &[u8]) -> Option<usize> {
    if n.is_empty() || h.len() < n.len() {
        return None;
    }
    (0..=h.len() - n.len()).rev().find(|&i| &h[i..i + n.len()] == n)
}
pub fn find_first(h: &[u8], n: &[u8], from: usize) -> Option<usize> {
    if n.is_empty() || h.len() < n.len() || from > h.len() - n.len() {
        return None;
    }
    (from..=h.len() - n.len()).find(|&i| &h[i..i + n.len()] == n)
}

impl PdfFile {
    pub fn parse(bytes: &[u8]) -> Result<PdfFile, String> {
        let mut issues = Vec::new();
        // header
        let hpos = find_first(bytes, b"%PDF-", 0).ok_or("no %PDF- header")?;
        if hpos != 0 {
            issues.push(format!("header not at byte 0 (found at {hpos})"));
        }
        if hpos > 1024 {
            return Err("header not within the first 1024 bytes".into());
        }
        let vend = bytes[hpos + 5..].iter().position(|&c| c == b'\n' || c == b'\r').map(|i| i + hpos + 5).unwrap_or(bytes.len());
        let version = String::from_utf8_lossy(&bytes[hpos + 5..vend]).trim().to_string();
        let okver = version.len() == 3 && version.as_bytes()[0].is_ascii_digit() && version.as_bytes()[1] == b'.' && version.as_bytes()[2].is_ascii_digit();
        if !okver {
            issues.push(format!("header version {version:?} is not of the form M.m"));
        }
        // startxref
        let sx = find_last(bytes, b"startxref").ok_or("no startxref")?;
        let mut p = Parser::new(bytes, sx + 9);
        p.skip_ws();
        let off = match p.parse_object() {
            Ok(Obj::Int(i)) if i >= 0 => i as usize,
            other => return Err(format!("startxref not followed by a non-negative integer ({other:?})")),
        };
        p.skip_ws_no_comment();
        if !p.starts_with(b"%%EOF") {
            issues.push("no %%EOF after startxref".into());
        } else {
            let tail = &bytes[p.pos + 5..];
            if !tail.iter().all(|&c| c == b'\n' || c == b'\r' || c == b' ') {
                issues.push(format!("{} bytes of data after the final %%EOF", tail.len()));
            }
        }
        let mut f = PdfFile {
            bytes: bytes.to_vec(),
            version,
            header_offset: hpos,
            startxref: off,
            sections: Vec::new(),
            xref: BTreeMap::new(),
            trailer: Dict::new(),
            issues: RefCell::new(issues),
            cache: RefCell::new(HashMap::new()),
            loading: RefCell::new(BTreeSet::new()),
            decryptor: None,
        };
        // sections along /Prev
        let mut next = Some(off);
        let mut seen = BTreeSet::new();
        while let Some(o) = next {
            if !seen.insert(o) {
                f.issues.borrow_mut().push(format!("/Prev chain loops at offset {o}"));
                break;
            }
            if seen.len() > 1000 {
                return Err("more than 1000 xref sections".into());
            }
            let sec = f.read_section(o)?;
            let prev = match sec.trailer.get("Prev") {
                None => None,
                Some(Obj::Int(p)) if *p >= 0 => Some(*p as usize),
                Some(other) => return Err(format!("/Prev is not a non-negative integer: {other:?}")),
            };
            // hybrid-reference file: /XRefStm entries rank after this table's and before /Prev's
            let hybrid = match (sec.kind, sec.trailer.get("XRefStm")) {
                (XKind::Table, Some(Obj::Int(x))) if *x >= 0 => Some(*x as usize),
                _ => None,
            };
            f.sections.push(sec);
            if let Some(x) = hybrid {
                let hs = f.read_section(x)?;
                f.sections.push(hs);
            }
            next = prev;
        }
        for s in &f.sections {
            for (k, v) in &s.entries {
                f.xref.entry(*k).or_insert(*v);
            }
        }
        f.trailer = f.sections[0].trailer.clone();
        Ok(f)
    }

    fn read_section(&self, off: usize) -> Result<XrefSection, String> {
        let b = &self.bytes;
        if off >= b.len() {
            return Err(format!("xref offset {off} beyond end of file ({})", b.len()));
        }
        let mut p = Parser::new(b, off);
        if p.keyword(b"xref") {
            let mut entries = BTreeMap::new();
            let mut subs = Vec::new();
            loop {
                p.skip_ws_no_comment();
                if p.keyword(b"trailer") {
                    break;
                }
                let a = p.parse_object().map_err(|e| format!("xref subsection header: {e}"))?;
                let c = p.parse_object().map_err(|e| format!("xref subsection header: {e}"))?;
                let (Obj::Int(start), Obj::Int(count)) = (a, c) else { return Err(format!("xref subsection header at {} is not two integers", p.pos)) };
                if start < 0 || count < 0 || start + count > u32::MAX as i64 {
                    return Err("xref subsection header out of range".into());
                }
                subs.push((start as u32, count as u32));
                // exactly one EOL after the header, then 20-byte entries
                if p.peek() == Some(b' ') {
                    p.pos += 1;
                }
                if p.peek() == Some(b'\r') {
                    p.pos += 1;
                }
                if p.peek() == Some(b'\n') {
                    p.pos += 1;
                }
                for i in 0..count as u32 {
                    let e = b.get(p.pos..p.pos + 20).ok_or("xref entry runs past end of file")?;
                    let okfmt = e[..10].iter().all(|c| c.is_ascii_digit())
                        && e[10] == b' '
                        && e[11..16].iter().all(|c| c.is_ascii_digit())
                        && e[16] == b' '
                        && (e[17] == b'n' || e[17] == b'f')
                        && matches!((e[18], e[19]), (b' ', b'\n') | (b' ', b'\r') | (b'\r', b'\n'));
                    if !okfmt {
                        return Err(format!("xref entry for object {} at byte {} is not in the 20-byte format: {:?}", start as u32 + i, p.pos, String::from_utf8_lossy(e)));
                    }
                    let o: usize = std::str::from_utf8(&e[..10]).unwrap().parse().unwrap();
                    let g: u32 = std::str::from_utf8(&e[11..16]).unwrap().parse().unwrap();
                    let num = start as u32 + i;
                    let ent = if e[17] == b'n' { XEntry::InUse { offset: o, gen: g.min(65535) as u16 } } else { XEntry::Free { next: o as u32, gen: g.min(65535) as u16 } };
                    entries.entry(num).or_insert(ent);
                    p.pos += 20;
                }
            }
            let t = p.parse_object().map_err(|e| format!("trailer: {e}"))?;
            let Obj::Dict(trailer) = t else { return Err("trailer is not a dictionary".into()) };
            self.issues.borrow_mut().extend(p.issues.drain(..).map(|i| format!("trailer: {i}")));
            Ok(XrefSection { kind: XKind::Table, offset: off, end: p.pos, entries, subsections: subs, trailer, stream_obj: None })
        } else {
            let (num, _gen, o) = p.indirect_object(&|l| l.as_int()).map_err(|e| format!("xref stream at {off}: {e}"))?;
            let Obj::Stream(s) = o else { return Err(format!("object at xref offset {off} is not a stream")) };
            if s.dict.get("Type").and_then(|t| t.as_name()) != Some(b"XRef") {
                return Err(format!("stream at xref offset {off} is not /Type /XRef"));
            }
            let data = filters::decode_stream(&s.dict, &s.data).map_err(|e| format!("xref stream decode: {e}"))?;
            let w: Vec<usize> = s.dict.get("W").and_then(|w| w.as_array()).ok_or("xref stream without /W")?.iter().map(|x| x.as_int().filter(|v| (0..=8).contains(v)).map(|v| v as usize).ok_or("bad /W element")).collect::<Result<_, _>>()?;
            if w.len() != 3 {
                return Err("xref stream /W must have 3 elements".into());
            }
            let size = s.dict.get("Size").and_then(|x| x.as_int()).ok_or("xref stream without /Size")?;
            let index: Vec<(u32, u32)> = match s.dict.get("Index") {
                None => vec![(0, size.max(0) as u32)],
                Some(Obj::Array(a)) if a.len() % 2 == 0 => a.chunks(2).map(|c| match (c[0].as_int(), c[1].as_int()) {
                    (Some(s), Some(n)) if s >= 0 && n >= 0 => Ok((s as u32, n as u32)),
                    _ => Err("bad /Index pair"),
                }).collect::<Result<_, _>>()?,
                Some(_) => return Err("bad /Index".into()),
            };
            let rec = w[0] + w[1] + w[2];
            let total: usize = index.iter().map(|x| x.1 as usize).sum();
            if rec == 0 || data.len() != rec * total {
                return Err(format!("xref stream data is {} bytes but /W {:?} × /Index count {} needs {}", data.len(), w, total, rec * total));
            }
            let mut entries = BTreeMap::new();
            let mut pos = 0;
            let rd = |pos: &mut usize, n: usize| -> u64 {
                let mut v = 0u64;
                for _ in 0..n {
                    v = v << 8 | data[*pos] as u64;
                    *pos += 1;
                }
                v
            };
            for (st, n) in &index {
                for i in 0..*n {
                    let t = if w[0] == 0 { 1 } else { rd(&mut pos, w[0]) };
                    let f2 = rd(&mut pos, w[1]);
                    let f3 = rd(&mut pos, w[2]);
                    let e = match t {
                        0 => XEntry::Free { next: f2 as u32, gen: f3.min(65535) as u16 },
                        1 => XEntry::InUse { offset: f2 as usize, gen: f3.min(65535) as u16 },
                        2 => XEntry::Compressed { stream: f2 as u32, index: f3 as u32 },
                        other => {
                            self.issues.borrow_mut().push(format!("xref stream entry type {other} (treated as null reference)"));
                            continue;
                        }
                    };
                    entries.entry(st + i).or_insert(e);
                }
            }
            self.issues.borrow_mut().extend(p.issues.drain(..).map(|i| format!("xref stream: {i}")));
            Ok(XrefSection { kind: XKind::Stream, offset: off, end: p.pos, entries, subsections: index, trailer: s.dict.clone(), stream_obj: Some(num) })
        }
    }

    pub fn note(&self, s: String) {
        self.issues.borrow_mut().push(s);
    }
    pub fn trailer_get(&self, k: &str) -> Option<Obj> {
        self.trailer.get(k).cloned()
    }
    pub fn is_encrypted(&self) -> bool {
        self.trailer.get("Encrypt").is_some()
    }
    pub fn max_obj(&self) -> u32 {
        self.xref.keys().next_back().copied().unwrap_or(0)
    }

    /// Parse the indirect object stored at `offset`, without xref lookup.
    pub fn object_at(&self, offset: usize) -> Result<(u32, u16, Obj, Vec<String>, usize), String> {
        if offset >= self.bytes.len() {
            return Err(format!("offset {offset} beyond end of file"));
        }
        let mut p = Parser::new(&self.bytes, offset);
        let r = p.indirect_object(&|l| match l {
            Obj::Int(i) => Some(*i),
            Obj::Ref(n, _) => self.get(*n).as_int(),
            _ => None,
        });
        match r {
            Ok((n, g, o)) => Ok((n, g, o, p.issues, p.pos)),
            Err(e) => Err(e.to_string()),
        }
    }

    /// The object with this number (Null when free, missing or unreadable — §7.3.10).
    pub fn get(&self, num: u32) -> Obj {
        if let Some(o) = self.cache.borrow().get(&num) {
            return o.clone();
        }
        if !self.loading.borrow_mut().insert(num) {
            self.note(format!("object {num} is needed to load itself"));
            return Obj::Null;
        }
        let o = self.load(num);
        self.loading.borrow_mut().remove(&num);
        self.cache.borrow_mut().insert(num, o.clone());
        o
    }
    pub fn get_gen(&self, num: u32, gen: u16) -> Obj {
        match self.xref.get(&num) {
            Some(XEntry::InUse { gen: g, .. }) if *g != gen => Obj::Null,
            Some(XEntry::Compressed { .. }) if gen != 0 => Obj::Null,
            _ => self.get(num),
        }
    }

    fn load(&self, num: u32) -> Obj {
        match self.xref.get(&num).copied() {
            None | Some(XEntry::Free { .. }) => Obj::Null,
            Some(XEntry::InUse { offset, gen }) => match self.object_at(offset) {
                Ok((n, g, o, _iss, _end)) => {
                    if n != num || g != gen {
                        self.note(format!("xref says object {num} {gen} is at {offset} but {n} {g} obj is there"));
                        return Obj::Null;
                    }
                    let is_xref_stream = o.dict_get("Type").and_then(|t| t.as_name()) == Some(b"XRef") && o.as_stream().is_some();
                    match (&self.decryptor, is_xref_stream) {
                        (Some(d), false) => d(num, gen, o),
                        _ => o,
                    }
                }
                Err(e) => {
                    self.note(format!("object {num} at {offset}: {e}"));
                    Obj::Null
                }
            },
            Some(XEntry::Compressed { stream, index }) => match self.objstm_member(stream, index) {
                Ok((n, o)) => {
                    if n != num {
                        self.note(format!("object stream {stream} index {index} holds object {n}, xref says {num}"));
                        return Obj::Null;
                    }
                    o
                }
                Err(e) => {
                    self.note(format!("object {num} in object stream {stream}: {e}"));
                    Obj::Null
                }
            },
        }
    }

    pub fn objstm_members(&self, stream: u32) -> Result<Vec<(u32, Obj)>, String> {
        let so = self.get(stream);
        let s = so.as_stream().ok_or("not a stream")?;
        if s.dict.get("Type").and_then(|t| t.as_name()) != Some(b"ObjStm") {
            return Err("not /Type /ObjStm".into());
        }
        let n = self.resolve_opt(s.dict.get("N")).as_int().ok_or("no /N")?;
        let first = self.resolve_opt(s.dict.get("First")).as_int().ok_or("no /First")?;
        if n < 0 || first < 0 {
            return Err("negative /N or /First".into());
        }
        let data = self.stream_data(s)?;
        if first as usize > data.len() {
            return Err("/First beyond the stream data".into());
        }
        let mut hp = Parser::new(&data[..first as usize], 0);
        let mut pairs = Vec::new();
        for _ in 0..n {
            let a = hp.parse_object().map_err(|e| format!("header: {e}"))?;
            let b = hp.parse_object().map_err(|e| format!("header: {e}"))?;
            match (a, b) {
                (Obj::Int(a), Obj::Int(b)) if a >= 0 && b >= 0 => pairs.push((a as u32, b as usize)),
                _ => return Err("header pair is not two non-negative integers".into()),
            }
        }
        let mut out = Vec::new();
        for (i, (num, off)) in pairs.iter().enumerate() {
            let start = first as usize + off;
            let end = pairs.get(i + 1).map(|p| first as usize + p.1).unwrap_or(data.len());
            if start > data.len() || end > data.len() || start > end {
                return Err(format!("member {i} offsets out of range"));
            }
            let mut p = Parser::new(&data[..end], start);
            let o = p.parse_object().map_err(|e| format!("member {i} (object {num}): {e}"))?;
            for is in p.issues {
                self.note(format!("object {num} in object stream {stream}: {is}"));
            }
            out.push((*num, o));
        }
        Ok(out)
    }

    fn objstm_member(&self, stream: u32, index: u32) -> Result<(u32, Obj), String> {
        let m = self.objstm_members(stream)?;
        m.get(index as usize).cloned().ok_or_else(|| format!("index {index} beyond /N {}", m.len()))
    }

    /// Follow references until a direct object is reached.
    pub fn resolve(&self, o: &Obj) -> Obj {
        let mut cur = o.clone();
        for _ in 0..64 {
            match cur {
                Obj::Ref(n, g) => cur = self.get_gen(n, g),
                other => return other,
            }
        }
        Obj::Null
    }
    pub fn resolve_opt(&self, o: Option<&Obj>) -> Obj {
        o.map(|o| self.resolve(o)).unwrap_or(Obj::Null)
    }
    /// dictionary entry, resolved
    pub fn dget(&self, d: &Obj, k: &str) -> Obj {
        self.resolve_opt(d.dict_get(k))
    }

    /// Decoded stream data (resolves indirect /Filter and /DecodeParms).
    pub fn stream_data(&self, s: &StreamObj) -> Result<Vec<u8>, String> {
        let mut d = s.dict.clone();
        for k in ["Filter", "DecodeParms", "DP"] {
            if let Some(v) = d.get(k).cloned() {
                let r = self.deep_resolve(&v, 4);
                d.set(k, r);
            }
        }
        filters::decode_stream(&d, &s.data)
    }

    /// Resolve references inside arrays/dicts down to `depth` levels.
    pub fn deep_resolve(&self, o: &Obj, depth: usize) -> Obj {
        let o = self.resolve(o);
        if depth == 0 {
            return o;
        }
        match o {
            Obj::Array(a) => Obj::Array(a.iter().map(|x| self.deep_resolve(x, depth - 1)).collect()),
            Obj::Dict(d) => Obj::Dict(Dict(d.0.iter().map(|(k, v)| (k.clone(), self.deep_resolve(v, depth - 1))).collect())),
            other => other,
        }
    }

    // -------------------------------------------------------------- page tree

    pub fn catalog(&self) -> Result<Obj, String> {
        let r = self.trailer.get("Root").ok_or("trailer has no /Root")?;
        let c = self.resolve(r);
        if c.as_dict().is_none() {
            return Err("/Root does not resolve to a dictionary".into());
        }
        Ok(c)
    }

    /// Pages in document order with inherited attributes applied (§7.7.3.4).
    pub fn pages(&self) -> Result<Vec<PageInfo>, String> {
        let cat = self.catalog()?;
        let root = cat.dict_get("Pages").ok_or("catalog has no /Pages")?.clone();
        let mut out = Vec::new();
        let mut path = Vec::new();
        self.walk_pages(&root, &Inherited::default(), &mut path, &mut out)?;
        Ok(out)
    }

    fn walk_pages(&self, node_ref: &Obj, inh: &Inherited, path: &mut Vec<u32>, out: &mut Vec<PageInfo>) -> Result<(), String> {
        let num = node_ref.as_ref().map(|r| r.0);
        if let Some(n) = num {
            if path.contains(&n) {
                return Err(format!("page tree cycle through object {n}"));
            }
            path.push(n);
        }
        if path.len() > 200 || out.len() > 100_000 {
            return Err("page tree too deep/large".into());
        }
        let node = self.resolve(node_ref);
        let Some(d) = node.as_dict() else {
            if num.is_some() {
                path.pop();
            }
            return Err(format!("page tree node {node_ref:?} is not a dictionary"));
        };
        let mut inh = inh.clone();
        for (k, slot) in [("Resources", &mut inh.resources), ("MediaBox", &mut inh.media_box), ("CropBox", &mut inh.crop_box), ("Rotate", &mut inh.rotate)] {
            if let Some(v) = d.get(k) {
                *slot = Some(self.resolve(v));
            }
        }
        let ty = d.get("Type").and_then(|t| self.resolve(t).as_name().map(|n| n.to_vec()));
        let is_pages = ty.as_deref() == Some(b"Pages") || (ty.is_none() && d.get("Kids").is_some());
        if is_pages {
            let kids = self.resolve_opt(d.get("Kids"));
            let kids = kids.as_array().ok_or("/Kids is not an array")?.to_vec();
            for k in &kids {
                self.walk_pages(k, &inh, path, out)?;
            }
        } else {
            out.push(PageInfo { obj: num, dict: d.clone(), inherited: inh });
        }
        if num.is_some() {
            path.pop();
        }
        Ok(())
    }

    /// Decoded content of a page: all /Contents streams joined by a newline.
    pub fn page_content(&self, page: &PageInfo) -> Result<Vec<u8>, String> {
        let c = self.resolve_opt(page.dict.get("Contents"));
        let parts: Vec<Obj> = match c {
            Obj::Null => vec![],
            Obj::Array(a) => a.iter().map(|x| self.resolve(x)).collect(),
            s @ Obj::Stream(_) => vec![s],
            other => return Err(format!("/Contents is a {}", other.type_name())),
        };
        let mut out = Vec::new();
        for (i, p) in parts.iter().enumerate() {
            let s = p.as_stream().ok_or("/Contents element is not a stream")?;
            if i > 0 {
                out.push(b'\n');
            }
            out.extend(self.stream_data(s)?);
        }
        Ok(out)
    }

    /// All object numbers that are in use (plain or compressed).
    pub fn live_objects(&self) -> Vec<u32> {
        self.xref.iter().filter(|(_, e)| !matches!(e, XEntry::Free { .. })).map(|(k, _)| *k).collect()
    }
}

#[derive(Clone, Debug, Default)]
pub struct Inherited {
    pub resources: Option<Obj>,
    pub media_box: Option<Obj>,
    pub crop_box: Option<Obj>,
    pub rotate: Option<Obj>,
}

#[derive(Clone, Debug)]
pub struct PageInfo {
    pub obj: Option<u32>,
    pub dict: Dict,
    pub inherited: Inherited,
}
impl PageInfo {
    pub fn media_box(&self) -> Option<[f64; 4]> {
        rect(self.inherited.media_box.as_ref()?)
    }
    pub fn crop_box(&self) -> Option<[f64; 4]> {
        rect(self.inherited.crop_box.as_ref()?)
    }
    pub fn rotate(&self) -> i64 {
        self.inherited.rotate.as_ref().and_then(|r| r.as_num()).map(|v| v as i64).unwrap_or(0)
    }
    pub fn resources(&self) -> Option<&Obj> {
        self.inherited.resources.as_ref()
    }
}
pub fn rect(o: &Obj) -> Option<[f64; 4]> {
    let a = o.as_array()?;
    if a.len() != 4 {
        return None;
    }
    Some([a[0].as_num()?, a[1].as_num()?, a[2].as_num()?, a[3].as_num()?])
}

impl<'a> Parser<'a> {
    /// skip white space only (comments are data here, e.g. `%%EOF`)
    pub fn skip_ws_no_comment(&mut self) {
        while let Some(c) = self.peek() {
            if crate::syntax::is_ws(c) {
                self.pos += 1;
            } else {
                break;
            }
        }
    }
}

// ------------------------------------------------------------------ strict validator

/// Every structural defect of the file, as one message per defect. Empty = the file is a
/// well-formed PDF in the sense of property C03.
pub fn validate(bytes: &[u8]) -> Vec<String> {
    let f = match PdfFile::parse(bytes) {
        Ok(f) => f,
        Err(e) => return vec![format!("unreadable: {e}")],
    };
    validate_file(&f)
}

pub fn validate_file(f: &PdfFile) -> Vec<String> {
    let mut out: Vec<String> = f.issues.borrow().clone();
    let b = &f.bytes;

    // startxref must be the last section in the file (§7.5.5): nothing but the
    // startxref/%%EOF lines may follow it.
    let newest = &f.sections[0];
    {
        let mut p = Parser::new(b, newest.end);
        p.skip_ws_no_comment();
        if !p.keyword(b"startxref") {
            out.push(format!("the cross-reference section at {} is not followed by 'startxref' (startxref does not point at the last section)", newest.offset));
        }
    }
    // /Size = highest object number + 1 (§7.5.5 Table 15)
    match f.trailer.get("Size") {
        Some(Obj::Int(sz)) => {
            let want = f.max_obj() as i64 + 1;
            if *sz != want {
                out.push(format!("/Size is {sz} but the highest object number is {} (expected {want})", f.max_obj()));
            }
        }
        other => out.push(format!("trailer /Size missing or not an integer: {other:?}")),
    }
    // /Root
    match f.trailer.get("Root") {
        Some(Obj::Ref(..)) => {
            let c = f.resolve(f.trailer.get("Root").unwrap());
            if c.dict_get("Type").and_then(|t| t.as_name()) != Some(b"Catalog") {
                out.push("/Root does not reference a /Type /Catalog dictionary".into());
            }
        }
        _ => out.push("trailer has no indirect /Root".into()),
    }
    if f.trailer.get("Encrypt").is_some() && f.trailer.get("ID").is_none() {
        out.push("/Encrypt present but trailer has no /ID".into());
    }
    if f.trailer.has_duplicates() {
        out.push("duplicate key in trailer".into());
    }
    // table sections: subsections sorted/non-overlapping, object 0 free
    for s in &f.sections {
        if s.kind == XKind::Table {
            let mut covered = BTreeSet::new();
            for (st, n) in &s.subsections {
                for k in *st..st + n {
                    if !covered.insert(k) {
                        out.push(format!("xref table at {} lists object {k} twice", s.offset));
                    }
                }
            }
        }
        if let Some(Obj::Int(sz)) = s.trailer.get("Size") {
            if let Some(mx) = s.entries.keys().next_back() {
                if (*mx as i64) >= *sz {
                    out.push(format!("xref section at {} has an entry for object {mx} ≥ its /Size {sz}", s.offset));
                }
            }
        }
    }
    match f.xref.get(&0) {
        Some(XEntry::Free { gen: 65535, .. }) => {}
        Some(XEntry::Free { gen, .. }) => out.push(format!("object 0 is free with generation {gen}, expected 65535")),
        other => out.push(format!("object 0 must be the head of the free list, found {other:?}")),
    }
    // each in-use object sits exactly at its offset
    let mut spans: Vec<(usize, usize, u32)> = Vec::new();
    let mut refs: Vec<(u32, u32, u16)> = Vec::new(); // (from, to, gen)
    for (&num, e) in &f.xref {
        match *e {
            XEntry::Free { .. } => {}
            XEntry::InUse { offset, gen } => {
                if offset >= b.len() {
                    out.push(format!("object {num}: offset {offset} beyond end of file"));
                    continue;
                }
                if !b[offset].is_ascii_digit() {
                    out.push(format!("object {num}: xref offset {offset} does not point at the first digit of 'N G obj' (byte there is 0x{:02x})", b[offset]));
                    continue;
                }
                if offset > 0 && b[offset - 1].is_ascii_digit() {
                    out.push(format!("object {num}: xref offset {offset} points into the middle of a number"));
                }
                match f.object_at(offset) {
                    Ok((n, g, o, issues, end)) => {
                        if n != num || g != gen {
                            out.push(format!("object {num} {gen}: '{n} {g} obj' found at its offset {offset}"));
                        }
                        for i in issues {
                            out.push(format!("object {num}: {i}"));
                        }
                        spans.push((offset, end, num));
                        collect(&o, num, &mut refs, &mut out);
                        if let Obj::Stream(s) = &o {
                            // the parser has already required `endstream` right after /Length bytes
                            if s.dict.get("Length").is_none() {
                                out.push(format!("object {num}: stream without /Length"));
                            }
                        }
                    }
                    Err(e) => out.push(format!("object {num} at {offset}: {e}")),
                }
            }
            XEntry::Compressed { stream, index } => {
                match f.xref.get(&stream) {
                    Some(XEntry::InUse { .. }) => {}
                    other => {
                        out.push(format!("object {num}: its object stream {stream} is {other:?}"));
                        continue;
                    }
                }
                match f.objstm_members(stream) {
                    Ok(m) => match m.get(index as usize) {
                        Some((n, o)) => {
                            if *n != num {
                                out.push(format!("object {num}: object stream {stream} index {index} holds object {n}"));
                            }
                            if matches!(o, Obj::Stream(_)) {
                                out.push(format!("object {num}: a stream inside an object stream"));
                            }
                            collect(o, num, &mut refs, &mut out);
                        }
                        None => out.push(format!("object {num}: index {index} beyond /N {} of object stream {stream}", m.len())),
                    },
                    Err(e) => out.push(format!("object {num}: object stream {stream}: {e}")),
                }
            }
        }
    }
    // object stream internal consistency: every member is referenced by the xref with that index
    for (&num, e) in &f.xref {
        if let XEntry::InUse { .. } = e {
            let o = f.get(num);
            if o.dict_get("Type").and_then(|t| t.as_name()) == Some(b"ObjStm") && o.as_stream().is_some() {
                match f.objstm_members(num) {
                    Ok(m) => {
                        for (i, (n, _)) in m.iter().enumerate() {
                            match f.xref.get(n) {
                                Some(XEntry::Compressed { stream, index }) if *stream == num && *index as usize == i => {}
                                // a newer revision may have superseded the member; only complain in single-revision files
                                other if f.sections.len() == 1 => out.push(format!("object stream {num} member {i} is object {n}, but the xref has {other:?} for it")),
                                _ => {}
                            }
                        }
                    }
                    Err(e) => out.push(format!("object stream {num}: {e}")),
                }
            }
        }
    }
    // overlapping objects
    spans.sort();
    for w in spans.windows(2) {
        if w[0].1 > w[1].0 {
            out.push(format!("objects {} and {} overlap in the file", w[0].2, w[1].2));
        }
    }
    // references resolve
    let mut trailer_refs = Vec::new();
    collect(&Obj::Dict(f.trailer.clone()), u32::MAX, &mut trailer_refs, &mut Vec::new());
    refs.extend(trailer_refs);
    let mut reported = BTreeSet::new();
    for (from, to, gen) in refs {
        let ok = match f.xref.get(&to) {
            Some(XEntry::InUse { gen: g, .. }) => *g == gen,
            Some(XEntry::Compressed { .. }) => gen == 0,
            _ => false,
        };
        if !ok && reported.insert((to, gen)) {
            let who = if from == u32::MAX { "trailer".to_string() } else { format!("object {from}") };
            out.push(format!("{who} references {to} {gen} R, which is not an in-use object"));
        }
    }
    out
}

fn collect(o: &Obj, from: u32, refs: &mut Vec<(u32, u32, u16)>, out: &mut Vec<String>) {
    match o {
        Obj::Ref(n, g) => refs.push((from, *n, *g)),
        Obj::Array(a) => a.iter().for_each(|x| collect(x, from, refs, out)),
        Obj::Dict(d) => {
            if d.has_duplicates() {
                out.push(format!("object {from}: dictionary with a duplicate key"));
            }
            d.iter().for_each(|(_, v)| collect(v, from, refs, out));
        }
        Obj::Stream(s) => {
            if s.dict.has_duplicates() {
                out.push(format!("object {from}: stream dictionary with a duplicate key"));
            }
            s.dict.iter().for_each(|(_, v)| collect(v, from, refs, out));
        }
        Obj::Real(r) if !r.is_finite() => out.push(format!("object {from}: non-finite real")),
        _ => {}
    }
}

#[cfg(test)]
mod tests {
    use super::*;
    fn fixture(name: &str) -> Vec<u8> {
        let root = std::env::var("VERIF_REPO").unwrap_or_else(|_| "/repo".into());
        std::fs::read(format!("{root}/oxidize-pdf-core/tests/fixtures/{name}")).unwrap()
    }
    /// Binding to the outside world: files written by qpdf / real producers must read in the
    /// reference reader, and the qpdf-written base file must pass the strict validator
    /// (guards the validator against demanding more than real conforming writers do).
    #[test]
    fn real_world_fixtures_read() {
        for (name, min_pages, must_validate) in [
            ("interop_base.pdf", 1, true),
            ("Cold_Email_Hacks.pdf", 1, false),
            ("issue_272_higgs_arxiv_1207_7214.pdf", 1, false),
            ("issue_286_indexed_images.pdf", 1, false),
            ("issue_498_actual_text_interop.pdf", 1, false),
        ] {
            let b = fixture(name);
            let f = PdfFile::parse(&b).unwrap_or_else(|e| panic!("{name}: {e}"));
            let pages = f.pages().unwrap_or_else(|e| panic!("{name}: {e}"));
            assert!(pages.len() >= min_pages, "{name}: {} pages", pages.len());
            for p in &pages {
                f.page_content(p).unwrap_or_else(|e| panic!("{name}: content: {e}"));
            }
            let issues = validate_file(&f);
            eprintln!("{name}: {} pages, {} objects, {} validator messages {:?}", pages.len(), f.xref.len(), issues.len(), &issues[..issues.len().min(3)]);
            if must_validate {
                assert!(issues.is_empty(), "{name}: {issues:?}");
            }
        }
    }
}
