//! vcheck — engine A checks (choice-tree exploration of the real library against
//! reference oracles). Usage: vcheck <ID> [--tier quick|thorough] [--replay FILE]
mod props;
pub mod util;

fn main() {
    // worker-subprocess entry points (no CLI parsing, no evidence)
    let argv: Vec<String> = std::env::args().collect();
    if argv.get(1).map(|s| s.as_str()) == Some("--worker") {
        vx::proc::apply_limits_from_env();
        std::process::exit(props::worker_main(&argv[2..]));
    }
    // glibc otherwise returns every large freed block (e.g. a zlib compressor state) to the
    // kernel and re-faults it on the next case; on 16 threads that dominates run time.
    unsafe {
        libc::mallopt(libc::M_MMAP_THRESHOLD, 32 << 20);
        libc::mallopt(libc::M_TRIM_THRESHOLD, 512 << 20);
    }
    vx::install_panic_hook();
    let cli = vx::parse_cli();
    let (built, run) = match cli.id.as_str() {
        #[cfg(feature = "c01")]
        "C01" => (props::c01::BUILT, props::c01::run as fn(&mut vx::Report)),
        #[cfg(feature = "c02")]
        "C02" => (props::c02::BUILT, props::c02::run as fn(&mut vx::Report)),
        #[cfg(feature = "c03")]
        "C03" => (props::c03::BUILT, props::c03::run as fn(&mut vx::Report)),
        #[cfg(feature = "c04")]
        "C04" => (props::c04::BUILT, props::c04::run as fn(&mut vx::Report)),
        #[cfg(feature = "c05")]
        "C05" => (props::c05::BUILT, props::c05::run as fn(&mut vx::Report)),
        #[cfg(feature = "c06")]
        "C06" => (props::c06::BUILT, props::c06::run as fn(&mut vx::Report)),
        #[cfg(feature = "c07")]
        "C07" => (props::c07::BUILT, props::c07::run as fn(&mut vx::Report)),
        #[cfg(feature = "c08")]
        "C08" => (props::c08::BUILT, props::c08::run as fn(&mut vx::Report)),
        #[cfg(feature = "c09")]
        "C09" => (props::c09::BUILT, props::c09::run as fn(&mut vx::Report)),
        #[cfg(feature = "c10")]
        "C10" => (props::c10::BUILT, props::c10::run as fn(&mut vx::Report)),
        #[cfg(feature = "c11")]
        "C11" => (props::c11::BUILT, props::c11::run as fn(&mut vx::Report)),
        #[cfg(feature = "c12")]
        "C12" => (props::c12::BUILT, props::c12::run as fn(&mut vx::Report)),
        #[cfg(feature = "c13")]
        "C13" => (props::c13::BUILT, props::c13::run as fn(&mut vx::Report)),
        #[cfg(feature = "c14")]
        "C14" => (props::c14::BUILT, props::c14::run as fn(&mut vx::Report)),
        #[cfg(feature = "c15")]
        "C15" => (props::c15::BUILT, props::c15::run as fn(&mut vx::Report)),
        #[cfg(feature = "c16")]
        "C16" => (props::c16::BUILT, props::c16::run as fn(&mut vx::Report)),
        #[cfg(feature = "c17")]
        "C17" => (props::c17::BUILT, props::c17::run as fn(&mut vx::Report)),
        #[cfg(feature = "c18")]
        "C18" => (props::c18::BUILT, props::c18::run as fn(&mut vx::Report)),
        #[cfg(feature = "c19")]
        "C19" => (props::c19::BUILT, props::c19::run as fn(&mut vx::Report)),
        #[cfg(feature = "c20")]
        "C20" => (props::c20::BUILT, props::c20::run as fn(&mut vx::Report)),
        #[cfg(feature = "c21")]
        "C21" => (props::c21::BUILT, props::c21::run as fn(&mut vx::Report)),
        #[cfg(feature = "c23")]
        "C23" => (props::c23::BUILT, props::c23::run as fn(&mut vx::Report)),
        #[cfg(feature = "c24")]
        "C24" => (props::c24::BUILT, props::c24::run as fn(&mut vx::Report)),
        #[cfg(feature = "c25")]
        "C25" => (props::c25::BUILT, props::c25::run as fn(&mut vx::Report)),
        #[cfg(feature = "c26")]
        "C26" => (props::c26::BUILT, props::c26::run as fn(&mut vx::Report)),
        #[cfg(feature = "c27")]
        "C27" => (props::c27::BUILT, props::c27::run as fn(&mut vx::Report)),
        #[cfg(feature = "c28")]
        "C28" => (props::c28::BUILT, props::c28::run as fn(&mut vx::Report)),
        #[cfg(feature = "c30")]
        "C30" => (props::c30::BUILT, props::c30::run as fn(&mut vx::Report)),
        other => {
            eprintln!("unknown property id {other:?}");
            std::process::exit(2);
        }
    };
    if !built {
        println!("MACHINERY-ERROR property={} check not built", cli.id);
        std::process::exit(2);
    }
    let mut rep = vx::Report::new(&cli.id, cli.tier);
    if let Some(p) = &cli.replay {
        match vx::load_replay(p) {
            Ok(t) => rep.replay = Some(t),
            Err(e) => {
                eprintln!("cannot load replay: {e}");
                std::process::exit(2);
            }
        }
    }
    run(&mut rep);
    std::process::exit(rep.finish());
}
