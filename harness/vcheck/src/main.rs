//! vcheck — engine A checks (choice-tree exploration of the real library against
//! reference oracles). Usage: vcheck <ID> [--tier quick|thorough] [--replay FILE]
mod props;
pub mod util;

fn main() {
    // worker-subprocess entry points (no CLI parsing, no evidence)
    let argv: Vec<String> = std::env::args().collect();
    if argv.get(1).map(|s| s.as_str()) == Some("--worker") {
        vx::proc::apply_limits_from_env();
        std::process::exit(props::worker_main(&argv[2..]));
    }
    vx::install_panic_hook();
    let cli = vx::parse_cli();
    let (built, run) = match cli.id.as_str() {
        "C01" => (props::c01::BUILT, props::c01::run as fn(&mut vx::Report)),
        "C02" => (props::c02::BUILT, props::c02::run as fn(&mut vx::Report)),
        "C03" => (props::c03::BUILT, props::c03::run as fn(&mut vx::Report)),
        "C04" => (props::c04::BUILT, props::c04::run as fn(&mut vx::Report)),
        "C05" => (props::c05::BUILT, props::c05::run as fn(&mut vx::Report)),
        "C06" => (props::c06::BUILT, props::c06::run as fn(&mut vx::Report)),
        "C07" => (props::c07::BUILT, props::c07::run as fn(&mut vx::Report)),
        "C08" => (props::c08::BUILT, props::c08::run as fn(&mut vx::Report)),
        "C09" => (props::c09::BUILT, props::c09::run as fn(&mut vx::Report)),
        "C10" => (props::c10::BUILT, props::c10::run as fn(&mut vx::Report)),
        "C11" => (props::c11::BUILT, props::c11::run as fn(&mut vx::Report)),
        "C12" => (props::c12::BUILT, props::c12::run as fn(&mut vx::Report)),
        "C13" => (props::c13::BUILT, props::c13::run as fn(&mut vx::Report)),
        "C14" => (props::c14::BUILT, props::c14::run as fn(&mut vx::Report)),
        "C15" => (props::c15::BUILT, props::c15::run as fn(&mut vx::Report)),
        "C16" => (props::c16::BUILT, props::c16::run as fn(&mut vx::Report)),
        "C17" => (props::c17::BUILT, props::c17::run as fn(&mut vx::Report)),
        "C18" => (props::c18::BUILT, props::c18::run as fn(&mut vx::Report)),
        "C19" => (props::c19::BUILT, props::c19::run as fn(&mut vx::Report)),
        "C20" => (props::c20::BUILT, props::c20::run as fn(&mut vx::Report)),
        "C21" => (props::c21::BUILT, props::c21::run as fn(&mut vx::Report)),
        "C23" => (props::c23::BUILT, props::c23::run as fn(&mut vx::Report)),
        "C24" => (props::c24::BUILT, props::c24::run as fn(&mut vx::Report)),
        "C25" => (props::c25::BUILT, props::c25::run as fn(&mut vx::Report)),
        "C26" => (props::c26::BUILT, props::c26::run as fn(&mut vx::Report)),
        "C27" => (props::c27::BUILT, props::c27::run as fn(&mut vx::Report)),
        "C28" => (props::c28::BUILT, props::c28::run as fn(&mut vx::Report)),
        "C30" => (props::c30::BUILT, props::c30::run as fn(&mut vx::Report)),
        other => {
            eprintln!("unknown property id {other:?}");
            std::process::exit(2);
        }
    };
    if !built {
        println!("MACHINERY-ERROR property={} check not built", cli.id);
        std::process::exit(2);
    }
    let mut rep = vx::Report::new(&cli.id, cli.tier);
    if let Some(p) = &cli.replay {
        match vx::load_replay(p) {
            Ok(t) => rep.replay = Some(t),
            Err(e) => {
                eprintln!("cannot load replay: {e}");
                std::process::exit(2);
            }
        }
    }
    run(&mut rep);
    std::process::exit(rep.finish());
}
