//! C26 — CMaps map every code to the Unicode they define; generated ToUnicode CMaps parse back.
//!
//! Reader half (`lookup-*`, `triples-*`, `syntax`): generated CMap *texts* = code space in
//! {1-byte, 2-byte, partial 2-byte <8140><9FFC>, the mixed 1+2-byte code space of TN5014
//! (83pv-RKSJ), partial 4-byte <8EA1A1A1><8EA2FEFE>} x ordered lists (repetition allowed) of
//! entries from a menu of {bfchar, bfrange offset form, bfrange array form} whose sources sit
//! on byte-carry points (00FE..0101, FFFF, the edges of the partial code spaces) and whose
//! destinations are {BMP, surrogate pair, two characters, FFFF, values one step before a
//! last-byte carry}; entries overlap freely. Each text is parsed by the library's
//! `CMap::parse` and by the reference interpreter `refpdf::cmap` (same text), and then **every
//! code** of the code space's lengths is looked up (all 256 one-byte codes, all 65 536
//! two-byte codes; four-byte: +-300 windows around every entry/code-space bound and every
//! value of each byte position) through `is_valid_code`, `map`, `to_unicode`.
//! Oracle (DESIGN.md §4 C26): `is_valid_code` = code space membership (ISO 32000-1 §9.7.6.2,
//! per byte); for a code inside the code space covered by no entry `map` gives None; covered
//! by entries: the destination of *any* covering entry is accepted (the format does not order
//! bfchar against bfrange); an offset-form destination whose last byte would pass 0xFF is
//! undefined (§9.10.3 "the result of mapping is undefined"): every answer is accepted — the
//! codes are counted, and how many were answered with something other than {last byte wraps,
//! carry into the last UTF-16 unit, carry through the string} is recorded in the samples; `to_unicode` must be the UTF-16BE reading when that is well formed;
//! `map` is not examined outside the code space.
//!
//! `strings`: the same interpreter at string level — a page that shows every string of 1..=3
//! two-byte codes over a 6-code menu (mapped, unmapped, surrogate pair, two characters; byte
//! patterns chosen so that a mis-aligned read hits another mapped code) with a Type0
//! /Identity-H font whose ToUnicode CMap is crafted, read back with `TextExtractor`: the
//! extracted text, minus white space and U+FFFD, must be the concatenation of the mapped
//! codes' strings; an unmapped code may be rendered as anything (§9.10.2) but must not shift
//! the code grid: the mapped codes' strings must still appear in order.
//!
//! Builder half (`builder-*`): every map of <= 4 entries over an 8-code x 6-string menu, for
//! 1- and 2-byte codes, through `ToUnicodeCMapBuilder` (both `add_mapping` and
//! `add_single_byte_mapping`), `fonts::CidMapping::generate_tounicode_cmap` (2-byte) and
//! `fonts::FontEmbedder::create_to_unicode_cmap` (glyph id -> one character); `writer`: the
//! document writer's ToUnicode stream for a Type0 font (Roboto) for every subset of <= 4 of
//! 8 characters. The produced text is parsed by BOTH the reference interpreter (exact map
//! must equal the input map, code space must be the full space) and the library
//! (`mappings` must list exactly the input; lookups must return the input strings).
use oxidize_pdf::fonts::CidMapping;
use oxidize_pdf::text::cmap::{CMap as LibCMap, CMapEntry, ToUnicodeCMapBuilder};
use refpdf::cmap::{self as rc, be_bytes, be_value, hex, Value};
use serde_json::json;
use std::collections::BTreeMap;
use vx::{Ctx, Explore, Report};

pub const BUILT: bool = true;

fn h(s: &str) -> Vec<u8> {
    (0..s.len()).step_by(2).map(|i| u8::from_str_radix(&s[i..i + 2], 16).unwrap()).collect()
}

#[derive(Clone, Debug, PartialEq, Eq, Hash)]
enum Spec {
    Char { src: Vec<u8>, dst: Vec<u8> },
    Offset { lo: Vec<u8>, hi: Vec<u8>, dst: Vec<u8> },
    Array { lo: Vec<u8>, hi: Vec<u8>, dsts: Vec<Vec<u8>> },
}

impl Spec {
    fn is_char(&self) -> bool {
        matches!(self, Spec::Char { .. })
    }
    fn line(&self, style: usize) -> String {
        let hx = |b: &[u8]| -> String {
            match style {
                3 => {
                    // lower case, a space inside
                    let s = hex(b).to_lowercase();
                    if s.len() > 2 { format!("<{} {}>", &s[..2], &s[2..]) } else { format!("<{s}>") }
                }
                _ => format!("<{}>", hex(b)),
            }
        };
        let sep = if style == 2 { "" } else { " " };
        match self {
            Spec::Char { src, dst } => format!("{}{sep}{}", hx(src), hx(dst)),
            Spec::Offset { lo, hi, dst } => format!("{}{sep}{}{sep}{}", hx(lo), hx(hi), hx(dst)),
            Spec::Array { lo, hi, dsts } => {
                format!("{}{sep}{}{sep}[{}]", hx(lo), hx(hi), dsts.iter().map(|d| hx(d)).collect::<Vec<_>>().join(sep))
            }
        }
    }
    fn short(&self) -> String {
        match self {
            Spec::Char { .. } => format!("bfchar {}", self.line(0)),
            Spec::Offset { .. } => format!("bfrange {}", self.line(0)),
            Spec::Array { lo, hi, dsts } => format!("bfrange <{}> <{}> [{} dsts: <{}> ..]", hex(lo), hex(hi), dsts.len(), hex(&dsts[0])),
        }
    }
    fn anchors(&self) -> Vec<Vec<u8>> {
        match self {
            Spec::Char { src, .. } => vec![src.clone()],
            Spec::Offset { lo, hi, .. } | Spec::Array { lo, hi, .. } => vec![lo.clone(), hi.clone()],
        }
    }
}

struct Space {
    name: &'static str,
    ranges: &'static [(&'static str, &'static str)],
    /// bfchar sources
    singles: &'static [&'static str],
    /// bfrange sources (offset and array form)
    spans: &'static [(&'static str, &'static str)],
    /// bfrange sources too long for the array form (offset form only, destination <0000>)
    wide: &'static [(&'static str, &'static str)],
}

const SPACES: [Space; 5] = [
    Space { name: "1byte", ranges: &[("00", "FF")], singles: &["00", "41", "FE", "FF"], spans: &[("FE", "FF"), ("41", "43"), ("00", "02")], wide: &[("00", "FF")] },
    Space {
        name: "2byte",
        ranges: &[("0000", "FFFF")],
        singles: &["00FE", "00FF", "0100", "FFFF"],
        spans: &[("00FE", "0101"), ("00FF", "0100"), ("FFFE", "FFFF")],
        wide: &[("0000", "FFFF")],
    },
    Space {
        name: "partial2",
        ranges: &[("8140", "9FFC")],
        // 8200 and 81FD lie inside the integer interval 8140..9FFC but outside the byte rectangle
        singles: &["8140", "81FC", "8200", "9FFC"],
        spans: &[("81FB", "8241"), ("8140", "8142"), ("9FFB", "9FFC")],
        wide: &[("8140", "9FFC")],
    },
    Space {
        name: "mixed12",
        ranges: &[("00", "80"), ("8140", "9FFC"), ("A0", "DF"), ("E040", "FCFC")],
        singles: &["00", "80", "81", "A0", "8140", "E040"],
        spans: &[("7F", "80"), ("81FB", "8241"), ("FCFB", "FCFC")],
        wide: &[("00", "FF")],
    },
    Space {
        name: "4byte",
        ranges: &[("8EA1A1A1", "8EA2FEFE")],
        singles: &["8EA1A1A1", "8EA1A1FE", "8EA2FEFE"],
        spans: &[("8EA1A1FD", "8EA1A2A2"), ("8EA1A1A1", "8EA1A1A3")],
        wide: &[("8EA1A1A1", "8EA2FEFE")],
    },
];

const D_BMP: &str = "0041";
const D_PAIR: &str = "D83DDE00";
const D_TWO: &str = "00660069";
const D_FFFF: &str = "FFFF";
const D_NEAR: &str = "00FE"; // one step before a last-byte carry
const D_PAIR_NEAR: &str = "D83DDFFE";
const D_FFFE: &str = "FFFE";
const D_THREE_UNITS: &str = "0041D83DDE00";

fn menu(sp: &Space, size: usize) -> Vec<Spec> {
    // size 0 = reduced (for triples in the quick tier), 1 = quick, 2 = thorough
    let char_d: &[&str] = match size {
        0 => &[D_BMP, D_PAIR],
        1 => &[D_BMP, D_PAIR, D_TWO, D_FFFF],
        _ => &[D_BMP, D_PAIR, D_TWO, D_FFFF, D_THREE_UNITS],
    };
    let off_d: &[&str] = match size {
        0 => &[D_BMP, D_NEAR],
        1 => &[D_BMP, D_NEAR, D_PAIR, D_PAIR_NEAR, D_TWO],
        _ => &[D_BMP, D_NEAR, D_PAIR, D_PAIR_NEAR, D_TWO, D_FFFE, D_FFFF],
    };
    let cycle = [D_BMP, D_PAIR, D_TWO, D_FFFF];
    let mut m = Vec::new();
    let singles = if size == 0 { &sp.singles[..sp.singles.len().min(3)] } else { sp.singles };
    let spans = if size == 0 { &sp.spans[..sp.spans.len().min(2)] } else { sp.spans };
    for s in singles {
        for d in char_d {
            m.push(Spec::Char { src: h(s), dst: h(d) });
        }
    }
    for (lo, hi) in spans {
        for d in off_d {
            m.push(Spec::Offset { lo: h(lo), hi: h(hi), dst: h(d) });
        }
        let n = (be_value(&h(hi)) - be_value(&h(lo)) + 1) as usize;
        let starts: &[usize] = if size == 2 { &[0, 2] } else { &[0] };
        for st in starts {
            m.push(Spec::Array { lo: h(lo), hi: h(hi), dsts: (0..n).map(|k| h(cycle[(st + k) % 4])).collect() });
        }
    }
    if size > 0 {
        for (lo, hi) in sp.wide {
            m.push(Spec::Offset { lo: h(lo), hi: h(hi), dst: h("0000") });
        }
    }
    m
}

const HEADER: &str = "/CIDInit /ProcSet findresource begin\n12 dict begin\nbegincmap\n/CIDSystemInfo\n<< /Registry (Adobe)\n/Ordering (UCS)\n/Supplement 0\n>> def\n/CMapName /Adobe-Identity-UCS def\n/CMapType 2 def\n";
const FOOTER: &str = "endcmap\nCMapName currentdict /CMap defineresource pop\nend\nend\n";

/// layout 0: Adobe wrapper, one block per entry. 1: same-kind neighbours share a block.
/// 2: no wrapper, one line, no blanks between strings. 3: wrapper, lower-case hex with a blank
/// inside, CR LF line ends, comment lines.
fn render(sp: &Space, entries: &[Spec], layout: usize) -> String {
    let nl = match layout {
        2 => " ",
        3 => "\r\n",
        _ => "\n",
    };
    let mut t = String::new();
    if layout != 2 {
        t.push_str(&HEADER.replace('\n', if layout == 3 { "\r\n" } else { "\n" }));
    }
    let cs_line = |lo: &str, hi: &str| Spec::Char { src: h(lo), dst: h(hi) }.line(layout);
    t.push_str(&format!("{} begincodespacerange{nl}", sp.ranges.len()));
    for (lo, hi) in sp.ranges {
        t.push_str(&cs_line(lo, hi));
        t.push_str(nl);
    }
    t.push_str(&format!("endcodespacerange{nl}"));
    let mut i = 0;
    while i < entries.len() {
        let mut j = i + 1;
        if layout == 1 || layout == 2 {
            while j < entries.len() && entries[j].is_char() == entries[i].is_char() {
                j += 1;
            }
        }
        let (b, e) = if entries[i].is_char() { ("beginbfchar", "endbfchar") } else { ("beginbfrange", "endbfrange") };
        if layout == 3 {
            t.push_str("% entry block\r\n");
        }
        t.push_str(&format!("{} {b}{nl}", j - i));
        for s in &entries[i..j] {
            t.push_str(&s.line(layout));
            t.push_str(nl);
        }
        t.push_str(&format!("{e}{nl}"));
        i = j;
    }
    if layout != 2 {
        t.push_str(&FOOTER.replace('\n', if layout == 3 { "\r\n" } else { "\n" }));
    }
    t
}

/// The defect signature seen in the library: a code space range read as an interval of the
/// code's integer value instead of a per-byte rectangle.
fn integer_interval_membership(r: &rc::CMap, code: &[u8]) -> bool {
    r.codespace.iter().any(|cs| cs.lo.len() == code.len() && cs.lo.as_slice() <= code && code <= cs.hi.as_slice())
}

#[derive(Default)]
struct Tally {
    codes: u64,
    inside: u64,
    covered: u64,
    undefined_carry: u64,
    /// undefined-carry codes answered with something other than wrap / carry (incl. None)
    undefined_unrecognised: u64,
    overlapped: u64,
    membership_bad: u64,
    membership_all_integer_model: bool,
    first: BTreeMap<&'static str, String>,
    oh: u64,
}

impl Tally {
    fn fail(&mut self, key: &'static str, detail: impl FnOnce() -> String) {
        self.first.entry(key).or_insert_with(detail);
    }
}

/// Examine one code through the library against the reference.
fn examine(lib: &LibCMap, r: &rc::CMap, cover: &[(usize, u64, u64)], code: &[u8], t: &mut Tally) {
    t.codes += 1;
    let vr = r.in_codespace(code);
    let vl = lib.is_valid_code(code);
    if vr != vl {
        t.membership_bad += 1;
        t.fail("membership", || format!("is_valid_code(<{}>) = {vl}, code space membership is {vr}", hex(code)));
    }
    if vl != integer_interval_membership(r, code) {
        t.membership_all_integer_model = false;
    }
    if !vr {
        return;
    }
    t.inside += 1;
    let v = be_value(code);
    let is_cov = cover.iter().any(|(len, lo, hi)| *len == code.len() && *lo <= v && v <= *hi);
    let m = lib.map(code);
    if !is_cov {
        if let Some(x) = &m {
            t.fail("C26/map-answers-for-a-code-no-entry-covers", || format!("map(<{}>) = <{}>, no bfchar/bfrange covers the code", hex(code), hex(x)));
        }
        return;
    }
    t.covered += 1;
    let cands = r.candidates(code);
    if cands.len() > 1 {
        t.overlapped += 1;
    }
    let Some(got) = m else {
        if cands.iter().all(|c| matches!(c, Value::CarryUndefined(_))) {
            // "the result of mapping is undefined" (ISO 32000-1 9.10.3): no answer is an answer
            t.undefined_carry += 1;
            t.undefined_unrecognised += 1;
            return;
        }
        t.fail("C26/map-none-for-a-covered-code", || format!("map(<{}>) = None, covering entries give {cands:02X?}", hex(code)));
        return;
    };
    t.oh = vx::hmix(t.oh, vx::hmix(v, vx::hbytes(&got)));
    let mut accepted = false;
    let mut undefined = false;
    for c in &cands {
        match c {
            Value::Exact(d) => accepted |= *d == got,
            Value::CarryUndefined(readings) => {
                undefined = true;
                accepted |= readings.contains(&got);
            }
        }
    }
    if undefined {
        t.undefined_carry += 1;
    }
    if !accepted {
        if undefined {
            // undefined by the standard: any answer conforms; counted, not judged
            t.undefined_unrecognised += 1;
            return;
        }
        t.fail("C26/map-wrong-destination", || format!("map(<{}>) = <{}>, covering entries give {cands:02X?}", hex(code), hex(&got)));
        return;
    }
    // to_unicode: the UTF-16BE reading of what map returned, when well formed
    if let Some(want) = rc::utf16be_to_string(&got) {
        let text = lib.to_unicode(&got);
        if text.as_deref() != Some(want.as_str()) {
            t.fail("C26/to_unicode-wrong-text", || format!("to_unicode(<{}>) = {text:?}, UTF-16BE reading is {want:?} (code <{}>)", hex(&got), hex(code)));
        }
    }
}

fn flush(c: &mut Ctx, t: Tally, what: &str) {
    if let Some(d) = t.first.get("membership") {
        let key = if t.membership_all_integer_model {
            "C26/is_valid_code-reads-codespace-range-as-integer-interval"
        } else {
            "C26/is_valid_code-mismatch"
        };
        c.fail(key, format!("{what}: {} codes with wrong membership; first: {d}", t.membership_bad));
    }
    for (k, d) in &t.first {
        if *k != "membership" {
            c.fail(*k, format!("{what}: {d}"));
        }
    }
    c.add_evaluations(t.codes);
    c.outcome(vx::hmix(t.oh, vx::h64(&(t.inside, t.covered, t.membership_bad))));
}

/// all codes examined for one CMap of a space
fn sweep(sp: &Space, entries: &[Spec], lib: &LibCMap, r: &rc::CMap, t: &mut Tally) {
    let cover: Vec<(usize, u64, u64)> = r
        .entries
        .iter()
        .filter_map(|e| match e {
            rc::Entry::BfChar { src, .. } => Some((src.len(), be_value(src), be_value(src))),
            rc::Entry::BfRange { lo, hi, .. } | rc::Entry::BfRangeArray { lo, hi, .. } => Some((lo.len(), be_value(lo), be_value(hi))),
            _ => None,
        })
        .collect();
    let lens: Vec<usize> = {
        let mut v: Vec<usize> = sp.ranges.iter().map(|(lo, _)| lo.len() / 2).collect();
        v.sort();
        v.dedup();
        v
    };
    t.membership_all_integer_model = true;
    // one-byte codes: always (membership must be false where the space has no 1-byte range)
    for b in 0u16..256 {
        examine(lib, r, &cover, &[b as u8], t);
    }
    // two-byte codes: every code when the space has 2-byte ranges; for the other spaces the
    // membership of all 65 536 is probed once, in the case without entries (it does not
    // depend on the entries)
    if lens.contains(&2) || entries.is_empty() {
        for v in 0u32..65536 {
            examine(lib, r, &cover, &[(v >> 8) as u8, v as u8], t);
        }
    }
    // other lengths: fixed probes
    let probes: [&[u8]; 6] = [&[], &[0, 0, 0], &[0x81, 0x40, 0x00], &[0x8E, 0xA1, 0xA1], &[0, 0, 0, 0], &[0x8E, 0xA1, 0xA1, 0xA1, 0xA1]];
    for code in probes {
        examine(lib, r, &cover, code, t);
    }
    if lens.contains(&4) {
        let mut anchors: Vec<u64> = sp.ranges.iter().flat_map(|(lo, hi)| [be_value(&h(lo)), be_value(&h(hi))]).collect();
        for e in entries {
            anchors.extend(e.anchors().iter().filter(|a| a.len() == 4).map(|a| be_value(a)));
        }
        anchors.sort();
        anchors.dedup();
        let mut codes: std::collections::BTreeSet<u64> = Default::default();
        for a in &anchors {
            for v in a.saturating_sub(300)..=(a + 300).min(0xFFFF_FFFF) {
                codes.insert(v);
            }
        }
        // every value of each byte position, the other bytes at the low / high bound
        for (lo, hi) in sp.ranges {
            for base in [h(lo), h(hi)] {
                for pos in 0..4 {
                    for x in 0u16..256 {
                        let mut cde = base.clone();
                        cde[pos] = x as u8;
                        codes.insert(be_value(&cde));
                    }
                }
            }
        }
        for v in codes {
            examine(lib, r, &cover, &be_bytes(v, 4), t);
        }
    }
}

fn lookup_case(c: &mut Ctx, sp: &Space, entries: &[Spec], layout: usize) {
    let text = render(sp, entries, layout);
    c.input(vx::hbytes(text.as_bytes()));
    if !entries.is_empty() {
        c.nontrivial();
    }
    let what = format!("space {} entries [{}]{}", sp.name, entries.iter().map(|e| e.short()).collect::<Vec<_>>().join(" | "), if layout > 0 { format!(" layout {layout}") } else { String::new() });
    let r = match rc::CMap::parse(text.as_bytes()) {
        Ok(r) => r,
        Err(e) => {
            c.fail("C26/check-bug-reference-rejects-generated-cmap", format!("{what}: {e}\n{text}"));
            return;
        }
    };
    if r.entries.len() != entries.len() || r.codespace.len() != sp.ranges.len() {
        c.fail("C26/check-bug-reference-parse-differs-from-generator", format!("{what}: {r:?}"));
        return;
    }
    let lib = match vx::guard(|| LibCMap::parse(text.as_bytes())) {
        Ok(Ok(l)) => l,
        Ok(Err(e)) => {
            c.fail("C26/parse-rejects-valid-cmap", format!("{what}: {e:?}"));
            return;
        }
        Err(p) => {
            c.fail("C26/parse-panics", format!("{what}: {p}"));
            return;
        }
    };
    let mut t = Tally::default();
    if let Err(p) = vx::guard(|| sweep(sp, entries, &lib, &r, &mut t)) {
        c.fail("C26/lookup-panics", format!("{what}: {p}"));
        return;
    }
    c.sample(json!({"space": sp.name, "layout": layout, "entries": entries.iter().map(|e| e.short()).collect::<Vec<_>>(),
                    "codes_examined": t.codes, "inside_code_space": t.inside, "covered": t.covered,
                    "covered_by_several_entries": t.overlapped, "undefined_carry_codes": t.undefined_carry,
                    "undefined_carry_codes_answered_neither_wrap_nor_carry": t.undefined_unrecognised}));
    flush(c, t, &what);
}

// ------------------------------------------------------------------------------ builder half

const STRINGS: [&str; 6] = ["A", "\u{E9}", "\u{20AC}", "\u{1F600}", "fi", "\u{FFFF}"];
const CODES1: [&str; 8] = ["00", "01", "20", "41", "7F", "80", "FE", "FF"];
const CODES2: [&str; 8] = ["0000", "0041", "00FE", "00FF", "0100", "0101", "FFFE", "FFFF"];

/// every map of <= 4 entries: for each of the 8 codes "absent" or one of `nstr` strings
fn choose_map(c: &mut Ctx, codes: &[&str; 8], nstr: usize, distinct_strings: bool) -> Vec<(Vec<u8>, usize)> {
    let mut m: Vec<(Vec<u8>, usize)> = Vec::new();
    for code in codes {
        if m.len() == 4 {
            break;
        }
        let avail: Vec<usize> = (0..nstr).filter(|s| !distinct_strings || !m.iter().any(|(_, u)| u == s)).collect();
        let k = c.choose("absent-or-string", 1 + avail.len());
        if k > 0 {
            m.push((h(code), avail[k - 1]));
        }
    }
    m
}

/// What both parsers must make of a generated ToUnicode CMap.
fn check_built(c: &mut Ctx, what: &str, text: &[u8], code_len: usize, want: &BTreeMap<Vec<u8>, String>, full_sweep: bool) {
    let show = || String::from_utf8_lossy(text).replace('\n', "\\n");
    // A hex string with an odd number of digits is the signature of the known generator defect
    // "character above U+FFFF formatted with {:04X}" (<1F600>): such a text is not a valid
    // ToUnicode CMap (the destination is not UTF-16BE), so what the library's own parser makes
    // of the rest of it is not examined.
    let odd_hex = {
        let t = String::from_utf8_lossy(text);
        let astral = want.values().any(|s| s.chars().any(|ch| ch as u32 > 0xFFFF));
        astral && t.split('<').skip(1).any(|seg| seg.split('>').next().map(|d| !d.is_empty() && d.len() % 2 == 1 && d.chars().all(|x| x.is_ascii_hexdigit())).unwrap_or(false))
    };
    if odd_hex {
        c.fail(format!("C26/{what}-writes-character-above-FFFF-as-5-hex-digits"), format!("map {want:?}; text {}", show()));
        return;
    }
    // reference interpreter
    match rc::CMap::parse(text) {
        Err(e) => c.fail(format!("C26/{what}-output-rejected-by-reference-interpreter"), format!("map {want:?}: {e}; text {}", show())),
        Ok(r) => {
            let full = vec![rc::CodeSpaceRange { lo: vec![0; code_len], hi: vec![0xFF; code_len] }];
            if r.codespace != full {
                c.fail(format!("C26/{what}-codespace-not-the-full-space"), format!("map {want:?}: code space {:?}", r.codespace));
            }
            // every code any entry covers, with the value of every covering entry
            let mut got: BTreeMap<Vec<u8>, Vec<Value>> = BTreeMap::new();
            for e in &r.entries {
                let (lo, hi, len) = match e {
                    rc::Entry::BfChar { src, .. } => (be_value(src), be_value(src), src.len()),
                    rc::Entry::BfRange { lo, hi, .. } | rc::Entry::BfRangeArray { lo, hi, .. } => (be_value(lo), be_value(hi), lo.len()),
                    _ => continue,
                };
                for v in lo..=hi.min(lo + 70000) {
                    let code = be_bytes(v, len);
                    if let Some(val) = e.bf_value(&code) {
                        got.entry(code).or_default().push(val);
                    }
                }
            }
            let mut undefined: Option<Vec<u8>> = None;
            let mut wrong: Option<String> = None;
            if got.keys().collect::<Vec<_>>() != want.keys().collect::<Vec<_>>() {
                wrong = Some(format!("codes with a mapping {:?}", got.keys().map(|k| hex(k)).collect::<Vec<_>>()));
            }
            for (code, vals) in &got {
                if vals.len() > 1 {
                    c.fail(format!("C26/{what}-maps-a-code-twice"), format!("code <{}>: {vals:02X?}; text {}", hex(code), show()));
                }
                let w = want.get(code);
                for v in vals {
                    let ok = match v {
                        Value::Exact(d) => rc::utf16be_to_string(d).as_ref() == w,
                        Value::CarryUndefined(readings) => {
                            undefined.get_or_insert_with(|| code.clone());
                            readings.iter().any(|d| rc::utf16be_to_string(d).as_ref() == w)
                        }
                    };
                    if !ok && wrong.is_none() {
                        wrong = Some(format!("code <{}> reads {v:02X?}, want {w:?}", hex(code)));
                    }
                }
            }
            if let Some(code) = undefined {
                // ISO 32000-1 9.10.3: "the value of the last byte in the string shall be less than or
                // equal to 255 - (srcCode2 - srcCode1) ... otherwise, the result of mapping is undefined"
                c.fail(
                    format!("C26/{what}-bfrange-destination-last-byte-passes-255"),
                    format!("map {want:?}: the mapping of code <{}> relies on a carry out of the destination's last byte; text {}", hex(&code), show()),
                );
            }
            if let Some(wr) = wrong {
                c.fail(format!("C26/{what}-reads-back-differently-in-reference-interpreter"), format!("map {want:?}: {wr}; text {}", show()));
            }
        }
    }
    // the library's own parser
    let lib = match vx::guard(|| LibCMap::parse(text)) {
        Ok(Ok(l)) => l,
        other => {
            c.fail(format!("C26/{what}-output-rejected-by-library-parser"), format!("map {want:?}: {:?}", other.map(|r| r.map(|_| ()))));
            return;
        }
    };
    // `mappings` lists every entry the parser kept: it must be exactly the input
    let mut listed: BTreeMap<Vec<u8>, Option<String>> = BTreeMap::new();
    for e in &lib.mappings {
        match e {
            CMapEntry::Single { src, dst } => {
                listed.insert(src.clone(), lib.to_unicode(dst));
            }
            CMapEntry::Range { src_start, src_end, .. } => {
                let (lo, hi) = (be_value(src_start), be_value(src_end));
                for v in lo..=hi.min(lo + 70000) {
                    let code = be_bytes(v, src_start.len());
                    let t = lib.map(&code).and_then(|m| lib.to_unicode(&m));
                    listed.insert(code, t);
                }
            }
        }
    }
    let w: BTreeMap<Vec<u8>, Option<String>> = want.iter().map(|(k, v)| (k.clone(), Some(v.clone()))).collect();
    if listed != w {
        c.fail(format!("C26/{what}-reads-back-differently-in-library-parser"), format!("want {w:?} got {listed:?}; text {}", show()));
    }
    let probe = |code: &[u8], c: &mut Ctx| {
        let got = lib.map(code).and_then(|m| lib.to_unicode(&m));
        let wv = want.get(code).cloned();
        if got != wv {
            c.fail(format!("C26/{what}-lookup-differs-in-library-parser"), format!("code <{}> want {wv:?} got {got:?}; text {}", hex(code), show()));
        }
        if !lib.is_valid_code(code) {
            c.fail(format!("C26/{what}-code-outside-own-codespace"), format!("code <{}>; text {}", hex(code), show()));
        }
    };
    let n = if code_len == 1 { 256u64 } else { 65536 };
    if code_len == 1 || full_sweep {
        for v in 0..n {
            probe(&be_bytes(v, code_len), c);
        }
        c.add_evaluations(n);
    } else {
        let mut vs: Vec<u64> = Vec::new();
        for k in want.keys().map(|k| be_value(k)).chain(CODES2.iter().map(|s| be_value(&h(s)))) {
            vs.extend([k.saturating_sub(1), k, (k + 1).min(n - 1)]);
        }
        vs.sort();
        vs.dedup();
        c.add_evaluations(vs.len() as u64);
        for v in vs {
            probe(&be_bytes(v, code_len), c);
        }
    }
}

pub fn run(rep: &mut Report) {
    let thorough = rep.tier.is_thorough();
    rep.rule(
        "enumerated case = one generated CMap text (code space x ordered entry list x layout) with every code of \
         the code space's lengths looked up inside, or one code->string map through one generator; non-trivial = \
         at least one entry; distinct = distinct generated text (hash) / distinct map, distinct outcome = \
         distinct table of library answers",
    );
    rep.assume("reference interpreter refpdf::cmap written from Adobe TN5014/TN5411 and ISO 32000-1 §9.7.6.2/§9.10.3; unit-tested on the standard's ToUnicode example, the TN5014 code-space example and 9 ToUnicode streams of real producers");
    rep.assume("a source range <lo> <hi> denotes the codes whose big-endian value lies in lo..=hi (the reading every consumer of <0000><FFFF> identity ranges takes)");
    rep.assume("a code covered by several entries may map to the destination of any of them; an offset-form destination whose last byte would pass 0xFF is undefined by ISO 32000-1 9.10.3 and any answer is accepted (counted)");
    rep.assume("map() is examined only for codes inside the code space; is_valid_code must equal per-byte code space membership for every examined code");
    rep.assume("to_unicode is compared only when the destination is well-formed UTF-16BE");

    // ---------------------------------------------------------------- reader half
    for sp in &SPACES {
        let m = menu(sp, if thorough { 2 } else { 1 });
        let max = if thorough { 3 } else { 2 };
        rep.note(&format!("menu_{}", sp.name), json!({"entries_in_menu": m.len(), "max_entries_per_cmap": max}));
        rep.explore(&format!("lookup-{}", sp.name), Explore::full(), |c: &mut Ctx| {
            let n = c.choose("n_entries", max + 1);
            let entries: Vec<Spec> = (0..n).map(|_| c.pick_from("entry", &m).clone()).collect();
            lookup_case(c, sp, &entries, 0);
        });
        if !thorough {
            // triples over a reduced menu (the thorough tier has triples over the full menu)
            let m0 = menu(sp, 0);
            rep.explore(&format!("triples-{}", sp.name), Explore::full(), |c: &mut Ctx| {
                let entries: Vec<Spec> = (0..3).map(|_| c.pick_from("entry", &m0).clone()).collect();
                lookup_case(c, sp, &entries, 0);
            });
        }
    }
    {
        let sp = &SPACES[1];
        let m = menu(sp, 1);
        rep.explore("syntax", Explore::full(), |c: &mut Ctx| {
            let layout = 1 + c.choose("layout", 3);
            let n = c.choose("n_entries", 3);
            let entries: Vec<Spec> = (0..n).map(|_| c.pick_from("entry", &m).clone()).collect();
            lookup_case(c, sp, &entries, layout);
        });
    }

    // ---------------------------------------------------------------- builder half
    for (code_len, codes) in [(1usize, &CODES1), (2, &CODES2)] {
        rep.explore(&format!("builder-tounicode-{code_len}byte"), Explore::full(), |c: &mut Ctx| {
            let api = c.choose("api", 2);
            let m = choose_map(c, codes, STRINGS.len(), false);
            c.input(vx::h64(&(api, &m)));
            if !m.is_empty() {
                c.nontrivial();
            }
            let mut b = ToUnicodeCMapBuilder::new(code_len);
            for (code, s) in &m {
                let st = STRINGS[*s];
                let single = st.chars().count() == 1 && code[..code.len() - 1].iter().all(|x| *x == 0);
                if api == 1 && single {
                    b.add_single_byte_mapping(*code.last().unwrap(), st.chars().next().unwrap());
                } else {
                    b.add_mapping(code.clone(), st);
                }
            }
            let text = match vx::guard(|| b.build()) {
                Ok(t) => t,
                Err(p) => {
                    c.fail("C26/tounicode-builder-panics", format!("{m:?}: {p}"));
                    return;
                }
            };
            c.outcome(vx::hbytes(&text));
            let want: BTreeMap<Vec<u8>, String> = m.iter().map(|(k, s)| (k.clone(), STRINGS[*s].to_string())).collect();
            c.sample(json!({"generator": "ToUnicodeCMapBuilder", "code_len": code_len, "api": if api == 1 { "add_single_byte_mapping where possible" } else { "add_mapping" },
                            "map": want.iter().map(|(k, v)| format!("<{}> -> {:?}", hex(k), v)).collect::<Vec<_>>()}));
            check_built(c, "tounicode-builder", &text, code_len, &want, m.len() <= if thorough { 3 } else { 2 });
        });
    }

    rep.explore("builder-cidmapping", Explore::full(), |c: &mut Ctx| {
        // where single-character strings go: 0 = cid_to_unicode (code point), 1 = cid_to_unicode_str
        let place = c.choose("single-chars-in", 2);
        let m = choose_map(c, &CODES2, STRINGS.len(), false);
        c.input(vx::h64(&(place, &m)));
        if !m.is_empty() {
            c.nontrivial();
        }
        let mut cm = CidMapping::new();
        for (code, s) in &m {
            let cid = be_value(code) as u16;
            let st = STRINGS[*s];
            if st.chars().count() == 1 && place == 0 {
                cm.cid_to_unicode.insert(cid, st.chars().next().unwrap() as u32);
            } else {
                cm.cid_to_unicode_str.insert(cid, st.to_string());
            }
            cm.max_cid = cm.max_cid.max(cid);
        }
        let text = match vx::guard(|| cm.generate_tounicode_cmap()) {
            Ok(t) => t,
            Err(p) => {
                c.fail("C26/cidmapping-generator-panics", format!("{m:?}: {p}"));
                return;
            }
        };
        c.outcome(vx::hbytes(&text));
        let want: BTreeMap<Vec<u8>, String> = m.iter().map(|(k, s)| (k.clone(), STRINGS[*s].to_string())).collect();
        c.sample(json!({"generator": "CidMapping::generate_tounicode_cmap", "map": want.iter().map(|(k, v)| format!("<{}> -> {:?}", hex(k), v)).collect::<Vec<_>>()}));
        check_built(c, "cidmapping", &text, 2, &want, m.len() <= if thorough { 2 } else { 1 });
    });

    rep.explore("builder-fontembedder", Explore::full(), |c: &mut Ctx| {
        use oxidize_pdf::fonts::{EmbeddingOptions, Font, FontEmbedder};
        // glyph id -> one character; a character belongs to one glyph, so strings are distinct
        const CH: [usize; 5] = [0, 1, 2, 3, 5];
        let m0 = choose_map(c, &CODES2, CH.len(), true);
        let m: Vec<(Vec<u8>, usize)> = m0.into_iter().map(|(k, s)| (k, CH[s])).collect();
        c.input(vx::h64(&m));
        if !m.is_empty() {
            c.nontrivial();
        }
        let mut font = Font::new("F");
        let mut used = String::new();
        for (code, s) in &m {
            let ch = STRINGS[*s].chars().next().unwrap();
            font.glyph_mapping.add_mapping(ch, be_value(code) as u16);
            used.push(ch);
        }
        let text = match vx::guard(|| {
            let mut fe = FontEmbedder::new(&font, EmbeddingOptions::default());
            fe.add_used_chars(&used);
            fe.create_to_unicode_cmap()
        }) {
            Ok(t) => t,
            Err(p) => {
                c.fail("C26/fontembedder-generator-panics", format!("{m:?}: {p}"));
                return;
            }
        };
        c.outcome(vx::hbytes(&text));
        let want: BTreeMap<Vec<u8>, String> = m.iter().map(|(k, s)| (k.clone(), STRINGS[*s].to_string())).collect();
        c.sample(json!({"generator": "FontEmbedder::create_to_unicode_cmap", "map": want.iter().map(|(k, v)| format!("<{}> -> {:?}", hex(k), v)).collect::<Vec<_>>()}));
        check_built(c, "fontembedder", &text, 2, &want, m.len() <= 1);
    });

    writer::run(rep);
    strings::run(rep);
}

/// The document writer's ToUnicode stream (`generate_tounicode_cmap_from_font`, private): a
/// document that shows a set of characters in an embedded TrueType font, written, the
/// ToUnicode stream of the Type0 font located with the reference file reader.
mod writer {
    use super::*;
    use oxidize_pdf::{Document, Font, Page};

    /// consecutive runs (bfrange candidates), a run across the 00FF/0100 byte boundary, singles
    const CHARS: [char; 8] = ['A', 'B', 'C', '\u{FE}', '\u{FF}', '\u{100}', '\u{101}', '\u{20AC}'];

    pub fn run(rep: &mut Report) {
        let font_path = vx::repo_root().join("test-pdfs/Roboto-Regular.ttf");
        let font_bytes = match std::fs::read(&font_path) {
            Ok(b) => b,
            Err(e) => {
                rep.machinery_error(format!("C26 writer section: cannot read {}: {e}", font_path.display()));
                return;
            }
        };
        rep.explore("writer", Explore::full(), |c: &mut Ctx| {
            let mut set: Vec<char> = Vec::new();
            for ch in CHARS {
                if set.len() == 4 {
                    break;
                }
                if c.flag("uses-char") {
                    set.push(ch);
                }
            }
            c.input(vx::h64(&set));
            if set.is_empty() {
                return;
            }
            c.nontrivial();
            let text: String = set.iter().collect();
            let bytes = vx::guard(|| -> Result<Vec<u8>, String> {
                let mut doc = Document::new();
                doc.add_font_from_bytes("Roboto", font_bytes.clone()).map_err(|e| format!("{e:?}"))?;
                let mut page = Page::a4();
                page.text().set_font(Font::Custom("Roboto".to_string()), 12.0).at(50.0, 700.0).write(&text).map_err(|e| format!("{e:?}"))?;
                doc.add_page(page);
                doc.to_bytes().map_err(|e| format!("{e:?}"))
            });
            let bytes = match bytes {
                Ok(Ok(b)) => b,
                other => {
                    c.fail("C26/writer-cannot-write-document", format!("{text:?}: {:?}", other.map(|r| r.map(|b| b.len()))));
                    return;
                }
            };
            let f = match refpdf::file::PdfFile::parse(&bytes) {
                Ok(f) => f,
                Err(e) => {
                    c.fail("C26/writer-file-unreadable-by-reference-reader", format!("{text:?}: {e}"));
                    return;
                }
            };
            let mut streams: Vec<Vec<u8>> = Vec::new();
            for n in f.live_objects() {
                let o = f.get(n);
                if let Some(tu) = o.as_dict().and_then(|d| d.get("ToUnicode")) {
                    if let Some(st) = f.resolve(tu).as_stream() {
                        if let Ok(d) = f.stream_data(st) {
                            streams.push(d);
                        }
                    }
                }
            }
            if streams.len() != 1 {
                c.fail("C26/writer-tounicode-stream-not-found", format!("{text:?}: {} ToUnicode streams", streams.len()));
                return;
            }
            let cmap_text = &streams[0];
            c.outcome(vx::hbytes(cmap_text));
            // Identity-H with CID = Unicode code point: code = UTF-16 unit of the character
            let want: BTreeMap<Vec<u8>, String> = set.iter().map(|ch| (be_bytes(*ch as u64, 2), ch.to_string())).collect();
            c.sample(json!({"generator": "PdfWriter (Type0 font ToUnicode)", "chars": set.iter().map(|ch| format!("U+{:04X}", *ch as u32)).collect::<Vec<_>>()}));
            // the writer is allowed to use bfrange; a range that relies on a carry out of the last
            // destination byte is reported under its own key by check_built ("output-ambiguous")
            check_built(c, "writer", cmap_text, 2, &want, set.len() <= 1);
        });
    }
}

/// String-level decoding through the text extractor (text/extraction_cmap.rs decode_with_cmap).
mod strings {
    use super::*;
    use oxidize_pdf::parser::{PdfDocument, PdfReader};
    use oxidize_pdf::text::TextExtractor;
    use refpdf::builder::{FileBuilder, Revision, XrefForm};
    use refpdf::syntax::Obj;
    use std::io::Cursor;

    /// (code, what the ToUnicode CMap maps it to). <0042> is inside the code space and unmapped;
    /// <4241> and <4100> are what a reader sees when it slips by one byte after <0042>.
    const CODES: [(&str, Option<&str>); 6] =
        [("0041", Some("A")), ("0042", None), ("4100", Some("X")), ("4241", Some("Y")), ("0100", Some("\u{1F600}")), ("00FF", Some("fi"))];
    const TOUNICODE: &str = "/CIDInit /ProcSet findresource begin\n12 dict begin\nbegincmap\n/CMapName /Adobe-Identity-UCS def\n/CMapType 2 def\n1 begincodespacerange\n<0000> <FFFF>\nendcodespacerange\n3 beginbfchar\n<0041> <0041>\n<4100> <0058>\n<4241> <0059>\nendbfchar\n1 beginbfrange\n<00FF> <0100> [<00660069> <D83DDE00>]\nendbfrange\nendcmap\nCMapName currentdict /CMap defineresource pop\nend\nend\n";

    fn build(hexstr: &str) -> Vec<u8> {
        let mut r = Revision::new(XrefForm::Table);
        r.add(1, Obj::dict(vec![("Type", Obj::name("Catalog")), ("Pages", Obj::Ref(2, 0))]));
        r.add(2, Obj::dict(vec![("Type", Obj::name("Pages")), ("Kids", Obj::Array(vec![Obj::Ref(3, 0)])), ("Count", Obj::Int(1))]));
        r.add(
            3,
            Obj::dict(vec![
                ("Type", Obj::name("Page")),
                ("Parent", Obj::Ref(2, 0)),
                ("MediaBox", Obj::Array(vec![Obj::Int(0), Obj::Int(0), Obj::Int(612), Obj::Int(792)])),
                ("Resources", Obj::dict(vec![("Font", Obj::dict(vec![("F1", Obj::Ref(5, 0))]))])),
                ("Contents", Obj::Ref(4, 0)),
            ]),
        );
        r.add(4, Obj::stream(vec![], format!("BT /F1 12 Tf 72 720 Td <{hexstr}> Tj ET").into_bytes()));
        r.add(
            5,
            Obj::dict(vec![
                ("Type", Obj::name("Font")),
                ("Subtype", Obj::name("Type0")),
                ("BaseFont", Obj::name("VerifSans")),
                ("Encoding", Obj::name("Identity-H")),
                ("DescendantFonts", Obj::Array(vec![Obj::Ref(6, 0)])),
                ("ToUnicode", Obj::Ref(8, 0)),
            ]),
        );
        r.add(
            6,
            Obj::dict(vec![
                ("Type", Obj::name("Font")),
                ("Subtype", Obj::name("CIDFontType2")),
                ("BaseFont", Obj::name("VerifSans")),
                ("CIDSystemInfo", Obj::dict(vec![("Registry", Obj::str(b"Adobe")), ("Ordering", Obj::str(b"Identity")), ("Supplement", Obj::Int(0))])),
                ("FontDescriptor", Obj::Ref(7, 0)),
                ("DW", Obj::Int(600)),
                ("CIDToGIDMap", Obj::name("Identity")),
            ]),
        );
        r.add(
            7,
            Obj::dict(vec![
                ("Type", Obj::name("FontDescriptor")),
                ("FontName", Obj::name("VerifSans")),
                ("Flags", Obj::Int(4)),
                ("FontBBox", Obj::Array(vec![Obj::Int(0), Obj::Int(-200), Obj::Int(1000), Obj::Int(900)])),
                ("ItalicAngle", Obj::Int(0)),
                ("Ascent", Obj::Int(900)),
                ("Descent", Obj::Int(-200)),
                ("CapHeight", Obj::Int(700)),
                ("StemV", Obj::Int(80)),
            ]),
        );
        r.add(8, Obj::stream(vec![], TOUNICODE.as_bytes().to_vec()));
        let mut fb = FileBuilder::new(1);
        fb.revisions.push(r);
        fb.build().bytes
    }

    pub fn run(rep: &mut Report) {
        // the crafted CMap must mean, to the reference interpreter, what CODES says
        let refm = rc::CMap::parse(TOUNICODE.as_bytes()).expect("crafted ToUnicode CMap");
        for (code, want) in CODES {
            let cands = refm.candidates(&h(code));
            let got: Option<String> = match cands.as_slice() {
                [] => None,
                [Value::Exact(d)] => rc::utf16be_to_string(d),
                other => panic!("{other:?}"),
            };
            assert_eq!(got.as_deref(), want, "reference reading of <{code}>");
            assert!(refm.in_codespace(&h(code)));
        }
        rep.explore("strings", Explore::full(), |c: &mut Ctx| {
            let n = 1 + c.choose("length", 3);
            let seq: Vec<usize> = (0..n).map(|_| c.choose("code", CODES.len())).collect();
            c.input(vx::h64(&seq));
            c.nontrivial();
            let hexstr: String = seq.iter().map(|&i| CODES[i].0).collect();
            let want: String = seq.iter().filter_map(|&i| CODES[i].1).collect();
            let bytes = build(&hexstr);
            let text = vx::guard(|| -> Result<String, String> {
                let doc = PdfReader::new(Cursor::new(bytes)).map(PdfDocument::new).map_err(|e| format!("open: {e}"))?;
                let mut ex = TextExtractor::new();
                ex.extract_from_page(&doc, 0).map(|t| t.text).map_err(|e| format!("extract: {e}"))
            });
            let text = match text {
                Ok(Ok(t)) => t,
                other => {
                    c.fail("C26/strings-extraction-fails", format!("<{hexstr}>: {other:?}"));
                    return;
                }
            };
            let got: String = text.chars().filter(|ch| !ch.is_whitespace() && *ch != '\u{FFFD}').collect();
            c.outcome(vx::h64(&got));
            c.sample(json!({"shown": format!("<{hexstr}>"), "codes": seq.iter().map(|&i| CODES[i].0).collect::<Vec<_>>(), "want": want, "extracted": text}));
            // An unmapped code may be rendered as anything (ISO 32000-1 9.10.2: "a conforming reader
            // may choose a character code of their choosing"), so with unmapped codes in the string
            // the mapped codes' strings must appear, in order, as a subsequence; without, exactly.
            let has_unmapped = seq.iter().any(|&i| CODES[i].1.is_none());
            let ok = if has_unmapped {
                let mut it = got.chars();
                want.chars().all(|w| it.any(|g| g == w))
            } else {
                got == want
            };
            if !ok {
                // signature of the known defect: at each position try 1..=4 bytes against the
                // explicit mappings; when nothing matches advance ONE BYTE (not one code)
                let bytes = h(&hexstr);
                let mut model = String::new();
                let mut i = 0;
                while i < bytes.len() {
                    let hit = (1..=4.min(bytes.len() - i)).find_map(|n| match refm.candidates(&bytes[i..i + n]).first() {
                        Some(Value::Exact(d)) => rc::utf16be_to_string(d).map(|t| (n, t)),
                        _ => None,
                    });
                    match hit {
                        Some((n, t)) => {
                            model.push_str(&t);
                            i += n;
                        }
                        None => i += 1,
                    }
                }
                let key = if has_unmapped && got == model { "C26/strings-unmapped-code-shifts-the-code-grid-by-one-byte" } else { "C26/strings-wrong-text" };
                c.fail(key, format!("shown <{hexstr}> with ToUnicode (A=<0041>, X=<4100>, Y=<4241>, <00FF>=fi, <0100>=U+1F600, <0042> unmapped): the mapped codes give {want:?}, extracted {text:?}"));
            }
        });
    }
}
