//! C11 — text extraction conserves every drawn character.
//!
//! Pages are hand-built with `refpdf::builder` (nothing of the library's writer is involved):
//! one page, a Helvetica/WinAnsi simple font `/F1`, a Type0 Identity-H font `/F2` whose only
//! Unicode information is a ToUnicode CMap (bfchar BMP, bfchar astral through surrogates,
//! bfchar multi-character destination, bfrange, bfrange with array), a form XObject `/Fm1`
//! that shows text and paints a nested form `/Fm2`. The page content is
//!
//!   BT /F1 12 Tf 1 0 0 1 72 700 Tm (Wm) Tj  <op 1> … <op n>  (Yn) Tj ET
//!
//! with every sequence of n <= 3 (quick) / 4 (thorough) operators from the vocabulary of the
//! property. Operators that may not appear inside a text object (q Q cm Do, §8.2 Figure 9) are
//! written as `ET op BT`, so every generated stream is valid; sequences that cannot be made
//! valid (Q without q, EMC without BDC, a marked-content sequence that would straddle a text
//! object boundary, §14.6) are skipped and counted. Open q / marked-content sequences are
//! closed at the end.
//!
//! Each page is opened with the library's `PdfReader`/`PdfDocument` and extracted with
//! `TextExtractor::extract_from_page` under: default options, every single flag flipped, every
//! pair of flags flipped (9 boolean switches: the 8 booleans of `ExtractionOptions` plus
//! `with_reading_order`).
//!
//! Oracle: multiset of non-white-space characters in `text` == multiset of non-white-space
//! characters shown, where text inside `/Artifact` is left out unless `include_artifacts`,
//! and the content of a `/Span` with `/ActualText` is replaced by that text (§14.9.4). Where
//! the standard leaves the answer open (a Span whose content is empty or only artifacts) both
//! answers are accepted. Extraction is repeated with a fresh extractor and must give the same
//! text. `-` is not in the alphabet (documented hyphen merging), Tr is 0..2.
use oxidize_pdf::parser::{PdfDocument, PdfReader};
use oxidize_pdf::text::{ExtractionOptions, TextExtractor};
use refpdf::builder::{FileBuilder, Revision, XrefForm};
use refpdf::syntax::Obj;
use serde_json::json;
use std::collections::BTreeMap;
use std::io::Cursor;
use vx::{Ctx, Explore, Report};

pub const BUILT: bool = true;

// ------------------------------------------------------------------ the crafted file

const TOUNICODE: &str = "/CIDInit /ProcSet findresource begin\n12 dict begin\nbegincmap\n/CIDSystemInfo << /Registry (Adobe) /Ordering (UCS) /Supplement 0 >> def\n/CMapName /Adobe-Identity-UCS def\n/CMapType 2 def\n1 begincodespacerange\n<0000> <FFFF>\nendcodespacerange\n4 beginbfchar\n<0001> <00E9>\n<0002> <4E2D>\n<0003> <D834DD1E>\n<0004> <006600660069>\nendbfchar\n2 beginbfrange\n<0010> <0012> <03B1>\n<0020> <0021> [<0416> <042F042F>]\nendbfrange\nendcmap\nCMapName currentdict /CMap defineresource pop\nend\nend\n";

/// what the ToUnicode CMap above says, per 2-byte code
fn f2_unicode(code: u16) -> &'static str {
    match code {
        1 => "\u{e9}",
        2 => "\u{4e2d}",
        3 => "\u{1d11e}",
        4 => "ffi",
        0x10 => "\u{3b1}",
        0x11 => "\u{3b2}",
        0x12 => "\u{3b3}",
        0x20 => "\u{416}",
        0x21 => "\u{42f}\u{42f}",
        _ => "",
    }
}

const FORM1_TEXT: &str = "Rs";
const FORM2_TEXT: &str = "Tu";
/// shown by Fm3 with ITS /F2 (the simple font); its /F1 run shows codes 0x10 0x11
const FORM3_SIMPLE: &str = "Vz";

fn build_pdf(content: &[u8]) -> Vec<u8> {
    let font_res = Obj::dict(vec![("F1", Obj::Ref(5, 0)), ("F2", Obj::Ref(6, 0))]);
    let mut r = Revision::new(XrefForm::Table);
    r.add(1, Obj::dict(vec![("Type", Obj::name("Catalog")), ("Pages", Obj::Ref(2, 0))]));
    r.add(2, Obj::dict(vec![("Type", Obj::name("Pages")), ("Kids", Obj::Array(vec![Obj::Ref(3, 0)])), ("Count", Obj::Int(1))]));
    r.add(
        3,
        Obj::dict(vec![
            ("Type", Obj::name("Page")),
            ("Parent", Obj::Ref(2, 0)),
            ("MediaBox", Obj::Array(vec![Obj::Int(0), Obj::Int(0), Obj::Int(612), Obj::Int(792)])),
            ("Resources", Obj::dict(vec![("Font", font_res.clone()), ("XObject", Obj::dict(vec![("Fm1", Obj::Ref(10, 0)), ("Fm3", Obj::Ref(12, 0))]))])),
            ("Contents", Obj::Ref(4, 0)),
        ]),
    );
    r.add(4, Obj::stream(vec![], content.to_vec()));
    r.add(5, Obj::dict(vec![("Type", Obj::name("Font")), ("Subtype", Obj::name("Type1")), ("BaseFont", Obj::name("Helvetica")), ("Encoding", Obj::name("WinAnsiEncoding"))]));
    r.add(
        6,
        Obj::dict(vec![
            ("Type", Obj::name("Font")),
            ("Subtype", Obj::name("Type0")),
            ("BaseFont", Obj::name("VerifSans")),
            ("Encoding", Obj::name("Identity-H")),
            ("DescendantFonts", Obj::Array(vec![Obj::Ref(7, 0)])),
            ("ToUnicode", Obj::Ref(9, 0)),
        ]),
    );
    r.add(
        7,
        Obj::dict(vec![
            ("Type", Obj::name("Font")),
            ("Subtype", Obj::name("CIDFontType2")),
            ("BaseFont", Obj::name("VerifSans")),
            ("CIDSystemInfo", Obj::dict(vec![("Registry", Obj::str(b"Adobe")), ("Ordering", Obj::str(b"Identity")), ("Supplement", Obj::Int(0))])),
            ("FontDescriptor", Obj::Ref(8, 0)),
            ("DW", Obj::Int(600)),
            ("CIDToGIDMap", Obj::name("Identity")),
        ]),
    );
    r.add(
        8,
        Obj::dict(vec![
            ("Type", Obj::name("FontDescriptor")),
            ("FontName", Obj::name("VerifSans")),
            ("Flags", Obj::Int(4)),
            ("FontBBox", Obj::Array(vec![Obj::Int(0), Obj::Int(-200), Obj::Int(1000), Obj::Int(900)])),
            ("ItalicAngle", Obj::Int(0)),
            ("Ascent", Obj::Int(900)),
            ("Descent", Obj::Int(-200)),
            ("CapHeight", Obj::Int(700)),
            ("StemV", Obj::Int(80)),
        ]),
    );
    r.add(9, Obj::stream(vec![], TOUNICODE.as_bytes().to_vec()));
    let bbox = Obj::Array(vec![Obj::Int(0), Obj::Int(0), Obj::Int(612), Obj::Int(792)]);
    r.add(
        10,
        Obj::stream(
            vec![
                ("Type", Obj::name("XObject")),
                ("Subtype", Obj::name("Form")),
                ("BBox", bbox.clone()),
                ("Resources", Obj::dict(vec![("Font", font_res.clone()), ("XObject", Obj::dict(vec![("Fm2", Obj::Ref(11, 0))]))])),
            ],
            format!("BT /F1 12 Tf 1 0 0 1 300 500 Tm ({FORM1_TEXT}) Tj ET\n/Fm2 Do\n").into_bytes(),
        ),
    );
    r.add(
        11,
        Obj::stream(
            vec![("Type", Obj::name("XObject")), ("Subtype", Obj::name("Form")), ("BBox", bbox), ("Resources", Obj::dict(vec![("Font", font_res)]))],
            format!("BT /F1 10 Tf 1 0 0 1 300 480 Tm ({FORM2_TEXT}) Tj ET\n").into_bytes(),
        ),
    );
    // Fm3: its own /Resources bind the page's font NAMES to the other fonts (/F1 -> the Type0
    // font, /F2 -> the simple font). Resource names are scoped to the content stream that owns
    // the resource dictionary (ISO 32000-1 7.8.3), so the page's /F1 is unaffected by it.
    r.add(
        12,
        Obj::stream(
            vec![
                ("Type", Obj::name("XObject")),
                ("Subtype", Obj::name("Form")),
                ("BBox", Obj::Array(vec![Obj::Int(0), Obj::Int(0), Obj::Int(612), Obj::Int(792)])),
                ("Resources", Obj::dict(vec![("Font", Obj::dict(vec![("F1", Obj::Ref(6, 0)), ("F2", Obj::Ref(5, 0))]))])),
            ],
            format!("BT /F1 9 Tf 1 0 0 1 300 400 Tm <00100011> Tj /F2 10 Tf ({FORM3_SIMPLE}) Tj ET\n").into_bytes(),
        ),
    );
    let mut fb = FileBuilder::new(1);
    fb.revisions.push(r);
    fb.build().bytes
}

// ------------------------------------------------------------------ operator vocabulary

#[derive(Clone, Copy, Debug, PartialEq)]
enum O {
    Tj,
    /// Tj of the same string as the page's first run (exact overprint when positioned on it)
    TjDup,
    TJ(i32),
    Quote,
    DQuote,
    Td(f64, f64),
    TD(f64, f64),
    Tm(u8),
    TStar,
    Tc(f64),
    Tw(f64),
    Tz(f64),
    TL(f64),
    Ts(f64),
    Tr(u8),
    Tf(u8),
    Cm(u8),
    Save,
    Restore,
    Do,
    /// paints Fm3, whose private resources rebind /F1 and /F2 to the other fonts
    DoRebind,
    Artifact { page_level: bool },
    Span { page_level: bool },
    Emc,
}

fn vocab() -> Vec<O> {
    vec![
        O::Tj,
        O::TjDup,
        O::TJ(-50),   // tight kern
        O::TJ(-500),  // wide forward gap (a word space)
        O::TJ(1500),  // backwards: second piece overlaps the first
        O::Quote,
        O::DQuote,
        O::Td(0.0, 0.0),      // back to the line start: overlapping
        O::Td(22.0, 0.0),     // adjacent on the same line
        O::Td(0.0, -14.0),    // next line
        O::Td(300.0, -400.0), // far apart
        O::TD(0.0, -14.0),
        O::TD(22.0, 0.0),
        O::Tm(0),
        O::Tm(1),
        O::Tm(2),
        O::Tm(3),
        O::TStar,
        O::Tc(5.0),
        O::Tw(10.0),
        O::Tz(50.0),
        O::Tz(200.0),
        O::TL(14.0),
        O::Ts(5.0),
        O::Tr(0),
        O::Tr(1),
        O::Tr(2),
        O::Tf(0),
        O::Tf(1),
        O::Cm(0),
        O::Cm(1),
        O::Cm(2),
        O::Save,
        O::Restore,
        O::Do,
        O::DoRebind,
        O::Artifact { page_level: false },
        O::Artifact { page_level: true },
        O::Span { page_level: false },
        O::Span { page_level: true },
        O::Emc,
    ]
}

const TM: [&str; 4] = [
    "1 0 0 1 72 650 Tm",    // identity, a new line further down
    "0 1 -1 0 300 300 Tm",  // rotated 90 degrees
    "-1 0 0 1 500 600 Tm",  // mirrored
    "1 0 0 1 93.3 700 Tm",  // identity, adjacent to the first run on its baseline
];
const CM: [&str; 3] = ["1 0 0 1 10 -20 cm", "2 0 0 2 0 0 cm", "0 1 -1 0 400 100 cm"];
const F1_STRINGS: [&str; 6] = ["Ab", "Cd", "Ef", "Gh", "Ij", "Kl"];
const F2_CODES: [[u16; 2]; 4] = [[1, 2], [3, 4], [0x10, 0x11], [0x20, 0x21]];
const SPAN_TEXT: [&str; 5] = ["Jq", "Kx", "Lz", "Pv", "Bg"];
const HEAD: &str = "Wm";
const TAIL: &str = "Yn";

#[derive(Clone, Copy, Debug, PartialEq)]
enum McKind {
    Artifact,
    Span(usize),
}
#[derive(Clone, Copy, Debug)]
struct Mc {
    kind: McKind,
    /// text object it was opened in; None = opened between text objects
    text_id: Option<u32>,
}

#[derive(Clone, Debug)]
struct Run {
    chars: String,
    ctx: Vec<McKind>,
}

/// marked-content structure of the page in stream order (form text appears where Do paints it)
#[derive(Clone, Debug)]
enum Ev {
    Open(McKind),
    Close,
    Run(String),
}

struct Gen {
    out: Vec<u8>,
    text_id: u32,
    font: u8,
    font_stack: Vec<u8>,
    mc: Vec<Mc>,
    show_idx: usize,
    span_idx: usize,
    runs: Vec<Run>,
    /// every span opened, with the context it was opened in
    spans: Vec<(usize, Vec<McKind>)>,
    events: Vec<Ev>,
}

impl Gen {
    fn ctx(&self) -> Vec<McKind> {
        self.mc.iter().map(|m| m.kind).collect()
    }
    fn w(&mut self, s: &str) {
        self.out.extend_from_slice(s.as_bytes());
        self.out.push(b'\n');
    }
    fn run(&mut self, chars: &str) {
        let ctx = self.ctx();
        self.runs.push(Run { chars: chars.to_string(), ctx });
        self.events.push(Ev::Run(chars.to_string()));
    }
    /// leave the text object for an operator that is not allowed inside one
    fn leave_text(&mut self) -> Result<(), &'static str> {
        if self.mc.iter().any(|m| m.text_id == Some(self.text_id)) {
            return Err("marked-content sequence would straddle a text object boundary");
        }
        self.w("ET");
        Ok(())
    }
    fn enter_text(&mut self) {
        self.text_id += 1;
        self.w("BT");
    }
    /// (string token, characters) of the next shown string under the current font
    fn next_string(&mut self) -> (Vec<String>, Vec<String>) {
        let k = self.show_idx;
        self.show_idx += 1;
        if self.font == 0 {
            let s = F1_STRINGS[k % F1_STRINGS.len()];
            (s.chars().map(|c| format!("({c})")).collect(), s.chars().map(|c| c.to_string()).collect())
        } else {
            let codes = F2_CODES[k % F2_CODES.len()];
            (codes.iter().map(|c| format!("<{c:04X}>")).collect(), codes.iter().map(|c| f2_unicode(*c).to_string()).collect())
        }
    }
    fn whole(parts: &[String]) -> String {
        // join "(A)" "(b)" -> "(Ab)", "<0001>" "<0002>" -> "<00010002>"
        let open = &parts[0][..1];
        let close = if open == "(" { ")" } else { ">" };
        let inner: String = parts.iter().map(|p| &p[1..p.len() - 1]).collect();
        format!("{open}{inner}{close}")
    }

    fn op(&mut self, o: O) -> Result<(), &'static str> {
        match o {
            O::Tj => {
                let (tok, chars) = self.next_string();
                let t = Self::whole(&tok);
                self.w(&format!("{t} Tj"));
                self.run(&chars.concat());
            }
            O::TjDup => {
                if self.font == 0 {
                    self.w(&format!("({HEAD}) Tj"));
                    self.run(HEAD);
                } else {
                    self.w("<00010002> Tj");
                    self.run(&format!("{}{}", f2_unicode(1), f2_unicode(2)));
                }
            }
            O::TJ(k) => {
                let (tok, chars) = self.next_string();
                self.w(&format!("[{} {k} {}] TJ", tok[0], tok[1]));
                self.run(&chars.concat());
            }
            O::Quote => {
                let (tok, chars) = self.next_string();
                let t = Self::whole(&tok);
                self.w(&format!("{t} '"));
                self.run(&chars.concat());
            }
            O::DQuote => {
                let (tok, chars) = self.next_string();
                let t = Self::whole(&tok);
                self.w(&format!("1 0.5 {t} \""));
                self.run(&chars.concat());
            }
            O::Td(x, y) => self.w(&format!("{x} {y} Td")),
            O::TD(x, y) => self.w(&format!("{x} {y} TD")),
            O::Tm(i) => self.w(TM[i as usize]),
            O::TStar => self.w("T*"),
            O::Tc(v) => self.w(&format!("{v} Tc")),
            O::Tw(v) => self.w(&format!("{v} Tw")),
            O::Tz(v) => self.w(&format!("{v} Tz")),
            O::TL(v) => self.w(&format!("{v} TL")),
            O::Ts(v) => self.w(&format!("{v} Ts")),
            O::Tr(v) => self.w(&format!("{v} Tr")),
            O::Tf(f) => {
                self.font = f;
                self.w(if f == 0 { "/F1 12 Tf" } else { "/F2 9 Tf" });
            }
            O::Cm(i) => {
                self.leave_text()?;
                self.w(CM[i as usize]);
                self.enter_text();
            }
            O::Save => {
                self.leave_text()?;
                self.w("q");
                self.font_stack.push(self.font);
                self.enter_text();
            }
            O::Restore => {
                let Some(f) = self.font_stack.pop() else { return Err("Q without q") };
                self.leave_text()?;
                self.w("Q");
                self.font = f; // the font is part of the graphics state (§8.4.1, Table 52)
                self.enter_text();
            }
            O::Do => {
                self.leave_text()?;
                self.w("/Fm1 Do");
                // the forms set their own font inside the implicit q/Q of Do
                self.run(FORM1_TEXT);
                self.run(FORM2_TEXT);
                self.enter_text();
            }
            O::DoRebind => {
                self.leave_text()?;
                self.w("/Fm3 Do");
                self.run(&format!("{}{}", f2_unicode(0x10), f2_unicode(0x11)));
                self.run(FORM3_SIMPLE);
                self.enter_text();
            }
            O::Artifact { page_level } => {
                if page_level {
                    self.leave_text()?;
                    self.w("/Artifact <</Type /Pagination>> BDC");
                    self.mc.push(Mc { kind: McKind::Artifact, text_id: None });
                    self.events.push(Ev::Open(McKind::Artifact));
                    self.enter_text();
                } else {
                    self.w("/Artifact <</Type /Pagination>> BDC");
                    self.mc.push(Mc { kind: McKind::Artifact, text_id: Some(self.text_id) });
                    self.events.push(Ev::Open(McKind::Artifact));
                }
            }
            O::Span { page_level } => {
                let idx = self.span_idx;
                self.span_idx += 1;
                let ctx = self.ctx();
                self.spans.push((idx, ctx));
                let bdc = format!("/Span <</ActualText ({})>> BDC", SPAN_TEXT[idx % SPAN_TEXT.len()]);
                if page_level {
                    self.leave_text()?;
                    self.w(&bdc);
                    self.mc.push(Mc { kind: McKind::Span(idx), text_id: None });
                    self.events.push(Ev::Open(McKind::Span(idx)));
                    self.enter_text();
                } else {
                    self.w(&bdc);
                    self.mc.push(Mc { kind: McKind::Span(idx), text_id: Some(self.text_id) });
                    self.events.push(Ev::Open(McKind::Span(idx)));
                }
            }
            O::Emc => {
                let Some(top) = self.mc.last().copied() else { return Err("EMC without BDC") };
                if top.text_id.is_none() {
                    self.leave_text()?;
                    self.w("EMC");
                    self.mc.pop();
                    self.events.push(Ev::Close);
                    self.enter_text();
                } else {
                    // opened in this text object (an inline sequence never survives its text object)
                    self.w("EMC");
                    self.mc.pop();
                    self.events.push(Ev::Close);
                }
            }
        }
        Ok(())
    }
}

struct Page {
    content: Vec<u8>,
    runs: Vec<Run>,
    spans: Vec<(usize, Vec<McKind>)>,
    events: Vec<Ev>,
}

fn generate(ops: &[O]) -> Result<Page, &'static str> {
    let mut g = Gen { out: Vec::new(), text_id: 0, font: 0, font_stack: Vec::new(), mc: Vec::new(), show_idx: 0, span_idx: 0, runs: Vec::new(), spans: Vec::new(), events: Vec::new() };
    g.w("BT");
    g.w("/F1 12 Tf");
    g.w("1 0 0 1 72 700 Tm");
    g.w(&format!("({HEAD}) Tj"));
    g.run(HEAD);
    for o in ops {
        g.op(*o)?;
    }
    // the closing run, in whatever font is current
    if g.font == 0 {
        g.w(&format!("({TAIL}) Tj"));
        g.run(TAIL);
    } else {
        g.w("<00120003> Tj");
        g.run(&format!("{}{}", f2_unicode(0x12), f2_unicode(3)));
    }
    // close what is open: inline sequences, the text object, page-level sequences, q
    while g.mc.last().map(|m| m.text_id.is_some()).unwrap_or(false) {
        g.w("EMC");
        g.mc.pop();
        g.events.push(Ev::Close);
    }
    g.w("ET");
    while g.mc.pop().is_some() {
        g.w("EMC");
        g.events.push(Ev::Close);
    }
    for _ in 0..g.font_stack.len() {
        g.w("Q");
    }
    Ok(Page { content: g.out, runs: g.runs, spans: g.spans, events: g.events })
}

// ------------------------------------------------------------------ expected multisets

type Bag = BTreeMap<char, i64>;

fn bag_of(s: &str) -> Bag {
    let mut b = Bag::new();
    for ch in s.chars().filter(|c| !c.is_whitespace()) {
        *b.entry(ch).or_insert(0) += 1;
    }
    b
}
fn bag_add(a: &mut Bag, b: &Bag) {
    for (k, v) in b {
        *a.entry(*k).or_insert(0) += v;
    }
}
fn bag_diff(got: &Bag, want: &Bag) -> (String, String) {
    let mut missing = String::new();
    let mut extra = String::new();
    let keys: std::collections::BTreeSet<char> = got.keys().chain(want.keys()).copied().collect();
    for k in keys {
        let d = got.get(&k).copied().unwrap_or(0) - want.get(&k).copied().unwrap_or(0);
        for _ in 0..d.abs().min(6) {
            if d < 0 {
                missing.push(k)
            } else {
                extra.push(k)
            }
        }
    }
    (missing, extra)
}

/// (characters that must be there, optional groups where the standard leaves it open)
fn expected(page: &Page, include_artifacts: bool) -> (Bag, Vec<Bag>) {
    let mut base = Bag::new();
    let mut optional = Vec::new();
    let outermost_span = |ctx: &[McKind]| ctx.iter().position(|k| matches!(k, McKind::Span(_)));
    for r in &page.runs {
        match outermost_span(&r.ctx) {
            Some(_) => {} // replaced by the span's ActualText, accounted for below
            None => {
                if include_artifacts || !r.ctx.contains(&McKind::Artifact) {
                    bag_add(&mut base, &bag_of(&r.chars));
                }
            }
        }
    }
    for (idx, ctx) in &page.spans {
        if outermost_span(ctx).is_some() {
            continue; // nested in another ActualText span: the outer replacement covers it
        }
        if ctx.contains(&McKind::Artifact) && !include_artifacts {
            continue; // the whole span is inside an artifact
        }
        let text = bag_of(SPAN_TEXT[idx % SPAN_TEXT.len()]);
        // runs replaced by this span, split by whether an artifact lies between span and run
        let mut real = 0;
        let mut artifact_only = 0;
        for r in &page.runs {
            if let Some(p) = r.ctx.iter().position(|k| *k == McKind::Span(*idx)) {
                if outermost_span(&r.ctx) == Some(p) {
                    if r.ctx[p..].contains(&McKind::Artifact) && !include_artifacts {
                        artifact_only += 1;
                    } else {
                        real += 1;
                    }
                }
            }
        }
        let _ = artifact_only;
        if real > 0 {
            bag_add(&mut base, &text);
        } else {
            // empty span, or a span containing nothing but artifacts: whether its replacement
            // text belongs to the page text is not defined — both answers are accepted
            optional.push(text);
        }
    }
    (base, optional)
}

/// Signature of known finding KF-C11-1 — NOT part of the oracle. The extractor keeps a single
/// pending ActualText slot: a nested Span with ActualText overwrites the enclosing one, so the
/// enclosing replacement text is never produced, runs shown before the inner Span are lost, and
/// runs shown after the inner EMC (still inside the outer Span) come out as ordinary text.
fn nested_actualtext_defect_bag(page: &Page, include_artifacts: bool) -> Bag {
    let mut bag = Bag::new();
    let mut stack: Vec<McKind> = Vec::new();
    // (span index, stack depth before its push, populated)
    let mut pending: Option<(usize, usize, bool)> = None;
    for ev in &page.events {
        match ev {
            Ev::Open(k) => {
                if let McKind::Span(i) = k {
                    pending = Some((*i, stack.len(), false));
                }
                stack.push(*k);
            }
            Ev::Run(chars) => {
                let in_artifact = stack.contains(&McKind::Artifact);
                if in_artifact && !include_artifacts {
                    continue;
                }
                match pending.as_mut() {
                    Some(p) => p.2 = true,
                    None => bag_add(&mut bag, &bag_of(chars)),
                }
            }
            Ev::Close => {
                let depth = stack.len();
                stack.pop();
                if let Some((i, d, populated)) = pending {
                    if d + 1 == depth {
                        pending = None;
                        let in_artifact = stack.contains(&McKind::Artifact);
                        if populated && (!in_artifact || include_artifacts) {
                            bag_add(&mut bag, &bag_of(SPAN_TEXT[i % SPAN_TEXT.len()]));
                        }
                    }
                }
            }
        }
    }
    bag
}

fn acceptable(got: &Bag, base: &Bag, optional: &[Bag]) -> bool {
    let n = optional.len().min(10);
    for mask in 0u32..(1 << n) {
        let mut want = base.clone();
        for (i, o) in optional.iter().enumerate().take(n) {
            if mask & (1 << i) != 0 {
                bag_add(&mut want, o);
            }
        }
        want.retain(|_, v| *v != 0);
        let mut g = got.clone();
        g.retain(|_, v| *v != 0);
        if g == want {
            return true;
        }
    }
    false
}

// ------------------------------------------------------------------ options

const FLAGS: [&str; 9] = ["preserve_layout", "sort_by_position=false", "detect_columns", "merge_hyphenated=false", "track_space_decisions", "reconstruct_paragraphs", "include_artifacts", "reorder_columns", "reading_order"];

fn options(mask: u32) -> (ExtractionOptions, bool) {
    let mut o = ExtractionOptions::default();
    let on = |i: u32| mask & (1 << i) != 0;
    if on(0) {
        o.preserve_layout = true;
    }
    if on(1) {
        o.sort_by_position = false;
    }
    if on(2) {
        o.detect_columns = true;
    }
    if on(3) {
        o.merge_hyphenated = false;
    }
    if on(4) {
        o.track_space_decisions = true;
    }
    if on(5) {
        o.reconstruct_paragraphs = true;
    }
    if on(6) {
        o.include_artifacts = true;
    }
    if on(7) {
        o.reorder_columns = true;
    }
    (o, on(8))
}
fn flag_names(mask: u32) -> String {
    let v: Vec<&str> = (0..9).filter(|i| mask & (1 << i) != 0).map(|i| FLAGS[i as usize]).collect();
    if v.is_empty() {
        "defaults".into()
    } else {
        v.join("+")
    }
}
/// defaults, every single flag, every pair (46 combinations)
fn masks(max_flips: u32) -> Vec<u32> {
    let mut v = vec![0u32];
    if max_flips >= 1 {
        for i in 0..9 {
            v.push(1 << i);
        }
    }
    if max_flips >= 2 {
        for i in 0..9 {
            for j in i + 1..9 {
                v.push((1 << i) | (1 << j));
            }
        }
    }
    v
}

fn extract(doc: &PdfDocument<Cursor<Vec<u8>>>, mask: u32) -> Result<String, String> {
    let (o, ro) = options(mask);
    let r = vx::guard(|| {
        let mut ex = TextExtractor::with_options(o).with_reading_order(ro);
        ex.extract_from_page(doc, 0).map(|t| t.text).map_err(|e| e.to_string())
    });
    match r {
        Ok(x) => x,
        Err(p) => Err(format!("panic: {p}")),
    }
}

// ------------------------------------------------------------------ one page through every option set

fn features(ops: &[O], page: &Page) -> String {
    let mut f = Vec::new();
    if !page.spans.is_empty() {
        f.push("actualtext");
    }
    if ops.iter().any(|o| matches!(o, O::Artifact { .. })) {
        f.push("artifact");
    }
    if ops.iter().any(|o| matches!(o, O::DoRebind)) {
        f.push("form-rebinding-font-names");
    }
    if ops.iter().any(|o| matches!(o, O::Do)) {
        f.push("form");
    }
    if ops.iter().any(|o| matches!(o, O::Tf(1))) {
        f.push("type0");
    }
    f.join("+")
}

fn check_page(c: &mut Ctx, ops: &[O], masks: &[u32]) {
    c.input(vx::h64(&format!("{ops:?}")));
    let page = match generate(ops) {
        Ok(p) => p,
        Err(why) => {
            c.outcome(vx::h64(&("invalid", why)));
            return;
        }
    };
    c.nontrivial();
    let bytes = build_pdf(&page.content);
    let doc = match vx::guard(|| PdfReader::new(Cursor::new(bytes)).map(PdfDocument::new).map_err(|e| e.to_string())) {
        Ok(Ok(d)) => d,
        Ok(Err(e)) => {
            c.fail("C11/MACHINERY-crafted-file-does-not-open", format!("ops={ops:?}: {e}"));
            return;
        }
        Err(p) => {
            c.fail("C11/reader-panics-on-crafted-file", format!("ops={ops:?}: {p}"));
            return;
        }
    };
    let mut classes: Vec<(u32, u8)> = Vec::new();
    let feat = features(ops, &page);
    let mut default_text = String::new();
    for &mask in masks {
        let include_artifacts = mask & (1 << 6) != 0;
        let (base, optional) = expected(&page, include_artifacts);
        let text = match extract(&doc, mask) {
            Ok(t) => t,
            Err(e) => {
                let key = if e.starts_with("panic") { format!("C11/extraction-panics@{}", vx::panic_site(&e)) } else { "C11/extraction-returns-error".to_string() };
                c.fail(key, format!("ops={ops:?} options={}: {e}; content={}", flag_names(mask), vx::show_bytes(&page.content, 300)));
                classes.push((mask, 9));
                continue;
            }
        };
        if mask == 0 {
            default_text = text.clone();
        }
        let got = bag_of(&text);
        if !acceptable(&got, &base, &optional) {
            let (missing, extra) = bag_diff(&got, &base);
            let kind = match (missing.is_empty(), extra.is_empty()) {
                (false, true) => "lost",
                (true, false) => "extra",
                _ => "lost-and-extra",
            };
            // the layout family an option set belongs to: flat, fragment-based
            let path = if mask & 1 != 0 {
                "preserve_layout"
            } else if mask & (1 << 7) != 0 {
                "reorder_columns"
            } else if mask & (1 << 8) != 0 {
                "reading_order"
            } else {
                "flat"
            };
            let nested_spans = page.spans.iter().any(|(_, ctx)| ctx.iter().any(|k| matches!(k, McKind::Span(_))));
            let key = if nested_spans && got == nested_actualtext_defect_bag(&page, include_artifacts) {
                "C11/nested-actualtext-inner-span-discards-outer-replacement".to_string()
            } else {
                format!("C11/characters-{kind}[{path}][{feat}]")
            };
            c.fail(
                key,
                format!("ops={ops:?} options={}: missing={missing:?} extra={extra:?} text={text:?} content={}", flag_names(mask), vx::show_bytes(&page.content, 400)),
            );
            classes.push((mask, 1));
        } else {
            classes.push((mask, 0));
        }
        // determinism: a fresh extractor gives the same text
        if mask == 0 || mask.count_ones() == 1 {
            match extract(&doc, mask) {
                Ok(t2) if t2 == text => {}
                other => c.fail("C11/extraction-not-deterministic", format!("ops={ops:?} options={}: first={text:?} second={other:?}", flag_names(mask))),
            }
        }
    }
    c.add_evaluations(masks.len() as u64 - 1);
    c.outcome(vx::h64(&(bag_of(&default_text), classes.iter().filter(|x| x.1 != 0).count())));
    if c.want_sample() {
        c.sample(json!({"ops": format!("{ops:?}"), "content": String::from_utf8_lossy(&page.content), "default_text": default_text, "option_sets": masks.len()}));
    }
}

pub fn run(rep: &mut Report) {
    let thorough = rep.tier.is_thorough();
    rep.rule(
        "a case = one operator sequence (every sequence over the 41-entry vocabulary up to the tier's length) placed between a leading and a closing run, \
         extracted under every option set (defaults, each of 9 switches flipped, each pair; evaluations count option sets); \
         non-trivial = the sequence yields a valid content stream (always >= 2 shown runs); distinct input = distinct sequence",
    );
    rep.assume("refpdf::builder writes the crafted file (validated at start with refpdf::file::validate); the expected characters come from the generator, which knows every string it wrote and the ToUnicode CMap it wrote");
    rep.assume("ActualText replaces the whole content of its marked-content sequence (ISO 32000-1 14.9.4), the outermost one wins; /Artifact content is omitted unless include_artifacts (option's documentation)");
    rep.assume("a Span with ActualText whose content is empty or consists only of artifacts may or may not contribute its text (not defined) — both accepted");

    // machinery: the crafted file is valid and refpdf reads back the content it was given
    let probe = generate(&[O::Span { page_level: true }, O::Tf(1), O::Do]).expect("probe sequence is valid");
    let bytes = build_pdf(&probe.content);
    let issues = refpdf::file::validate(&bytes);
    if !issues.is_empty() {
        rep.machinery_error(format!("crafted file fails refpdf's strict validator: {issues:?}"));
    }
    match refpdf::content::parse_content_strict(&probe.content) {
        Ok((_, iss)) if iss.is_empty() => {}
        other => rep.machinery_error(format!("crafted content stream is not valid: {other:?}")),
    }

    let voc = vocab();
    rep.note("vocabulary_size", json!(voc.len()));
    let all_masks = masks(2);
    rep.note("option_sets", json!(all_masks.len()));

    // ---- seq: sequences of <= 3 operators x all 46 option sets
    {
        let voc = voc.clone();
        let m = all_masks.clone();
        rep.explore("seq3", Explore::full(), move |c: &mut Ctx| {
            let len = c.choose("len", 4);
            let mut ops = Vec::with_capacity(len);
            for _ in 0..len {
                ops.push(voc[c.choose("op", voc.len())]);
            }
            check_page(c, &ops, &m);
        });
    }
    // ---- seq4 (thorough): sequences of exactly 4 operators x defaults and every single flag
    if thorough {
        let voc = voc.clone();
        let m = masks(1);
        rep.explore("seq4", Explore::full(), move |c: &mut Ctx| {
            let mut ops = Vec::with_capacity(4);
            for _ in 0..4 {
                ops.push(voc[c.choose("op", voc.len())]);
            }
            check_page(c, &ops, &m);
        });
    }
}
