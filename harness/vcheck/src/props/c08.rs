//! C08 — bounded decoding respects its limit and agrees with full decoding.
//!
//! Entry points: `PdfStream::decode_with_limit(&opts, limit)` against `PdfStream::decode(&opts)`.
//! Oracle (no more than the property says):
//!  1. a bounded decode never panics (the harness is built with overflow checks on);
//!  2. a bounded decode returns `Err` or at most `limit` bytes;
//!  3. for a reference-encoded (well-formed) stream whose every decoding stage fits in the
//!     limit, the bounded result is `Ok` and equals the unbounded result. When only the final
//!     output fits but an intermediate stage (the input of a later filter, or the rows before
//!     a predictor is undone) does not, both `Err` and the full result are accepted — the
//!     property does not say which — and such cells are counted (`intermediate-only` class);
//!  4. an unbounded decode never returns more than the documented ceiling
//!     (`MAX_DECOMPRESSED_SIZE` = 256 MiB in parser/filters.rs).
//!
//! Sections
//!  * `limits`            filter × encoder variant × reference-encoded data × limit ∈ {0,1,n-1,n,n+1,2n,MAX}
//!  * `limits-chains`     all 36 two-filter chains × data × the same limits (+ around the largest stage)
//!  * `limits-predictors` Flate/LZW × Predictor {2,10..15} × Colors × BitsPerComponent × Columns × rows × limits
//!  * `garbage`           ALL byte strings of length ≤4 (ASCII85: ≤5; LZW: ≤5 in thorough) over a 12-byte alphabet
//!                        chosen per filter, as raw encoded input × limits around the decoded size
//!  * `predictor-params`  valid carrier, arbitrary pre-predictor rows × hostile /Predictor /Colors
//!                        /BitsPerComponent /Columns values × limits
//!  * `bombs` (thorough)  one decompression bomb (300 MiB) per expanding filter
use crate::util::filt::*;
use refpdf::filters as rf;
use serde_json::json;
use vx::{Ctx, Explore, Report};

pub const BUILT: bool = true;

/// `MAX_DECOMPRESSED_SIZE` as documented in oxidize-pdf-core/src/parser/filters.rs ("256 MB").
const CEILING: usize = 256 * 1024 * 1024;

const ALPHA: [u8; 10] = [0x00, 0x01, 0x7F, 0x80, 0xFF, b'A', b'~', b'>', b'z', b'T'];

fn all_strings(alpha: &[u8], max_len: usize) -> Vec<Vec<u8>> {
    let mut out: Vec<Vec<u8>> = vec![vec![]];
    let mut start = 0;
    for _ in 0..max_len {
        let end = out.len();
        for i in start..end {
            for &a in alpha {
                let mut s = out[i].clone();
                s.push(a);
                out.push(s);
            }
        }
        start = end;
    }
    out
}

fn limit_menu(sizes: &[usize]) -> Vec<usize> {
    let mut v = vec![0usize, 1, usize::MAX];
    for &n in sizes {
        v.extend([n.saturating_sub(1), n, n + 1, 2 * n]);
    }
    v.sort_unstable();
    v.dedup();
    v
}

fn show_limit(l: usize) -> String {
    if l == usize::MAX { "usize::MAX".into() } else { l.to_string() }
}

// ---------------------------------------------------------------- known-defect signatures

/// True when, reading `raw` as ASCII85 the way §7.4.3 describes (white space skipped, `z`
/// between groups, `~>` ends the data, a final partial group padded with `u`), some 5-digit
/// group reached before the first invalid character has a value above 2^32-1. `drop_second`:
/// tokenise as the library's `<`-prefix defect does (KF-C07-2: second character lost).
fn a85_group_overflows_with(raw: &[u8], drop_second: bool) -> bool {
    let mut s: Vec<u8> = raw.iter().copied().filter(|b| !matches!(b, 9 | 10 | 12 | 13 | 32)).collect();
    if s.len() >= 2 && s[0] == b'<' {
        if s[1] == b'~' {
            s.drain(..2);
        } else if drop_second {
            s.remove(1);
        }
    }
    let over = |g: &[u8]| -> bool {
        let mut d = [84u64; 5];
        for (i, &c) in g.iter().enumerate() {
            d[i] = (c - b'!') as u64;
        }
        d.iter().fold(0u64, |a, &x| a * 85 + x) > u32::MAX as u64
    };
    let mut g: Vec<u8> = Vec::new();
    let mut i = 0;
    while i < s.len() {
        let c = s[i];
        match c {
            b'~' => {
                if s.get(i + 1) != Some(&b'>') {
                    return false; // malformed end marker: rejected before the partial group is looked at
                }
                break;
            }
            b'z' if g.is_empty() => {}
            b'!'..=b'u' => {
                g.push(c);
                if g.len() == 5 {
                    if over(&g) {
                        return true;
                    }
                    g.clear();
                }
            }
            _ => return false,
        }
        i += 1;
    }
    !g.is_empty() && over(&g)
}
fn a85_group_overflows(raw: &[u8]) -> bool {
    a85_group_overflows_with(raw, false) || a85_group_overflows_with(raw, true)
}

/// Key of a panic in a bounded decode. Two defects are known by their exact signature; every
/// other panic keeps a generic key with the panic site.
fn panic_key(first: F, raw: &[u8], parms: &[(&'static str, i64)], msg: &str) -> String {
    let overflow = msg.contains("overflow");
    if overflow && first == F::A85 && a85_group_overflows(raw) {
        // KF-C08-1
        return "C08/ascii85-group-above-u32-overflows".into();
    }
    let get = |k: &str, d: i64| parms.iter().find(|(n, _)| *n == k).map(|(_, v)| *v).unwrap_or(d);
    let pred = get("Predictor", 1) as u32;
    if overflow && (10..=15).contains(&pred) {
        let bpc = get("BitsPerComponent", 8) as usize;
        let colors = get("Colors", 1) as usize;
        if bpc.checked_mul(colors).is_none() {
            // KF-C08-2
            return "C08/png-predictor-bpc-times-colors-overflows".into();
        }
    }
    format!("C08/panic-in-bounded-decode@{}", vx::panic_site(msg))
}

// ---------------------------------------------------------------- the oracle

#[derive(Clone, Copy, PartialEq, Eq, Hash, Debug)]
enum Obs {
    Full,
    Truncated,
    Rejected,
    RejectedIntermediateOnly,
    Bad,
}

/// Exact tally of observation classes over distinct (stream, limit) cells of the
/// reference-encoded sections (the explorer re-runs some executions; cells are de-duplicated).
#[derive(Default)]
struct Tally {
    seen: std::sync::Mutex<std::collections::HashSet<u64>>,
    full: std::sync::atomic::AtomicU64,
    truncated: std::sync::atomic::AtomicU64,
    rejected_below_size: std::sync::atomic::AtomicU64,
    intermediate_only_rejected: std::sync::atomic::AtomicU64,
    intermediate_only_accepted: std::sync::atomic::AtomicU64,
    bad: std::sync::atomic::AtomicU64,
}
impl Tally {
    fn add(&self, cell: u64, obs: Obs, intermediate_only: bool) {
        use std::sync::atomic::Ordering::Relaxed;
        if !self.seen.lock().unwrap().insert(cell) {
            return;
        }
        match (obs, intermediate_only) {
            (Obs::Full, true) => self.intermediate_only_accepted.fetch_add(1, Relaxed),
            (Obs::Full, false) => self.full.fetch_add(1, Relaxed),
            (Obs::Truncated, _) => self.truncated.fetch_add(1, Relaxed),
            (Obs::Rejected, _) => self.rejected_below_size.fetch_add(1, Relaxed),
            (Obs::RejectedIntermediateOnly, _) => self.intermediate_only_rejected.fetch_add(1, Relaxed),
            (Obs::Bad, _) => self.bad.fetch_add(1, Relaxed),
        };
    }
    fn json(&self) -> serde_json::Value {
        use std::sync::atomic::Ordering::Relaxed;
        json!({
            "cells (reference-encoded stream x limit)": self.seen.lock().unwrap().len(),
            "limit >= every stage: bounded == unbounded": self.full.load(Relaxed),
            "limit < decoded size (or both paths reject): Err": self.rejected_below_size.load(Relaxed),
            "limit < decoded size: Ok with <= limit bytes": self.truncated.load(Relaxed),
            "decoded size <= limit < largest stage (not judged): Err": self.intermediate_only_rejected.load(Relaxed),
            "decoded size <= limit < largest stage (not judged): Ok == unbounded": self.intermediate_only_accepted.load(Relaxed),
            "violating": self.bad.load(Relaxed),
        })
    }
}

/// Evaluate one stream under every limit of `limits`. `wf`: Some((n, n_max)) when the stream
/// is a reference encoding with final size n and largest stage size n_max. Returns the
/// observation hash.
fn eval(c: &mut Ctx, stages: &[Stage], raw: &[u8], wf: Option<(usize, usize)>, limits: &[usize], what: &dyn Fn() -> String, tally: Option<&Tally>) -> u64 {
    let s = make_stream(stages, raw.to_vec(), false);
    let first = stages.first().map(|s| s.f).unwrap_or(F::RL);
    let parms: Vec<(&'static str, i64)> = stages.first().map(|s| s.parms.clone()).unwrap_or_default();
    let unb = if wf.is_some() { Some(lib_decode(&s)) } else { None };
    if let Some(Ok(Ok(u))) = &unb {
        if u.len() > CEILING {
            c.fail("C08/unbounded-decode-above-ceiling", format!("{} unbounded={} bytes", what(), u.len()));
        }
    }
    let mut oh = 0u64;
    let mut keys: Vec<String> = Vec::new();
    let mut fail = |c: &mut Ctx, k: String, d: String| {
        if !keys.contains(&k) {
            keys.push(k.clone());
            c.fail(k, d);
        }
    };
    for &l in limits {
        let b = lib_decode_limit(&s, l);
        let obs = match &b {
            Err(p) => {
                fail(c, panic_key(first, raw, &parms, p), format!("{} limit={} {}", what(), show_limit(l), short_err(&b)));
                Obs::Bad
            }
            Ok(Ok(v)) if v.len() > l => {
                fail(c, "C08/bounded-decode-returns-more-than-limit".into(), format!("{} limit={} returned={} bytes", what(), show_limit(l), v.len()));
                Obs::Bad
            }
            Ok(r) => match (wf, &unb) {
                (Some((n, n_max)), Some(u)) => {
                    if n_max <= l {
                        match (r, u) {
                            (Ok(v), Ok(Ok(w))) if v == w => Obs::Full,
                            (Ok(v), Ok(Ok(w))) => {
                                fail(c, "C08/bounded-differs-from-unbounded".into(), format!("{} limit={} bounded={} unbounded={}", what(), show_limit(l), vx::show_bytes(v, 48), vx::show_bytes(w, 48)));
                                Obs::Bad
                            }
                            (Err(_), Ok(Ok(_))) => {
                                fail(c, "C08/bounded-rejects-well-formed-stream-within-limit".into(), format!("{} limit={} decoded_size={n} largest_stage={n_max} bounded={}", what(), show_limit(l), short_err(&b)));
                                Obs::Bad
                            }
                            (Ok(_), _) => {
                                fail(c, "C08/bounded-accepts-what-unbounded-rejects".into(), format!("{} limit={} bounded={} unbounded={}", what(), show_limit(l), short_err(&b), short_err(u)));
                                Obs::Bad
                            }
                            // both reject a reference encoding: C07's business, not a disagreement
                            (Err(_), _) => Obs::Rejected,
                        }
                    } else if n <= l {
                        match (r, u) {
                            (Ok(v), Ok(Ok(w))) if v != w => {
                                fail(c, "C08/bounded-differs-from-unbounded".into(), format!("{} limit={} bounded={} unbounded={}", what(), show_limit(l), vx::show_bytes(v, 48), vx::show_bytes(w, 48)));
                                Obs::Bad
                            }
                            (Ok(_), _) => Obs::Full,
                            (Err(_), _) => Obs::RejectedIntermediateOnly,
                        }
                    } else {
                        match (r, u) {
                            // the library's own full decoding is shorter than the reference data
                            // (a C07 matter, e.g. KF-C07-2) and fits: still bounded == unbounded
                            (Ok(v), Ok(Ok(w))) if v == w => Obs::Full,
                            (Ok(_), _) => Obs::Truncated,
                            (Err(_), _) => Obs::Rejected,
                        }
                    }
                }
                _ => match r {
                    Ok(_) => Obs::Full,
                    Err(_) => Obs::Rejected,
                },
            },
        };
        oh = vx::hmix(oh, vx::h64(&(l, obs)));
        if let (Some(t), Some((n, n_max))) = (tally, wf) {
            let cell = vx::h64(&(stages.iter().map(|s| (s.f, s.parms.clone())).collect::<Vec<_>>(), raw, l));
            t.add(cell, obs, n <= l && l < n_max);
        }
    }
    c.add_evaluations(limits.len() as u64 - 1);
    oh
}

pub fn run(rep: &mut Report) {
    let thorough = rep.tier.is_thorough();
    rep.rule(
        "one case = (filter chain + DecodeParms, raw stream bytes) evaluated under every limit of its menu \
         (each limit is one evaluation); distinct by hash of (chain, parameters, raw bytes); non-trivial = at least \
         one limit of the menu is below the decoded size and one is at or above it (reference-encoded cases) or the \
         raw bytes decode to something under usize::MAX (garbage cases)",
    );
    rep.assume("well-formed = produced by a reference encoder (refpdf, miniz, weezl); garbage inputs are held only to 'no panic' and '<= limit or Err'");
    rep.assume("'decodes fully within the limit' is read as: every stage of the chain, including the rows before a predictor is undone, fits in the limit; cells where only the final output fits are counted, not judged");
    rep.assume("the documented ceiling is MAX_DECOMPRESSED_SIZE = 256 * 1024 * 1024 (parser/filters.rs)");
    rep.note("ceiling_bytes", json!(CEILING));

    let tally = Tally::default();
    limits(rep, &tally);
    limits_chains(rep, &tally);
    limits_predictors(rep, &tally);
    if !rep.is_replay() {
        rep.note("reference_encoded_cells_by_observation", tally.json());
    }
    garbage(rep, thorough);
    predictor_params(rep, thorough);
    if thorough {
        bombs(rep);
    } else {
        rep.note("bombs", json!("thorough tier only (four 300 MiB expansions)"));
    }
}

fn variants_all() -> Vec<(F, usize)> {
    let mut v = Vec::new();
    for f in ALL_F {
        for k in 0..f.variants() {
            v.push((f, k));
        }
    }
    v
}

fn limits(rep: &mut Report, tally: &Tally) {
    let mut data_set = all_strings(&ALPHA, 3);
    for (k, n) in [(1usize, 5usize), (0, 127), (0, 128), (0, 129), (3, 129), (1, 300), (0, 1000), (3, 1000), (2, 1100), (2, 4200), (0, 16385), (3, 16500), (3, 40000)] {
        data_set.push(pattern(k, n));
    }
    let fv = variants_all();
    rep.explore("limits", Explore::full(), |c: &mut Ctx| {
        let which = c.choose("filter-variant", fv.len() + 1);
        let data = c.pick_from("data", &data_set);
        let n = data.len();
        let (stages, raw, label): (Vec<Stage>, Vec<u8>, String) = if which == fv.len() {
            (vec![], data.clone(), "no filter".into())
        } else {
            let (f, var) = fv[which];
            (vec![Stage::plain(f)], ref_encode(f, var, data), format!("{} ({})", f.short(), f.variant_name(var)))
        };
        let lims = limit_menu(&[n]);
        c.input(vx::h64(&(&label, &raw)));
        if n > 0 {
            c.nontrivial();
        }
        let what = || format!("filter={label} data_len={n} data={} encoded={}", vx::hex(&data[..n.min(12)]), vx::show_bytes(&raw, 40));
        let oh = eval(c, &stages, &raw, Some((n, n)), &lims, &what, Some(tally));
        c.outcome(oh);
        c.sample(json!({"filter": label, "data_len": n, "limits": lims.iter().map(|&l| show_limit(l)).collect::<Vec<_>>()}));
    });
}

fn limits_chains(rep: &mut Report, tally: &Tally) {
    let mut data_set = all_strings(&ALPHA, 2);
    data_set.push(b"Test".to_vec());
    data_set.push(vec![0; 9]);
    data_set.push(pattern(0, 600));
    data_set.push(pattern(1, 300));
    data_set.push(pattern(2, 700));
    rep.explore("limits-chains", Explore::full(), |c: &mut Ctx| {
        let f1 = *c.pick_from("first", &ALL_F);
        let f2 = *c.pick_from("second", &ALL_F);
        let data = c.pick_from("data", &data_set);
        let mid = ref_encode(f2, 0, data);
        let raw = ref_encode(f1, 0, &mid);
        let (n, n_max) = (data.len(), data.len().max(mid.len()));
        let lims = limit_menu(&[n, n_max]);
        let stages = [Stage::plain(f1), Stage::plain(f2)];
        c.input(vx::h64(&(f1, f2, &raw)));
        c.nontrivial();
        let what = || format!("chain=[{} {}] data_len={n} intermediate_len={} data={}", f1.short(), f2.short(), mid.len(), vx::hex(&data[..n.min(12)]));
        let oh = eval(c, &stages, &raw, Some((n, n_max)), &lims, &what, Some(tally));
        c.outcome(oh);
        c.sample(json!({"chain": [f1.short(), f2.short()], "data_len": n, "intermediate_len": mid.len(), "limits": lims.iter().map(|&l| show_limit(l)).collect::<Vec<_>>()}));
    });
}

fn limits_predictors(rep: &mut Report, tally: &Tally) {
    const PREDS: [i64; 7] = [2, 10, 11, 12, 13, 14, 15];
    const CARRIERS: [F; 3] = [F::Flate, F::Lzw1, F::Lzw0];
    const BPCS: [usize; 5] = [1, 2, 4, 8, 16];
    const COLS: [usize; 4] = [1, 2, 5, 17];
    rep.explore("limits-predictors", Explore::full(), |c: &mut Ctx| {
        let carrier = *c.pick_from("carrier", &CARRIERS);
        let predictor = *c.pick_from("predictor", &PREDS);
        let colors = 1 + c.choose("colors", 4);
        let bpc = *c.pick_from("bpc", &BPCS);
        let columns = *c.pick_from("columns", &COLS);
        let rows = 1 + c.choose("rows", 3);
        let p = rf::PredParams { predictor, colors, bpc, columns };
        let rb = p.row_bytes();
        let data = pattern(3, rb * rows);
        let predicted = if predictor == 2 {
            rf::tiff_predict_encode(&data, &p)
        } else {
            let base = if predictor == 15 { 4 } else { (predictor - 10) as u8 };
            rf::png_predict_encode(&data, &p, &|r| (base + r as u8) % 5)
        };
        let raw = ref_encode(carrier, 0, &predicted);
        let (n, n_max) = (data.len(), predicted.len().max(data.len()));
        let lims = limit_menu(&[n, n_max]);
        let stages = [Stage { f: carrier, parms: vec![("Predictor", predictor), ("Colors", colors as i64), ("BitsPerComponent", bpc as i64), ("Columns", columns as i64)] }];
        c.input(vx::h64(&(carrier, predictor, colors, bpc, columns, &raw)));
        c.nontrivial();
        let what = || format!("carrier={} Predictor={predictor} Colors={colors} BitsPerComponent={bpc} Columns={columns} rows={rows} decoded_len={n} pre-predictor_len={}", carrier.short(), predicted.len());
        let oh = eval(c, &stages, &raw, Some((n, n_max)), &lims, &what, Some(tally));
        c.outcome(oh);
        c.sample(json!({"carrier": carrier.short(), "Predictor": predictor, "Colors": colors, "BitsPerComponent": bpc, "Columns": columns, "rows": rows, "limits": lims.iter().map(|&l| show_limit(l)).collect::<Vec<_>>()}));
    });
}

// ---------------------------------------------------------------- garbage

/// Per-filter 12-byte alphabets: the filter's meta characters, boundary values and one
/// invalid symbol each.
fn garbage_alphabet(f: F) -> [u8; 12] {
    match f {
        // '!' '"' lowest digits; 's' 't' 'u' highest (s8W-! is 2^32-1); 'z' '~' '>' '<' meta; blank; 'v' and NUL invalid
        F::A85 => [b'!', b'"', b's', b't', b'u', b'z', b'~', b'>', b'<', b' ', b'v', 0x00],
        F::AHx => [b'0', b'1', b'9', b'A', b'F', b'a', b'f', b'>', b' ', b'\n', b'g', 0x00],
        // length bytes: literal 1/2/3/127/128 bytes, EOD, repeat 128/127/3/2 times, and a data byte
        F::RL => [0x00, 0x01, 0x02, 0x7E, 0x7F, 0x80, 0x81, 0x82, 0xFE, 0xFF, b'A', 0x03],
        // 9-bit codes: 80 00 = clear, 80 40.. = clear then EOD, FF.. = codes beyond the table
        F::Lzw1 | F::Lzw0 => [0x00, 0x01, 0x08, 0x10, 0x20, 0x40, 0x60, 0x7F, 0x80, 0x81, 0xC0, 0xFF],
        // zlib headers 78 9C / 78 DA / 78 01, stored-block and fixed-Huffman starts, gzip magic
        F::Flate => [0x78, 0x9C, 0xDA, 0x01, 0x03, 0x00, 0xFF, 0x4B, 0x04, 0x63, 0x08, 0x1F],
    }
}

fn garbage(rep: &mut Report, thorough: bool) {
    rep.explore("garbage", Explore::full(), |c: &mut Ctx| {
        let f = *c.pick_from("filter", &ALL_F);
        let alpha = garbage_alphabet(f);
        // ASCII85 works in groups of 5 characters; LZW needs 5 bytes for 4 codes (thorough only: each
        // LZW decode builds a 258-entry table, 2 x 12^5 x 7 of them is most of the quick budget)
        let max_len = match f {
            F::A85 => 5,
            F::Lzw1 | F::Lzw0 if thorough => 5,
            _ => 4,
        };
        // the first two bytes are choice points, the rest is looped over inside
        let len = c.choose("len", max_len + 1);
        let head: Vec<u8> = (0..len.min(2)).map(|_| *c.pick_from("byte", &alpha)).collect();
        let tails = if len > 2 { all_strings(&alpha, len - 2).into_iter().filter(|t| t.len() == len - 2).collect::<Vec<_>>() } else { vec![vec![]] };
        let stages = [Stage::plain(f)];
        let mut ih = 0u64;
        let mut oh = 0u64;
        let mut any_ok = false;
        for t in &tails {
            let mut raw = head.clone();
            raw.extend_from_slice(t);
            ih = vx::hmix(ih, vx::hbytes(&raw));
            // learn the decoded size with the widest limit, then probe around it
            let s = make_stream(&stages, raw.clone(), false);
            let n = match lib_decode_limit(&s, usize::MAX) {
                Ok(Ok(v)) => {
                    any_ok = true;
                    v.len()
                }
                _ => 0,
            };
            let lims = limit_menu(&[n]);
            let what = || format!("filter={} raw={} ({})", f.short(), vx::hex(&raw), vx::show_bytes(&raw, 8));
            oh = vx::hmix(oh, eval(c, &stages, &raw, None, &lims, &what, None));
        }
        c.add_evaluations(tails.len() as u64 - 1);
        c.input(vx::hmix(vx::h64(&(f, len, &head)), ih));
        c.outcome(oh);
        if any_ok {
            c.nontrivial();
        }
        c.sample(json!({"filter": f.short(), "len": len, "head": vx::hex(&head), "tails": tails.len()}));
    });
}

// ---------------------------------------------------------------- hostile predictor parameters

const P_PRED: [i64; 14] = [15, 1, 2, 10, 11, 12, 0, 3, 9, 16, -1, i64::MAX, i64::MIN, (1 << 32) + 10];
const P_COLORS: [i64; 11] = [1, 2, 3, 4, 0, -1, 5, 1 << 31, 1 << 32, i64::MAX, i64::MIN];
const P_BPC: [i64; 11] = [8, 1, 2, 4, 16, 0, -1, 3, 32, 1 << 61, i64::MAX];
const P_COLS: [i64; 8] = [1, 2, 3, 0, -1, 1 << 32, 1 << 61, i64::MAX];

fn predictor_params(rep: &mut Report, thorough: bool) {
    // pre-predictor payloads: row-tag bytes 0..5, extremes, and a few longer rows
    let mut payloads = all_strings(&[0, 1, 2, 3, 4, 5, 0x80, 0xFF], 2);
    payloads.push(vec![1, 10, 20, 30]);
    payloads.push(vec![4, 1, 2, 3, 2, 1, 2, 3, 3, 250, 251, 252]);
    payloads.push(vec![2; 9]);
    payloads.push(pattern(3, 33));
    let cfg = if thorough { Explore::full() } else { Explore::dev(2) };
    rep.note("predictor_params_mode", json!(if thorough { "full product 14x11x11x8" } else { "every combination with at most 2 of the 4 parameters off their default (15,1,8,1)" }));
    const CARRIERS: [F; 2] = [F::Flate, F::Lzw1];
    rep.explore("predictor-params", cfg, |c: &mut Ctx| {
        let carrier = *c.pick_from("carrier", &CARRIERS);
        let predictor = *c.pick_dev("Predictor", &P_PRED);
        let colors = *c.pick_dev("Colors", &P_COLORS);
        let bpc = *c.pick_dev("BitsPerComponent", &P_BPC);
        let columns = *c.pick_dev("Columns", &P_COLS);
        let payload = c.pick_from("payload", &payloads);
        let raw = ref_encode(carrier, 0, payload);
        let stages = [Stage { f: carrier, parms: vec![("Predictor", predictor), ("Colors", colors), ("BitsPerComponent", bpc), ("Columns", columns)] }];
        let lims = limit_menu(&[payload.len()]);
        c.input(vx::h64(&(carrier, predictor, colors, bpc, columns, &raw)));
        c.nontrivial();
        let what = || format!("carrier={} Predictor={predictor} Colors={colors} BitsPerComponent={bpc} Columns={columns} pre-predictor bytes={}", carrier.short(), vx::hex(payload));
        let oh = eval(c, &stages, &raw, None, &lims, &what, None);
        c.outcome(oh);
        c.sample(json!({"carrier": carrier.short(), "Predictor": predictor, "Colors": colors, "BitsPerComponent": bpc, "Columns": columns, "payload": vx::hex(payload)}));
    });
}

// ---------------------------------------------------------------- bombs

fn bombs(rep: &mut Report) {
    const TARGET: usize = 300 * 1024 * 1024;
    const NAMES: [&str; 4] = ["flate", "lzw", "runlength", "ascii85"];
    rep.note("bombs", json!("one stream per expanding filter whose conforming decoding is 300 MiB of zeros (ASCIIHex cannot expand)"));
    rep.explore("bombs", Explore::full().threads(4), |c: &mut Ctx| {
        let k = c.choose("bomb", 4);
        let (f, raw): (F, Vec<u8>) = match k {
            0 => {
                use std::io::Write;
                let mut e = flate2::write::ZlibEncoder::new(Vec::new(), flate2::Compression::default());
                let chunk = vec![0u8; 1 << 20];
                for _ in 0..(TARGET >> 20) {
                    e.write_all(&chunk).unwrap();
                }
                (F::Flate, e.finish().unwrap())
            }
            1 => (F::Lzw1, weezl_lzw(&vec![0u8; TARGET], true)),
            2 => {
                let mut v = Vec::with_capacity(TARGET / 64 + 1);
                for _ in 0..TARGET / 128 {
                    v.extend_from_slice(&[0x81, 0x00]);
                }
                v.push(0x80);
                (F::RL, v)
            }
            _ => {
                let mut v = vec![b'z'; TARGET / 4];
                v.extend_from_slice(b"~>");
                (F::A85, v)
            }
        };
        c.input(vx::h64(&(k, raw.len())));
        c.nontrivial();
        let s = make_stream(&[Stage::plain(f)], raw, false);
        let t0 = std::time::Instant::now();
        let unb = lib_decode(&s);
        let class = match &unb {
            Err(p) => {
                c.fail(format!("C08/panic-in-unbounded-decode@{}", vx::panic_site(p)), format!("bomb={} {}", NAMES[k], vx::one_line(p, 200)));
                "panic".to_string()
            }
            Ok(Ok(v)) if v.len() > CEILING => {
                c.fail("C08/unbounded-decode-above-ceiling", format!("bomb={} encoded={} bytes decoded={} bytes > {} (MAX_DECOMPRESSED_SIZE)", NAMES[k], s.data.len(), v.len(), CEILING));
                "above-ceiling".to_string()
            }
            Ok(Ok(v)) => format!("ok-{}", v.len()),
            Ok(Err(_)) => "rejected".to_string(),
        };
        drop(unb);
        // the bounded path on the same bomb, small limit and a limit just above the ceiling
        let mut oh = vx::h64(&class);
        for l in [1usize << 20, CEILING + 1] {
            let b = lib_decode_limit(&s, l);
            match &b {
                Err(p) => c.fail(format!("C08/panic-in-bounded-decode@{}", vx::panic_site(p)), format!("bomb={} limit={l} {}", NAMES[k], vx::one_line(p, 200))),
                Ok(Ok(v)) if v.len() > l => c.fail("C08/bounded-decode-returns-more-than-limit", format!("bomb={} limit={l} returned={}", NAMES[k], v.len())),
                _ => {}
            }
            oh = vx::hmix(oh, vx::h64(&b.as_ref().map(|r| r.as_ref().map(|v| v.len()).map_err(|_| ())).map_err(|_| ())));
        }
        c.add_evaluations(2);
        c.outcome(oh);
        c.sample(json!({"bomb": NAMES[k], "encoded_bytes": s.data.len(), "unbounded": class, "seconds": (t0.elapsed().as_secs_f64() * 10.0).round() / 10.0}));
    });
}
