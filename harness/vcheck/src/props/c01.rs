//! C01 — reading any byte sequence never crashes, hangs or exhausts memory.
//!
//! Exhaustive FAULT ENUMERATION (no sampling): a fixed set of small seed files, and for each
//! of them every member of several mutation families (every numeric token x a boundary
//! catalogue, every byte position x a menu of byte operations, every truncation length,
//! exhaustive micro-grammars, nesting depths), each under every parsing preset. Every case is
//! driven through open -> page_count -> pages -> resources -> content streams -> stream
//! decoding -> ContentParser -> extract_text (default and layout options).
//!
//! Architecture: the supervisor (`run`) hands out ranges of case indices to N worker
//! subprocesses (`vcheck --worker C01 <tier>`); a worker rebuilds the same case space,
//! runs each case under `catch_unwind` with a counting allocator (1 GiB cap) and reports one
//! line per case. A worker that dies or stops answering is killed, the in-flight case is
//! re-run alone in a fresh process (which also reports the driver phase and stderr class).
//! The case index is the replay.
#![allow(clippy::all)]
#![allow(dead_code)]

use oxidize_pdf::parser::content::ContentParser;
use oxidize_pdf::parser::{ParseOptions, PdfDocument, PdfObject, PdfReader};
use oxidize_pdf::text::ExtractionOptions;
use refpdf::builder::{FileBuilder, Revision, XrefForm};
use refpdf::filters as rf;
use refpdf::syntax::{write_obj, Obj};
use serde_json::{json, Value};
use std::collections::{BTreeMap, HashMap, HashSet};
use std::io::{BufRead, BufReader, Write};
use std::sync::atomic::{AtomicBool, AtomicI32, AtomicIsize, AtomicU64, AtomicUsize, Ordering};
use std::sync::{mpsc, Mutex};
use std::time::{Duration, Instant};

pub const BUILT: bool = true;

const MEM_LIMIT: isize = 1 << 30; // 1 GiB of live heap per worker
const DEADLINE_CPU_S: f64 = 20.0; // per case (user CPU; 5 s proved too tight on a heavily shared machine: a 0.6 s case was measured at 6 s)
const DEADLINE_WALL_S: f64 = 60.0; // per case when the machine starves the worker
const CHUNK: u64 = 256;

// =====================================================================================
// counting allocator (global for the vcheck binary; inert unless a C01 worker switches it on)
// =====================================================================================

pub mod alloc_track {
    use super::*;
    use std::alloc::{GlobalAlloc, Layout, System};

    pub static TRACK: AtomicBool = AtomicBool::new(false);
    pub static CUR: AtomicIsize = AtomicIsize::new(0);
    pub static PEAK: AtomicIsize = AtomicIsize::new(0);
    pub static LIMIT: AtomicIsize = AtomicIsize::new(isize::MAX);
    pub static FD: AtomicI32 = AtomicI32::new(-1);

    pub struct Counting;

    fn itoa(mut n: u64, buf: &mut [u8; 24]) -> &[u8] {
        let mut i = buf.len();
        if n == 0 {
            i -= 1;
            buf[i] = b'0';
        }
        while n > 0 {
            i -= 1;
            buf[i] = b'0' + (n % 10) as u8;
            n /= 10;
        }
        &buf[i..]
    }

    /// Refused allocation: tell the supervisor (raw write, no buffering), with the first
    /// library frame of the call stack when it can be had.
    #[cold]
    fn refused(size: usize) {
        let fd = FD.load(Ordering::Relaxed);
        if fd < 0 {
            return;
        }
        // switch tracking off: the backtrace below allocates, and the process is about to abort
        TRACK.store(false, Ordering::SeqCst);
        let mut b = [0u8; 24];
        let digits = itoa(size as u64, &mut b).to_vec();
        let site = super::first_library_frame();
        let mut line = Vec::with_capacity(96);
        line.extend_from_slice(b"\nM ");
        line.extend_from_slice(&digits);
        line.push(b' ');
        line.extend_from_slice(site.as_bytes());
        line.push(b'\n');
        unsafe {
            libc::write(fd, line.as_ptr() as *const libc::c_void, line.len());
        }
    }

    #[inline]
    fn admit(n: usize) -> bool {
        if n > (isize::MAX as usize) / 2 {
            refused(n);
            return false;
        }
        let n = n as isize;
        let c = CUR.fetch_add(n, Ordering::Relaxed).saturating_add(n);
        if c > LIMIT.load(Ordering::Relaxed) {
            CUR.fetch_sub(n, Ordering::Relaxed);
            refused(n as usize);
            return false;
        }
        PEAK.fetch_max(c, Ordering::Relaxed);
        true
    }

    unsafe impl GlobalAlloc for Counting {
        unsafe fn alloc(&self, l: Layout) -> *mut u8 {
            if TRACK.load(Ordering::Relaxed) {
                if !admit(l.size()) {
                    return std::ptr::null_mut();
                }
                let p = System.alloc(l);
                if p.is_null() {
                    CUR.fetch_sub(l.size() as isize, Ordering::Relaxed);
                    refused(l.size());
                }
                p
            } else {
                System.alloc(l)
            }
        }
        unsafe fn alloc_zeroed(&self, l: Layout) -> *mut u8 {
            if TRACK.load(Ordering::Relaxed) {
                if !admit(l.size()) {
                    return std::ptr::null_mut();
                }
                let p = System.alloc_zeroed(l);
                if p.is_null() {
                    CUR.fetch_sub(l.size() as isize, Ordering::Relaxed);
                    refused(l.size());
                }
                p
            } else {
                System.alloc_zeroed(l)
            }
        }
        unsafe fn dealloc(&self, p: *mut u8, l: Layout) {
            System.dealloc(p, l);
            if TRACK.load(Ordering::Relaxed) {
                CUR.fetch_sub(l.size() as isize, Ordering::Relaxed);
            }
        }
        unsafe fn realloc(&self, p: *mut u8, l: Layout, new_size: usize) -> *mut u8 {
            if TRACK.load(Ordering::Relaxed) {
                let old = l.size();
                if new_size > old && !admit(new_size - old) {
                    return std::ptr::null_mut();
                }
                let q = System.realloc(p, l, new_size);
                if q.is_null() {
                    if new_size > old {
                        CUR.fetch_sub((new_size - old) as isize, Ordering::Relaxed);
                        refused(new_size);
                    }
                } else if new_size < old {
                    CUR.fetch_sub((old - new_size) as isize, Ordering::Relaxed);
                }
                q
            } else {
                System.realloc(p, l, new_size)
            }
        }
    }
}

#[global_allocator]
static GLOBAL: alloc_track::Counting = alloc_track::Counting;

// ------------------------------------------------------------------ cheap symbolisation
// std::backtrace's symboliser needs seconds per capture here; the names we need are in the
// executable's own .symtab, so read that once and look return addresses up ourselves.

struct SymTab {
    syms: Vec<(u64, u64, String)>,
    base: u64,
}

fn rd16(d: &[u8], o: usize) -> u64 {
    u16::from_le_bytes([d[o], d[o + 1]]) as u64
}
fn rd32(d: &[u8], o: usize) -> u64 {
    u32::from_le_bytes([d[o], d[o + 1], d[o + 2], d[o + 3]]) as u64
}
fn rd64(d: &[u8], o: usize) -> u64 {
    let mut b = [0u8; 8];
    b.copy_from_slice(&d[o..o + 8]);
    u64::from_le_bytes(b)
}

fn load_symtab() -> Option<SymTab> {
    let d = std::fs::read("/proc/self/exe").ok()?;
    if d.len() < 0x40 || &d[..4] != b"\x7fELF" || d[4] != 2 || d[5] != 1 {
        return None;
    }
    let shoff = rd64(&d, 0x28) as usize;
    let shentsize = rd16(&d, 0x3a) as usize;
    let shnum = rd16(&d, 0x3c) as usize;
    let sh = |i: usize| shoff + i * shentsize;
    let mut syms = Vec::new();
    for i in 0..shnum {
        let h = sh(i);
        if h + 0x40 > d.len() || rd32(&d, h + 4) != 2 {
            continue;
        }
        let (off, size, link, ent) = (rd64(&d, h + 0x18) as usize, rd64(&d, h + 0x20) as usize, rd32(&d, h + 0x28) as usize, rd64(&d, h + 0x38) as usize);
        let sl = sh(link);
        let (soff, ssize) = (rd64(&d, sl + 0x18) as usize, rd64(&d, sl + 0x20) as usize);
        if ent == 0 || off + size > d.len() || soff + ssize > d.len() {
            continue;
        }
        let strtab = &d[soff..soff + ssize];
        for k in 0..size / ent {
            let e = off + k * ent;
            let info = d[e + 4];
            let value = rd64(&d, e + 8);
            if info & 0xf != 2 || value == 0 {
                continue;
            }
            let no = rd32(&d, e) as usize;
            if no >= strtab.len() {
                continue;
            }
            let end = strtab[no..].iter().position(|c| *c == 0).map(|p| no + p).unwrap_or(strtab.len());
            syms.push((value, rd64(&d, e + 16), String::from_utf8_lossy(&strtab[no..end]).to_string()));
        }
    }
    syms.sort();
    let anchor = syms.iter().find(|s| s.2.contains("3c0111worker_main"))?.0;
    let base = (worker_main as usize as u64).wrapping_sub(anchor);
    Some(SymTab { syms, base })
}

static SYMTAB: std::sync::OnceLock<Option<SymTab>> = std::sync::OnceLock::new();

fn symbol_of(ip: u64) -> Option<&'static str> {
    let st = SYMTAB.get_or_init(load_symtab).as_ref()?;
    let a = ip.wrapping_sub(st.base);
    let i = st.syms.partition_point(|s| s.0 <= a);
    if i == 0 {
        return None;
    }
    let s = &st.syms[i - 1];
    if a < s.0 + s.1.max(1) {
        Some(s.2.as_str())
    } else {
        None
    }
}

/// Path segments of a legacy-mangled Rust symbol (`_ZN..E`), hash dropped.
fn demangle_idents(m: &str) -> Vec<String> {
    let mut out = Vec::new();
    let Some(mut r) = m.strip_prefix("_ZN") else { return out };
    loop {
        let digits: String = r.chars().take_while(|c| c.is_ascii_digit()).collect();
        if digits.is_empty() {
            break;
        }
        let n: usize = digits.parse().unwrap_or(0);
        r = &r[digits.len()..];
        if n == 0 || n > r.len() {
            break;
        }
        out.push(r[..n].to_string());
        r = &r[n..];
    }
    if out.last().map(|h| h.len() == 17 && h.starts_with('h')).unwrap_or(false) {
        out.pop();
    }
    out
}

fn tidy_ident(id: &str) -> String {
    // "_$LT$path..Type$u20$as$u20$Trait$GT$" -> Type ; "Lexer$LT$R$GT$" -> Lexer
    let id = if let Some(r) = id.strip_prefix("_$LT$") {
        let r = r.split("$u20$as").next().unwrap_or(r);
        let r = r.split("$LT$").next().unwrap_or(r);
        r.rsplit("..").next().unwrap_or(r)
    } else {
        id.split('$').next().unwrap_or(id)
    };
    id.chars().filter(|c| c.is_ascii_alphanumeric() || *c == '_').collect()
}

fn library_fn_of(sym: &str) -> Option<String> {
    if !sym.starts_with("_ZN11oxidize_pdf") {
        return None;
    }
    let ids: Vec<String> = demangle_idents(sym).iter().filter(|i| !i.starts_with("_$u7b$")).map(|i| tidy_ident(i)).filter(|i| !i.is_empty()).collect();
    let n = ids.len();
    Some(if n >= 2 { format!("{}::{}", ids[n - 2], ids[n - 1]) } else { ids.join("::") })
}

/// The library function that occurs most often among the innermost 128 frames (the one a
/// runaway recursion goes through); ties are broken alphabetically.
fn recursing_library_frame() -> String {
    let mut buf = [std::ptr::null_mut::<libc::c_void>(); 128];
    let n = unsafe { libc::backtrace(buf.as_mut_ptr(), buf.len() as libc::c_int) };
    let mut names: Vec<String> = Vec::new();
    for ip in buf.iter().take(n.max(0) as usize) {
        if let Some(f) = symbol_of((*ip as u64).wrapping_sub(1)).and_then(library_fn_of) {
            names.push(f);
        }
    }
    // functions on a recursion cycle occur equally often give or take one: among those
    // within one of the maximum take the alphabetically first, so the answer does not depend
    // on where exactly the stack ran out
    let count = |f: &String| names.iter().filter(|x| *x == f).count();
    let max = names.iter().map(count).max().unwrap_or(0);
    let mut cands: Vec<&String> = names.iter().filter(|f| count(f) + 1 >= max).collect();
    cands.sort();
    cands.first().map(|s| s.to_string()).unwrap_or_else(|| "unknown".into())
}

/// All library frames of the current call stack, outermost first, joined by '>'.
fn library_stack() -> String {
    let mut buf = [std::ptr::null_mut::<libc::c_void>(); 128];
    let n = unsafe { libc::backtrace(buf.as_mut_ptr(), buf.len() as libc::c_int) };
    let mut names: Vec<String> = Vec::new();
    for ip in buf.iter().take(n.max(0) as usize) {
        if let Some(f) = symbol_of((*ip as u64).wrapping_sub(1)).and_then(library_fn_of) {
            if names.last() != Some(&f) {
                names.push(f);
            }
        }
    }
    names.reverse();
    if names.is_empty() {
        "unknown".into()
    } else {
        names.join(">")
    }
}

/// First frame of the current call stack that belongs to the library, as `module::function`.
fn first_library_frame() -> String {
    let mut buf = [std::ptr::null_mut::<libc::c_void>(); 128];
    let n = unsafe { libc::backtrace(buf.as_mut_ptr(), buf.len() as libc::c_int) };
    for ip in buf.iter().take(n.max(0) as usize) {
        let Some(sym) = symbol_of((*ip as u64).wrapping_sub(1)) else { continue };
        if !sym.starts_with("_ZN11oxidize_pdf") {
            continue;
        }
        let ids: Vec<String> = demangle_idents(sym).iter().filter(|i| !i.starts_with("_$u7b$")).map(|i| tidy_ident(i)).filter(|i| !i.is_empty()).collect();
        let n = ids.len();
        return if n >= 2 { format!("{}::{}", ids[n - 2], ids[n - 1]) } else { ids.join("::") };
    }
    "unknown".into()
}

// =====================================================================================
// panic capture in the worker: message, file, enclosing function
// =====================================================================================

thread_local! {
    static LAST_PANIC: std::cell::RefCell<Option<(String, String, u32)>> = const { std::cell::RefCell::new(None) };
    static LAST_FRAME: std::cell::RefCell<Option<String>> = const { std::cell::RefCell::new(None) };
    static FN_CACHE: std::cell::RefCell<HashMap<(String, u32), String>> = std::cell::RefCell::new(HashMap::new());
    static FRAME_CACHE: std::cell::RefCell<HashMap<(String, u32), String>> = std::cell::RefCell::new(HashMap::new());
}

fn install_worker_panic_hook() {
    std::panic::set_hook(Box::new(|info| {
        let msg = if let Some(s) = info.payload().downcast_ref::<&str>() {
            s.to_string()
        } else if let Some(s) = info.payload().downcast_ref::<String>() {
            s.clone()
        } else {
            "<non-string panic>".to_string()
        };
        let (file, line) = info.location().map(|l| (l.file().to_string(), l.line())).unwrap_or_default();
        if !file.contains("oxidize-pdf-core") {
            // panic raised inside std or a dependency: name the library frame that called it
            // (not cached: one std location, e.g. Iterator::sum, serves many library callers)
            let fr = first_library_frame();
            LAST_FRAME.with(|p| *p.borrow_mut() = Some(fr));
        } else {
            LAST_FRAME.with(|p| *p.borrow_mut() = None);
        }
        LAST_PANIC.with(|p| *p.borrow_mut() = Some((msg, file, line)));
    }));
}

/// Name of the function whose body contains `line` of `file` (nearest preceding `fn`). When
/// the text of the panicking line occurs more than once between the `fn` line and `line`,
/// "#k" (k = which occurrence) is appended, so that two identical expressions in one
/// function are still two sites, without depending on line numbers.
fn enclosing_fn(file: &str, line: u32) -> String {
    let k = (file.to_string(), line);
    if let Some(f) = FN_CACHE.with(|c| c.borrow().get(&k).cloned()) {
        return f;
    }
    let mut cands: Vec<std::path::PathBuf> = vec![file.into()];
    cands.push(vx::repo_root().join("oxidize-pdf-core").join(file));
    cands.push(vx::repo_root().join(file));
    let mut name = "unknown".to_string();
    for c in cands {
        if let Ok(src) = std::fs::read_to_string(&c) {
            let lines: Vec<&str> = src.lines().collect();
            let at = (line as usize).min(lines.len());
            let mut i = at;
            while i > 0 {
                i -= 1;
                let t = lines[i].trim_start();
                let t2 = t
                    .trim_start_matches("pub(crate) ")
                    .trim_start_matches("pub(super) ")
                    .trim_start_matches("pub ")
                    .trim_start_matches("const ")
                    .trim_start_matches("unsafe ")
                    .trim_start_matches("async ");
                if let Some(rest) = t2.strip_prefix("fn ") {
                    name = rest.chars().take_while(|c| c.is_ascii_alphanumeric() || *c == '_').collect();
                    if at >= 1 {
                        // which expression of the function: a short hash of the line's text
                        // (stable against line shifts) and, for repeated identical lines, which one
                        let text = lines[at - 1].trim();
                        let occ = lines[i..at].iter().filter(|l| l.trim() == text).count();
                        name.push_str(&format!("@{:04x}", vx::h64(text) & 0xffff));
                        if occ > 1 {
                            name.push_str(&format!("#{occ}"));
                        }
                    }
                    break;
                }
            }
            break;
        }
    }
    FN_CACHE.with(|c| c.borrow_mut().insert(k, name.clone()));
    name
}

fn msg_class(msg: &str) -> String {
    let mut o = String::new();
    let mut in_num = false;
    for ch in msg.chars() {
        if ch.is_ascii_digit() {
            if !in_num {
                o.push('N');
            }
            in_num = true;
        } else {
            in_num = false;
            o.push(if ch.is_ascii_alphanumeric() || " _:-.;()".contains(ch) { ch } else { '_' });
        }
        if o.len() >= 48 {
            break;
        }
    }
    o.trim().to_string()
}

/// Run `f`; a panic becomes `Err((key, detail))`.
fn guard_case<T>(f: impl FnOnce() -> T) -> Result<T, (String, String)> {
    match std::panic::catch_unwind(std::panic::AssertUnwindSafe(f)) {
        Ok(v) => Ok(v),
        Err(_) => {
            let (msg, file, line) = LAST_PANIC.with(|p| p.borrow_mut().take()).unwrap_or_else(|| ("panic".into(), String::new(), 0));
            let frame = LAST_FRAME.with(|p| p.borrow_mut().take());
            let base = file.rsplit('/').next().unwrap_or("").to_string();
            let key = match frame {
                Some(fr) => format!("C01/panic:{}:{}:{}", fr.split("::").next().unwrap_or("lib"), fr.rsplit("::").next().unwrap_or("unknown"), msg_class(&msg)),
                None => format!("C01/panic:{}:{}:{}", base, enclosing_fn(&file, line), msg_class(&msg)),
            };
            let site = file.rsplit("oxidize-pdf-core/").next().unwrap_or(&file).to_string();
            Err((key, format!("{} @ {}:{}", vx::one_line(&msg, 200), site, line)))
        }
    }
}

// =====================================================================================
// PDF token scanner: numeric slots outside binary stream data
// =====================================================================================

fn is_ws(c: u8) -> bool {
    matches!(c, 0 | 9 | 10 | 12 | 13 | 32)
}
fn is_delim(c: u8) -> bool {
    matches!(c, b'(' | b')' | b'<' | b'>' | b'[' | b']' | b'{' | b'}' | b'/' | b'%')
}
fn is_num_tok(t: &[u8]) -> bool {
    let t = if !t.is_empty() && (t[0] == b'+' || t[0] == b'-') { &t[1..] } else { t };
    let mut digits = 0;
    let mut dots = 0;
    for &c in t {
        if c.is_ascii_digit() {
            digits += 1;
        } else if c == b'.' {
            dots += 1;
        } else {
            return false;
        }
    }
    digits >= 1 && dots <= 1
}

#[derive(Clone, Copy, PartialEq, Eq, Debug)]
enum Kind {
    Plain,
    Version,
    ObjNum,
    ObjGen,
    RefNum,
    RefGen,
    XrefHdr,
    XrefOff,
    XrefGen,
    StartXref,
}

#[derive(Clone, Debug)]
struct Slot {
    a: usize,
    b: usize,
    group: u32,
    key: String,
    kind: Kind,
    stream: Option<usize>,
}

#[derive(Clone, Debug)]
struct StreamInfo {
    group: u32,
    a: usize,
    b: usize,
    len_slot: Option<usize>,
    filtered: bool,
    type_name: String,
}

#[derive(Clone, Debug, Default)]
struct Scan {
    slots: Vec<Slot>,
    streams: Vec<StreamInfo>,
    group_start: Vec<usize>,
    group_label: Vec<String>,
}

#[derive(Default)]
struct ScanState {
    group: u32,
    last_key: String,
    prev_key: String,
    in_xref: bool,
    pending_startxref: bool,
    saw_filter: bool,
    len_slot: Option<usize>,
    type_name: String,
}

fn find_sub(h: &[u8], n: &[u8], from: usize) -> Option<usize> {
    if n.is_empty() || h.len() < n.len() || from > h.len() - n.len() {
        return None;
    }
    (from..=h.len() - n.len()).find(|&i| &h[i..i + n.len()] == n)
}

fn scan_file(bytes: &[u8]) -> Scan {
    let mut sc = Scan::default();
    sc.group_label.push("file".into());
    sc.group_start.push(0);
    if bytes.starts_with(b"%PDF-") {
        let mut e = 5;
        while e < bytes.len() && (bytes[e].is_ascii_digit() || bytes[e] == b'.') {
            e += 1;
        }
        if e > 5 {
            sc.slots.push(Slot { a: 5, b: e, group: 0, key: "%PDF-".into(), kind: Kind::Version, stream: None });
        }
    }
    let mut st = ScanState::default();
    scan_range(bytes, 0, bytes.len(), true, &mut st, &mut sc, None);
    sc
}

fn scan_range(bytes: &[u8], from: usize, to: usize, structural: bool, st: &mut ScanState, sc: &mut Scan, stream: Option<usize>) {
    let mut i = from;
    while i < to {
        let c = bytes[i];
        if is_ws(c) {
            i += 1;
            continue;
        }
        match c {
            b'%' => {
                while i < to && bytes[i] != b'\n' && bytes[i] != b'\r' {
                    i += 1;
                }
            }
            b'(' => {
                let mut depth = 1;
                i += 1;
                while i < to && depth > 0 {
                    match bytes[i] {
                        b'\\' => i += 2,
                        b'(' => {
                            depth += 1;
                            i += 1
                        }
                        b')' => {
                            depth -= 1;
                            i += 1
                        }
                        _ => i += 1,
                    }
                }
                st.last_key.clear();
            }
            b'<' => {
                if i + 1 < to && bytes[i + 1] == b'<' {
                    i += 2;
                } else {
                    while i < to && bytes[i] != b'>' {
                        i += 1;
                    }
                    i += 1;
                }
                st.last_key.clear();
            }
            b'>' => {
                i += if i + 1 < to && bytes[i + 1] == b'>' { 2 } else { 1 };
                st.last_key.clear();
            }
            b'[' | b']' => i += 1,
            b'{' | b'}' | b')' => {
                i += 1;
                st.last_key.clear();
            }
            b'/' => {
                let s = i + 1;
                let mut j = s;
                while j < to && !is_ws(bytes[j]) && !is_delim(bytes[j]) {
                    j += 1;
                }
                let name = String::from_utf8_lossy(&bytes[s..j]).to_string();
                if structural {
                    if st.last_key == "Type" {
                        st.type_name = name.clone();
                    }
                    if name == "Filter" {
                        st.saw_filter = true;
                    }
                }
                st.last_key = name;
                i = j;
            }
            _ => {
                let s = i;
                let mut j = i;
                while j < to && !is_ws(bytes[j]) && !is_delim(bytes[j]) {
                    j += 1;
                }
                let tok = &bytes[s..j];
                if is_num_tok(tok) {
                    let kind = if st.pending_startxref {
                        Kind::StartXref
                    } else if st.in_xref {
                        Kind::XrefHdr
                    } else {
                        Kind::Plain
                    };
                    st.pending_startxref = false;
                    let idx = sc.slots.len();
                    sc.slots.push(Slot { a: s, b: j, group: st.group, key: st.last_key.clone(), kind, stream });
                    if structural && st.last_key == "Length" && kind == Kind::Plain && st.len_slot.is_none() {
                        st.len_slot = Some(idx);
                    }
                } else if structural {
                    let n = sc.slots.len();
                    match tok {
                        b"obj" if n >= 2 => {
                            let g = sc.group_label.len() as u32;
                            let label = format!(
                                "obj {} {}",
                                String::from_utf8_lossy(&bytes[sc.slots[n - 2].a..sc.slots[n - 2].b]),
                                String::from_utf8_lossy(&bytes[sc.slots[n - 1].a..sc.slots[n - 1].b])
                            );
                            sc.group_label.push(label);
                            sc.group_start.push(sc.slots[n - 2].a);
                            sc.slots[n - 2].group = g;
                            sc.slots[n - 2].kind = Kind::ObjNum;
                            sc.slots[n - 1].group = g;
                            sc.slots[n - 1].kind = Kind::ObjGen;
                            st.group = g;
                            st.saw_filter = false;
                            st.len_slot = None;
                            st.type_name.clear();
                        }
                        b"endobj" => st.group = 0,
                        b"R" if n >= 2 && sc.slots[n - 1].kind == Kind::Plain && sc.slots[n - 2].kind == Kind::Plain => {
                            sc.slots[n - 2].kind = Kind::RefNum;
                            sc.slots[n - 1].kind = Kind::RefGen;
                        }
                        b"xref" => {
                            let g = sc.group_label.len() as u32;
                            sc.group_label.push(format!("xref@{s}"));
                            sc.group_start.push(s);
                            st.group = g;
                            st.in_xref = true;
                        }
                        b"n" | b"f" if st.in_xref && n >= 2 => {
                            sc.slots[n - 2].kind = Kind::XrefOff;
                            sc.slots[n - 1].kind = Kind::XrefGen;
                            let flag = String::from_utf8_lossy(tok).to_string();
                            sc.slots[n - 2].key = flag.clone();
                            sc.slots[n - 1].key = flag;
                        }
                        b"trailer" => {
                            st.in_xref = false;
                            let g = sc.group_label.len() as u32;
                            sc.group_label.push(format!("trailer@{s}"));
                            sc.group_start.push(s);
                            st.group = g;
                        }
                        b"startxref" => {
                            st.in_xref = false;
                            st.pending_startxref = true;
                            if st.group == 0 {
                                let g = sc.group_label.len() as u32;
                                sc.group_label.push(format!("startxref@{s}"));
                                sc.group_start.push(s);
                                st.group = g;
                            }
                        }
                        b"stream" => {
                            let mut ds = j;
                            if ds < to && bytes[ds] == b'\r' {
                                ds += 1;
                            }
                            if ds < to && bytes[ds] == b'\n' {
                                ds += 1;
                            }
                            let mut de = None;
                            if let Some(ls) = st.len_slot {
                                if let Ok(l) = String::from_utf8_lossy(&bytes[sc.slots[ls].a..sc.slots[ls].b]).parse::<usize>() {
                                    let e = ds + l;
                                    if e <= to {
                                        let mut k = e;
                                        while k < to && (bytes[k] == b'\r' || bytes[k] == b'\n') {
                                            k += 1;
                                        }
                                        if bytes[k..to].starts_with(b"endstream") {
                                            de = Some(e);
                                        }
                                    }
                                }
                            }
                            let es = match de {
                                Some(e) => find_sub(&bytes[..to], b"endstream", e).unwrap_or(to),
                                None => find_sub(&bytes[..to], b"endstream", ds).unwrap_or(to),
                            };
                            let de = de.unwrap_or_else(|| {
                                let mut e = es;
                                if e > ds && bytes[e - 1] == b'\n' {
                                    e -= 1;
                                }
                                if e > ds && bytes[e - 1] == b'\r' {
                                    e -= 1;
                                }
                                e
                            });
                            let k = sc.streams.len();
                            sc.streams.push(StreamInfo { group: st.group, a: ds, b: de, len_slot: st.len_slot, filtered: st.saw_filter, type_name: st.type_name.clone() });
                            if !st.saw_filter {
                                let mut inner = ScanState { group: st.group, ..Default::default() };
                                scan_range(bytes, ds, de, false, &mut inner, sc, Some(k));
                            }
                            i = (es + 9).min(to);
                            st.last_key.clear();
                            continue;
                        }
                        _ => {}
                    }
                    st.last_key.clear();
                } else {
                    st.last_key.clear();
                }
                i = j;
            }
        }
    }
}

// =====================================================================================
// seed analysis: offset-bearing tokens, xref-stream payloads, object-stream payloads
// =====================================================================================

#[derive(Clone, Debug)]
struct OffTok {
    slot: usize,
    target: usize,
    fixed10: bool,
}

#[derive(Clone, Debug)]
struct XrefStm {
    stream: usize,
    w: [usize; 3],
    payload: Vec<u8>,
    flate: bool,
    pred: Option<rf::PredParams>,
}

impl XrefStm {
    fn row(&self) -> usize {
        self.w[0] + self.w[1] + self.w[2]
    }
    fn rows(&self) -> usize {
        if self.row() == 0 {
            0
        } else {
            self.payload.len() / self.row()
        }
    }
    fn field(&self, payload: &[u8], r: usize, f: usize) -> u64 {
        let off = r * self.row() + self.w[..f].iter().sum::<usize>();
        let mut v = 0u64;
        for k in 0..self.w[f] {
            v = (v << 8) | payload[off + k] as u64;
        }
        v
    }
    fn set_field(&self, payload: &mut [u8], r: usize, f: usize, v: u64) {
        let off = r * self.row() + self.w[..f].iter().sum::<usize>();
        let w = self.w[f];
        for k in 0..w {
            payload[off + k] = ((v >> (8 * (w - 1 - k))) & 0xff) as u8;
        }
    }
    fn encode(&self, payload: &[u8]) -> Vec<u8> {
        let d = match &self.pred {
            Some(p) if p.predictor >= 10 => rf::png_predict_encode(payload, p, &|_| 2),
            _ => payload.to_vec(),
        };
        if self.flate {
            rf::flate_encode(&d)
        } else {
            d
        }
    }
}

#[derive(Clone, Debug)]
struct ObjStmInfo {
    stream: usize,
    flate: bool,
    first: usize,
    first_slot: Option<usize>,
    payload: Vec<u8>,
    /// numeric tokens of the decoded payload (a, b)
    toks: Vec<(usize, usize)>,
    /// header pairs: token indices (num_tok, off_tok) and parsed offset
    pairs: Vec<(usize, usize, usize)>,
}

struct Seed {
    name: String,
    bytes: Vec<u8>,
    scan: Scan,
    offtoks: Vec<OffTok>,
    xrefstms: Vec<XrefStm>,
    objstms: Vec<ObjStmInfo>,
    max_obj: u32,
    expect_pages: u32,
    origin: &'static str,
    values: Vec<Vec<Vec<u8>>>,
}

fn tok_str(bytes: &[u8], s: &Slot) -> String {
    String::from_utf8_lossy(&bytes[s.a..s.b]).to_string()
}

fn analyse(name: &str, bytes: Vec<u8>, expect_pages: u32, origin: &'static str) -> Seed {
    let scan = scan_file(&bytes);
    let mut offtoks = Vec::new();
    let mut max_obj = 0u32;
    for (i, s) in scan.slots.iter().enumerate() {
        let v = tok_str(&bytes, s).parse::<usize>().ok();
        match s.kind {
            Kind::XrefOff if s.key == "n" => {
                if let Some(t) = v {
                    offtoks.push(OffTok { slot: i, target: t, fixed10: s.b - s.a == 10 });
                }
            }
            Kind::StartXref => {
                if let Some(t) = v {
                    offtoks.push(OffTok { slot: i, target: t, fixed10: false });
                }
            }
            Kind::Plain if s.stream.is_none() && (s.key == "Prev" || s.key == "XRefStm") => {
                if let Some(t) = v {
                    offtoks.push(OffTok { slot: i, target: t, fixed10: false });
                }
            }
            Kind::ObjNum => {
                if let Some(t) = v {
                    max_obj = max_obj.max(t as u32);
                }
            }
            _ => {}
        }
    }
    let mut xrefstms = Vec::new();
    let mut objstms = Vec::new();
    for (k, s) in scan.streams.iter().enumerate() {
        if s.type_name != "XRef" && s.type_name != "ObjStm" {
            continue;
        }
        let start = scan.group_start[s.group as usize];
        let mut p = refpdf::syntax::Parser::new(&bytes, start);
        let so = match p.indirect_object(&|o| o.as_int()) {
            Ok((_, _, Obj::Stream(so))) => so,
            other => {
                eprintln!("C01 analyse({name}): object at {start} is not a stream: {:?}", other.map(|x| x.2.type_name()));
                continue;
            }
        };
        let payload = match rf::decode_stream(&so.dict, &so.data) {
            Ok(p) => p,
            Err(e) => {
                eprintln!("C01 analyse({name}): cannot decode stream at {start}: {e}");
                continue;
            }
        };
        let flate = so.dict.get("Filter").is_some();
        if s.type_name == "XRef" {
            let w: Vec<usize> = so.dict.get("W").and_then(|o| o.as_array()).map(|a| a.iter().map(|x| x.as_int().unwrap_or(0).max(0) as usize).collect()).unwrap_or_default();
            if w.len() != 3 {
                continue;
            }
            let parms = so.dict.get("DecodeParms").and_then(|o| o.as_dict()).cloned();
            let pp = rf::PredParams::from_dict(parms.as_ref());
            xrefstms.push(XrefStm { stream: k, w: [w[0], w[1], w[2]], payload, flate, pred: if pp.predictor >= 10 { Some(pp) } else { None } });
        } else {
            let first = so.dict.get("First").and_then(|o| o.as_int()).unwrap_or(0).max(0) as usize;
            let n = so.dict.get("N").and_then(|o| o.as_int()).unwrap_or(0).max(0) as usize;
            let first_slot = scan.slots.iter().position(|sl| sl.group == s.group && sl.key == "First" && sl.stream.is_none());
            let mut inner = Scan::default();
            inner.group_label.push("objstm".into());
            inner.group_start.push(0);
            let mut st = ScanState::default();
            scan_range(&payload, 0, payload.len(), false, &mut st, &mut inner, None);
            let toks: Vec<(usize, usize)> = inner.slots.iter().map(|x| (x.a, x.b)).collect();
            let mut pairs = Vec::new();
            for i in 0..n {
                if 2 * i + 1 < toks.len() && toks[2 * i + 1].1 <= first {
                    let off = String::from_utf8_lossy(&payload[toks[2 * i + 1].0..toks[2 * i + 1].1]).parse::<usize>().unwrap_or(0);
                    pairs.push((2 * i, 2 * i + 1, off));
                }
            }
            objstms.push(ObjStmInfo { stream: k, flate, first, first_slot, payload, toks, pairs });
        }
    }
    let mut seed = Seed { name: name.to_string(), bytes, scan, offtoks, xrefstms, objstms, max_obj, expect_pages, origin, values: Vec::new() };
    seed.values = (0..seed.scan.slots.len()).map(|i| slot_values(&seed, i)).collect();
    seed
}

// ------------------------------------------------------------------ value catalogues

pub const CAT: [&str; 28] = [
    "-9223372036854775808",
    "-4294967297",
    "-2147483648",
    "-1",
    "0",
    "1",
    "2",
    "255",
    "65535",
    "65536",
    "2147483647",
    "2147483648",
    "4294967295",
    "4294967296",
    "9007199254740992",
    "9223372036854775807",
    "9223372036854775808",
    "18446744073709551616",
    "100000000000000000000",
    "1e400",
    "-0.0",
    ".5",
    "00000000000000000000007",
    "+1",
    "1.",
    "-",
    "99999999999999999999999999999999999999999.9",
    "3.4028236e38",
];

/// quick tier: the values that sit on a type boundary
pub const QUICK_CAT: [&str; 14] = ["-9223372036854775808", "-2147483648", "-1", "0", "1", "255", "65536", "2147483647", "4294967295", "4294967296", "9223372036854775807", "18446744073709551616", "1e400", ".5"];

pub const PAIR_CAT: [&str; 10] = ["-2147483648", "-1", "0", "1", "255", "65536", "2147483647", "4294967295", "4294967296", "9223372036854775807"];

/// tier switch for the catalogue (set once by `Space::new` before any seed is analysed)
static THOROUGH: AtomicBool = AtomicBool::new(false);

fn slot_values(seed: &Seed, i: usize) -> Vec<Vec<u8>> {
    let s = &seed.scan.slots[i];
    let old = tok_str(&seed.bytes, s);
    let cat: &[&str] = if THOROUGH.load(Ordering::Relaxed) { &CAT } else { &QUICK_CAT };
    let mut v: Vec<Vec<u8>> = cat.iter().map(|x| x.as_bytes().to_vec()).collect();
    let mut push = |x: String, v: &mut Vec<Vec<u8>>| {
        let b = x.into_bytes();
        if !v.contains(&b) {
            v.push(b);
        }
    };
    if let Ok(o) = old.parse::<i64>() {
        push((o - 1).to_string(), &mut v);
        push((o + 1).to_string(), &mut v);
    }
    let width = match s.kind {
        Kind::XrefOff => Some(10),
        Kind::XrefGen => Some(5),
        _ => None,
    };
    if let Some(w) = width {
        for c in cat.iter() {
            if let Ok(n) = c.parse::<u64>() {
                let p = format!("{:0w$}", n, w = w);
                if p.len() == w {
                    push(p, &mut v);
                }
            }
        }
        push("9".repeat(w), &mut v);
    }
    if matches!(s.kind, Kind::RefNum | Kind::ObjNum) {
        for k in 0..=seed.max_obj + 1 {
            push(k.to_string(), &mut v);
        }
    }
    v.retain(|x| x.as_slice() != old.as_bytes());
    v
}

fn width_values(w: usize, file_len: usize) -> Vec<u64> {
    if w == 0 {
        return vec![];
    }
    let max = if w >= 8 { u64::MAX } else { (1u64 << (8 * w)) - 1 };
    let mut v = vec![0u64, 1, 2, 3, 255.min(max), max, max - 1, max / 2, max / 2 + 1, (file_len as u64).min(max), (file_len as u64 + 1).min(max), (file_len as u64).saturating_sub(1).min(max)];
    v.sort();
    v.dedup();
    v
}

// ------------------------------------------------------------------ edits and offset fix-ups

#[derive(Clone, PartialEq, Eq, Debug)]
struct Edit {
    a: usize,
    b: usize,
    new: Vec<u8>,
}

fn apply_edits(bytes: &[u8], edits: &[Edit]) -> Vec<u8> {
    let mut es: Vec<&Edit> = edits.iter().collect();
    es.sort_by_key(|e| (e.a, e.b));
    let mut out = Vec::with_capacity(bytes.len() + 64);
    let mut pos = 0;
    for e in es {
        if e.a < pos {
            continue; // overlapping edit: the earlier one wins
        }
        out.extend_from_slice(&bytes[pos..e.a]);
        out.extend_from_slice(&e.new);
        pos = e.b;
    }
    out.extend_from_slice(&bytes[pos..]);
    out
}

fn shift_map(edits: &[Edit], pos: usize) -> usize {
    let mut d: isize = 0;
    for e in edits {
        if e.b <= pos && !(e.a == e.b && e.a == pos) {
            d += e.new.len() as isize - (e.b - e.a) as isize;
        } else if e.a == e.b && e.a == pos {
            // insertion exactly at a target: the target moves behind the inserted bytes
            d += e.new.len() as isize;
        }
    }
    (pos as isize + d).max(0) as usize
}

fn overlaps(x: &Edit, y: &Edit) -> bool {
    x.a < y.b && y.a < x.b || (x.a == y.a && x.b == y.b)
}

/// Apply `base` edits and then repair everything that only records *where things are*:
/// /Length of the streams edited inside, xref-table offsets, startxref, /Prev, /XRefStm and
/// the offsets inside xref-stream payloads. Slots in `skip` are the ones being mutated.
fn with_fixups(seed: &Seed, base: &[Edit], skip: &[usize]) -> Vec<u8> {
    let sc = &seed.scan;
    let mut fix: Vec<Edit> = Vec::new();
    for _ in 0..6 {
        let mut all: Vec<Edit> = base.to_vec();
        all.extend(fix.iter().cloned());
        let mut nf: Vec<Edit> = Vec::new();
        for s in sc.streams.iter() {
            let Some(ls) = s.len_slot else { continue };
            if skip.contains(&ls) {
                continue;
            }
            let mut d: isize = 0;
            for e in &all {
                if e.a >= s.a && e.b <= s.b {
                    d += e.new.len() as isize - (e.b - e.a) as isize;
                }
            }
            if d != 0 {
                let old = (s.b - s.a) as isize;
                nf.push(Edit { a: sc.slots[ls].a, b: sc.slots[ls].b, new: (old + d).max(0).to_string().into_bytes() });
            }
        }
        for ot in &seed.offtoks {
            if skip.contains(&ot.slot) {
                continue;
            }
            let nt = shift_map(&all, ot.target);
            if nt != ot.target {
                let sl = &sc.slots[ot.slot];
                let txt = if ot.fixed10 { format!("{nt:010}") } else { nt.to_string() };
                nf.push(Edit { a: sl.a, b: sl.b, new: txt.into_bytes() });
            }
        }
        for xs in &seed.xrefstms {
            let s = &sc.streams[xs.stream];
            if base.iter().any(|e| e.a >= s.a && e.b <= s.b) {
                continue;
            }
            let mut rows = xs.payload.clone();
            let mut changed = false;
            for r in 0..xs.rows() {
                let ty = if xs.w[0] == 0 { 1 } else { xs.field(&rows, r, 0) };
                if ty == 1 && xs.w[1] > 0 {
                    let off = xs.field(&rows, r, 1) as usize;
                    let nt = shift_map(&all, off);
                    if nt != off {
                        xs.set_field(&mut rows, r, 1, nt as u64);
                        changed = true;
                    }
                }
            }
            if changed {
                nf.push(Edit { a: s.a, b: s.b, new: xs.encode(&rows) });
            }
        }
        nf.retain(|f| !base.iter().any(|b| overlaps(f, b)));
        if nf == fix {
            break;
        }
        fix = nf;
    }
    let mut all: Vec<Edit> = base.to_vec();
    all.extend(fix);
    apply_edits(&seed.bytes, &all)
}

// =====================================================================================
// seed files
// =====================================================================================

fn nm(s: &str) -> Obj {
    Obj::name(s)
}
fn int(v: i64) -> Obj {
    Obj::Int(v)
}
fn rf_(n: u32) -> Obj {
    Obj::Ref(n, 0)
}
fn arr(v: Vec<Obj>) -> Obj {
    Obj::Array(v)
}
fn dict(e: Vec<(&str, Obj)>) -> Obj {
    Obj::dict(e)
}
fn helv() -> Obj {
    dict(vec![("Type", nm("Font")), ("Subtype", nm("Type1")), ("BaseFont", nm("Helvetica")), ("Encoding", nm("WinAnsiEncoding"))])
}
fn resources() -> Obj {
    dict(vec![("Font", dict(vec![("F1", helv())]))])
}
fn media() -> Obj {
    arr(vec![int(0), int(0), int(612), int(792)])
}
fn page(parent: u32, contents: u32, extra: Vec<(&str, Obj)>) -> Obj {
    let mut e = vec![("Type", nm("Page")), ("Parent", rf_(parent)), ("MediaBox", media()), ("Resources", resources()), ("Contents", rf_(contents))];
    e.extend(extra);
    dict(e)
}
fn catalog(pages: u32) -> Obj {
    dict(vec![("Type", nm("Catalog")), ("Pages", rf_(pages))])
}
fn pages_node(kids: &[u32], count: i64, extra: Vec<(&str, Obj)>) -> Obj {
    let mut e = vec![("Type", nm("Pages")), ("Kids", arr(kids.iter().map(|k| rf_(*k)).collect())), ("Count", int(count))];
    e.extend(extra);
    dict(e)
}
fn stream(e: Vec<(&str, Obj)>, data: &[u8]) -> Obj {
    Obj::stream(e, data.to_vec())
}

const CONTENT_1: &[u8] = b"BT /F1 12 Tf 72 720 Td (Hello page 1) Tj 0 -14 Td (second line) Tj ET";
const CONTENT_2: &[u8] = b"q 1 0 0 1 10 10 cm 0.5 g 10 10 100 50 re f Q BT /F1 9.5 Tf 1 0 0 1 72 700 Tm [(A) -120 (B)] TJ T* (C) ' ET";

fn two_page_objects() -> Vec<(u32, Obj)> {
    vec![
        (1, catalog(2)),
        (2, pages_node(&[3, 5], 2, vec![])),
        (3, page(2, 4, vec![])),
        (4, stream(vec![], CONTENT_1)),
        (5, page(2, 6, vec![("Rotate", int(90))])),
        (6, stream(vec![], CONTENT_2)),
        (7, dict(vec![("Title", Obj::str(b"classic")), ("Producer", Obj::str(b"refpdf"))])),
    ]
}

fn build_one(objs: Vec<(u32, Obj)>, form: XrefForm, objstm: bool, pred: bool, info: Option<u32>) -> Vec<u8> {
    let mut r = Revision::new(form);
    r.xref_predictor = pred;
    for (n, o) in objs {
        if objstm && !matches!(o, Obj::Stream(_)) {
            r.in_objstm.insert(n);
        }
        r.add(n, o);
    }
    let mut fb = FileBuilder::new(1);
    fb.info = info.map(|n| (n, 0));
    fb.revisions.push(r);
    fb.build().bytes
}

fn seed_classic() -> Vec<u8> {
    build_one(two_page_objects(), XrefForm::Table, false, false, Some(7))
}

fn seed_xrefstm_objstm() -> Vec<u8> {
    build_one(two_page_objects(), XrefForm::Stream, true, true, Some(7))
}

fn seed_two_rev() -> Vec<u8> {
    let mut r1 = Revision::new(XrefForm::Table);
    r1.add(1, catalog(2));
    r1.add(2, pages_node(&[3], 1, vec![]));
    r1.add(3, page(2, 4, vec![]));
    r1.add(4, stream(vec![], CONTENT_1));
    r1.add(5, int(1));
    r1.add(6, int(2));
    let mut r2 = Revision::new(XrefForm::Table);
    r2.add(4, stream(vec![], b"BT /F1 10 Tf 50 500 Td (revised) Tj ET"));
    r2.add(5, int(7));
    r2.free.push((6, 1));
    let mut fb = FileBuilder::new(1);
    fb.revisions.push(r1);
    fb.revisions.push(r2);
    fb.build().bytes
}

fn seed_a85_lzw() -> Vec<u8> {
    let mut c = String::from("BT /F1 11 Tf 14 TL 72 740 Td\n");
    for k in 0..14 {
        c += &format!("(Line {k}: the quick brown fox {k}{k} jumps over) Tj T*\n");
    }
    c += "ET";
    let data = rf::ascii85_encode(&rf::lzw_encode(c.as_bytes(), false));
    let objs = vec![
        (1, catalog(2)),
        (2, pages_node(&[3], 1, vec![])),
        (3, page(2, 4, vec![])),
        (
            4,
            stream(
                vec![
                    ("Filter", arr(vec![nm("ASCII85Decode"), nm("LZWDecode")])),
                    ("DecodeParms", arr(vec![Obj::Null, dict(vec![("EarlyChange", int(0))])])),
                    ("Length", rf_(5)),
                ],
                &data,
            ),
        ),
        (5, int(data.len() as i64)),
    ];
    build_one(objs, XrefForm::Table, false, false, None)
}

fn seed_image_pred15() -> Vec<u8> {
    let mut raw = Vec::new();
    for y in 0..3u32 {
        for x in 0..4u32 {
            raw.extend_from_slice(&[(x * 60) as u8, (y * 100) as u8, ((x + y) * 30) as u8]);
        }
    }
    let p = rf::PredParams { predictor: 15, colors: 3, bpc: 8, columns: 4 };
    let enc = rf::flate_encode(&rf::png_predict_encode(&raw, &p, &|row| [1u8, 2, 4][row % 3]));
    let img = stream(
        vec![
            ("Type", nm("XObject")),
            ("Subtype", nm("Image")),
            ("Width", int(4)),
            ("Height", int(3)),
            ("ColorSpace", nm("DeviceRGB")),
            ("BitsPerComponent", int(8)),
            ("Filter", nm("FlateDecode")),
            ("DecodeParms", dict(vec![("Predictor", int(15)), ("Colors", int(3)), ("BitsPerComponent", int(8)), ("Columns", int(4))])),
        ],
        &enc,
    );
    let pg = dict(vec![
        ("Type", nm("Page")),
        ("Parent", rf_(2)),
        ("MediaBox", media()),
        ("Resources", dict(vec![("Font", dict(vec![("F1", helv())])), ("XObject", dict(vec![("Im1", rf_(5))]))])),
        ("Contents", rf_(4)),
    ]);
    let objs = vec![(1, catalog(2)), (2, pages_node(&[3], 1, vec![])), (3, pg), (4, stream(vec![], b"q 40 0 0 30 100 600 cm /Im1 Do Q BT /F1 12 Tf 72 500 Td (img) Tj ET")), (5, img)];
    build_one(objs, XrefForm::Table, false, false, None)
}

fn seed_nested_tree() -> Vec<u8> {
    let leaf = |parent: u32, contents: u32, extra: Vec<(&str, Obj)>| {
        let mut e = vec![("Type", nm("Page")), ("Parent", rf_(parent)), ("Contents", rf_(contents))];
        e.extend(extra);
        dict(e)
    };
    let objs = vec![
        (1, catalog(2)),
        (2, pages_node(&[3, 8], 3, vec![("MediaBox", media()), ("Resources", resources())])),
        (3, pages_node(&[4, 6], 2, vec![("Parent", rf_(2)), ("Rotate", int(90))])),
        (4, leaf(3, 5, vec![])),
        (5, stream(vec![], b"BT /F1 12 Tf 72 720 Td (leaf one) Tj ET")),
        (6, leaf(3, 7, vec![("Rotate", int(180)), ("CropBox", arr(vec![int(10), int(10), Obj::Real(300.5), int(400)]))])),
        (7, stream(vec![], b"BT /F1 12 Tf 72 720 Td (leaf two) Tj ET")),
        (8, leaf(2, 9, vec![("UserUnit", Obj::Real(1.5))])),
        (9, stream(vec![], b"BT /F1 12 Tf 72 720 Td (leaf three) Tj ET")),
    ];
    build_one(objs, XrefForm::Table, false, false, None)
}

/// Replace the unique occurrence of `placeholder` by `raw` (same length).
fn raw_patch(bytes: &mut Vec<u8>, placeholder: &[u8], raw: &[u8]) {
    assert_eq!(placeholder.len(), raw.len(), "raw_patch length");
    let p = find_sub(bytes, placeholder, 0).expect("placeholder present");
    bytes[p..p + raw.len()].copy_from_slice(raw);
}
fn ph_str(fill: u8, raw: &[u8]) -> (Obj, Vec<u8>) {
    // raw includes its delimiters; the placeholder is a literal string of the same length
    let body = vec![fill; raw.len() - 2];
    let mut text = vec![b'('];
    text.extend_from_slice(&body);
    text.push(b')');
    (Obj::Str(body), text)
}

fn seed_strings_names() -> Vec<u8> {
    let title: &[u8] = b"(\\101\\102C \\(nested (parens)\\) \\n\\r\\t\\b\\f \\\\ \\7\\53x \\400)";
    let author: &[u8] = b"<48656c6C6F20 7>";
    let subject: &[u8] = b"(line\\\ncontinued \\q)";
    let (t_obj, t_ph) = ph_str(b'X', title);
    let (a_obj, a_ph) = ph_str(b'Y', author);
    let (s_obj, s_ph) = ph_str(b'Z', subject);
    let content: &[u8] = b"BT /F1 12 Tf 72 700 Td (\\101\\102\\7\\53x) Tj <4142 43> Tj [(a\\)) -120 <44> 30.5 (\\\\)] TJ (q) ' 1 2 (r) \" ET";
    let objs = vec![
        (1, catalog(2)),
        (2, pages_node(&[3], 1, vec![])),
        (3, page(2, 4, vec![])),
        (4, stream(vec![], content)),
        (5, dict(vec![("Title", t_obj), ("Author", a_obj), ("Subject", s_obj)])),
        (6, dict(vec![("A B", nm("C/D")), ("E#", int(1)), ("\u{1}x", arr(vec![nm("a(b"), nm("")]))])),
    ];
    let mut b = build_one(objs, XrefForm::Table, false, false, Some(5));
    raw_patch(&mut b, &t_ph, title);
    raw_patch(&mut b, &a_ph, author);
    raw_patch(&mut b, &s_ph, subject);
    b
}

const TOUNICODE: &[u8] = b"/CIDInit /ProcSet findresource begin\n12 dict begin\nbegincmap\n/CIDSystemInfo << /Registry (Adobe) /Ordering (UCS) /Supplement 0 >> def\n/CMapName /Adobe-Identity-UCS def\n/CMapType 2 def\n1 begincodespacerange\n<0000> <FFFF>\nendcodespacerange\n2 beginbfchar\n<0001> <0041>\n<0005> <00660069>\nendbfchar\n2 beginbfrange\n<0002> <0003> <0042>\n<0004> <0004> [<0044>]\nendbfrange\nendcmap\nCMapName currentdict /CMap defineresource pop\nend\nend";

fn seed_type0() -> Vec<u8> {
    let font = dict(vec![("Type", nm("Font")), ("Subtype", nm("Type0")), ("BaseFont", nm("ABCDEF+Test")), ("Encoding", nm("Identity-H")), ("DescendantFonts", arr(vec![rf_(6)])), ("ToUnicode", rf_(7))]);
    let cid = dict(vec![
        ("Type", nm("Font")),
        ("Subtype", nm("CIDFontType2")),
        ("BaseFont", nm("ABCDEF+Test")),
        ("CIDSystemInfo", dict(vec![("Registry", Obj::str(b"Adobe")), ("Ordering", Obj::str(b"Identity")), ("Supplement", int(0))])),
        ("DW", int(1000)),
        ("W", arr(vec![int(1), arr(vec![int(500), int(600)]), int(3), int(5), int(700)])),
        ("FontDescriptor", rf_(8)),
    ]);
    let fd = dict(vec![
        ("Type", nm("FontDescriptor")),
        ("FontName", nm("ABCDEF+Test")),
        ("Flags", int(4)),
        ("FontBBox", arr(vec![int(-100), int(-200), int(1000), int(900)])),
        ("ItalicAngle", int(0)),
        ("Ascent", int(800)),
        ("Descent", int(-200)),
        ("CapHeight", int(700)),
        ("StemV", int(80)),
    ]);
    let pg = dict(vec![("Type", nm("Page")), ("Parent", rf_(2)), ("MediaBox", media()), ("Resources", dict(vec![("Font", dict(vec![("F1", rf_(5))]))])), ("Contents", rf_(4))]);
    let objs = vec![
        (1, catalog(2)),
        (2, pages_node(&[3], 1, vec![])),
        (3, pg),
        (4, stream(vec![], b"BT /F1 12 Tf 72 700 Td <00010002> Tj [<0003> -200 <00040005>] TJ ET")),
        (5, font),
        (6, cid),
        (7, stream(vec![], TOUNICODE)),
        (8, fd),
    ];
    build_one(objs, XrefForm::Table, false, false, None)
}

/// Hybrid-reference file (ISO 32000-1 7.5.8.4): classic table + /XRefStm; object 7 lives in
/// object stream 8 and is listed only in the (uncompressed) xref stream 9.
fn seed_hybrid() -> Vec<u8> {
    let objs: Vec<(u32, Obj)> = vec![
        (1, catalog(2)),
        (2, pages_node(&[3], 1, vec![])),
        (3, page(2, 4, vec![])),
        (4, stream(vec![], CONTENT_1)),
        (5, int(5)),
        (6, int(6)),
    ];
    let member = refpdf::syntax::to_bytes(&dict(vec![("Title", Obj::str(b"hybrid")), ("Producer", Obj::str(b"refpdf"))]));
    let mut osd = b"7 0 ".to_vec();
    let first = osd.len();
    osd.extend_from_slice(&member);
    osd.push(b'\n');
    let objstm = stream(vec![("Type", nm("ObjStm")), ("N", int(1)), ("First", int(first as i64))], &osd);
    let mut out: Vec<u8> = b"%PDF-1.5\n%\xE2\xE3\xCF\xD3\n".to_vec();
    let mut offs: BTreeMap<u32, usize> = BTreeMap::new();
    let put = |n: u32, o: &Obj, out: &mut Vec<u8>, offs: &mut BTreeMap<u32, usize>| {
        offs.insert(n, out.len());
        out.extend_from_slice(format!("{n} 0 obj\n").as_bytes());
        write_obj(o, out);
        out.extend_from_slice(b"\nendobj\n");
    };
    for (n, o) in &objs {
        put(*n, o, &mut out, &mut offs);
    }
    put(8, &objstm, &mut out, &mut offs);
    // xref stream: one entry, object 7 = type 2 in stream 8 at index 0; W [1 2 1]
    let xs = Obj::Stream(Box::new(refpdf::syntax::StreamObj {
        dict: {
            let mut d = refpdf::syntax::Dict::new();
            d.set("Type", nm("XRef"));
            d.set("Size", int(10));
            d.set("W", arr(vec![int(1), int(2), int(1)]));
            d.set("Index", arr(vec![int(7), int(1)]));
            d.set("Root", rf_(1));
            d.set("Info", rf_(7));
            d
        },
        data: vec![2, 0, 8, 0],
    }));
    put(9, &xs, &mut out, &mut offs);
    let xref_at = out.len();
    out.extend_from_slice(b"xref\n0 7\n");
    out.extend_from_slice(b"0000000000 65535 f \n");
    for n in 1..=6u32 {
        out.extend_from_slice(format!("{:010} 00000 n \n", offs[&n]).as_bytes());
    }
    out.extend_from_slice(b"8 2\n");
    for n in 8..=9u32 {
        out.extend_from_slice(format!("{:010} 00000 n \n", offs[&n]).as_bytes());
    }
    out.extend_from_slice(format!("trailer\n<< /Size 10 /Root 1 0 R /Info 7 0 R /XRefStm {} >>\nstartxref\n{}\n%%EOF\n", offs[&9], xref_at).as_bytes());
    out
}

fn seed_rc4_fixture() -> Option<Vec<u8>> {
    std::fs::read(vx::repo_root().join("oxidize-pdf-core/tests/fixtures/interop_qpdf_rc4-40_empty.pdf")).ok()
}

/// A document written by the library's own writer (xref stream, Flate-compressed content).
/// Dates are overwritten with a constant so that the bytes do not depend on the clock.
fn seed_lib_writer() -> Option<Vec<u8>> {
    let r = std::panic::catch_unwind(|| -> Option<Vec<u8>> {
        use oxidize_pdf::{Document, Font, Page};
        let mut doc = Document::new();
        doc.set_title("lib");
        let mut p = Page::a4();
        p.text().set_font(Font::Helvetica, 12.0).at(72.0, 720.0).write("Written by the library").ok()?;
        p.graphics().rect(50.0, 50.0, 100.0, 40.0).fill();
        doc.add_page(p);
        doc.enable_xref_streams(true);
        let mut b = doc.to_bytes().ok()?;
        let mut i = 0;
        while let Some(p) = find_sub(&b, b"(D:", i) {
            let mut k = p + 3;
            let mut n = 0;
            while k < b.len() && b[k].is_ascii_digit() && n < 14 {
                b[k] = b"20240101000000"[n];
                k += 1;
                n += 1;
            }
            i = k;
        }
        Some(b)
    });
    r.ok().flatten()
}

const ORIGINS: [&str; 5] = ["refpdf", "refpdf+raw", "hand-assembled", "fixture interop_qpdf_rc4-40_empty.pdf (library writer + qpdf)", "oxidize-pdf Document::to_bytes"];

/// Seeds are built once by the supervisor and handed to the workers as a file, so that a
/// respawned worker only has to re-scan them.
fn write_seed_cache(path: &std::path::Path, seeds: &[Seed]) {
    let mut out = Vec::new();
    for s in seeds {
        out.extend_from_slice(&(s.name.len() as u32).to_le_bytes());
        out.extend_from_slice(s.name.as_bytes());
        out.extend_from_slice(&s.expect_pages.to_le_bytes());
        out.push(ORIGINS.iter().position(|o| *o == s.origin).unwrap_or(0) as u8);
        out.extend_from_slice(&(s.bytes.len() as u32).to_le_bytes());
        out.extend_from_slice(&s.bytes);
    }
    let _ = std::fs::write(path, out);
}

fn read_seed_cache(path: &std::path::Path) -> Option<Vec<Seed>> {
    let d = std::fs::read(path).ok()?;
    let mut i = 0;
    let mut v = Vec::new();
    let u32_at = |i: usize| -> Option<usize> { Some(u32::from_le_bytes(d.get(i..i + 4)?.try_into().ok()?) as usize) };
    while i < d.len() {
        let nl = u32_at(i)?;
        i += 4;
        let name = String::from_utf8(d.get(i..i + nl)?.to_vec()).ok()?;
        i += nl;
        let pages = u32_at(i)? as u32;
        i += 4;
        let origin = ORIGINS.get(*d.get(i)? as usize).copied()?;
        i += 1;
        let bl = u32_at(i)?;
        i += 4;
        let bytes = d.get(i..i + bl)?.to_vec();
        i += bl;
        v.push(analyse(&name, bytes, pages, origin));
    }
    if v.is_empty() {
        None
    } else {
        Some(v)
    }
}

fn all_seeds() -> (Vec<Seed>, Vec<String>) {
    if let Ok(p) = std::env::var("C01_SEED_CACHE") {
        if let Some(v) = read_seed_cache(std::path::Path::new(&p)) {
            return (v, Vec::new());
        }
    }
    let mut notes = Vec::new();
    let timing = std::env::var("C01_TIMING").is_ok();
    let t0 = Instant::now();
    let tick = |what: &str| {
        if timing {
            eprintln!("  seeds: {what} at {:?}", t0.elapsed());
        }
    };
    let mut v = vec![
        analyse("classic", seed_classic(), 2, "refpdf"),
        analyse("xrefstm-objstm-pred12", seed_xrefstm_objstm(), 2, "refpdf"),
        analyse("two-revisions-prev", seed_two_rev(), 1, "refpdf"),
        analyse("a85-lzw-earlychange0", seed_a85_lzw(), 1, "refpdf"),
        analyse("image-flate-pred15", seed_image_pred15(), 1, "refpdf"),
        analyse("nested-tree-rotate", seed_nested_tree(), 3, "refpdf"),
        analyse("strings-names-escapes", seed_strings_names(), 1, "refpdf+raw"),
        analyse("type0-tounicode", seed_type0(), 1, "refpdf"),
        analyse("hybrid-xrefstm", seed_hybrid(), 1, "hand-assembled"),
    ];
    tick("refpdf seeds");
    match seed_rc4_fixture() {
        Some(b) => v.push(analyse("rc4-40-empty-user-password", b, 1, "fixture interop_qpdf_rc4-40_empty.pdf (library writer + qpdf)")),
        None => notes.push("RC4 seed skipped: fixture interop_qpdf_rc4-40_empty.pdf not readable".to_string()),
    }
    tick("rc4");
    let lw = seed_lib_writer();
    tick("lib writer built");
    match lw {
        Some(b) => v.push(analyse("library-writer-xrefstream", b, 1, "oxidize-pdf Document::to_bytes")),
        None => notes.push("library-writer seed skipped: Document::to_bytes failed".to_string()),
    }
    tick("all");
    (v, notes)
}

// =====================================================================================
// the case space
// =====================================================================================

pub const PRESETS: [&str; 6] = ["strict", "default", "reader_new", "tolerant", "lenient", "skip_errors"];
/// quick tier: the two strict-most presets and the most forgiving one; thorough: all six
const QUICK_PRESETS: [usize; 3] = [0, 1, 5];
static NP_DYN: AtomicU64 = AtomicU64::new(PRESETS.len() as u64);
/// number of presets per input in the current tier (set by `Space::new`)
fn np() -> u64 {
    NP_DYN.load(Ordering::Relaxed)
}
/// index into PRESETS of the preset of case `idx`
fn preset_of(idx: u64) -> usize {
    let k = (idx % np()) as usize;
    if np() as usize == PRESETS.len() {
        k
    } else {
        QUICK_PRESETS[k]
    }
}

fn preset_options(p: usize) -> ParseOptions {
    match p {
        0 => ParseOptions::strict(),
        1 => ParseOptions::default(),
        2 => {
            // what PdfReader::new / PdfReader::open use
            let mut o = ParseOptions::default();
            o.lenient_streams = true;
            o
        }
        3 => ParseOptions::tolerant(),
        4 => ParseOptions::lenient(),
        _ => ParseOptions::skip_errors(),
    }
}

#[derive(Clone, Copy, PartialEq, Eq, Debug)]
enum Fam {
    NumSingle,
    Payload,
    ByteMut,
    Trunc,
    Escapes,
    NameHex,
    A85,
    Tokens,
    Nesting,
    NumPairs,
}
const FAMS: [Fam; 10] = [Fam::Escapes, Fam::NameHex, Fam::Payload, Fam::Nesting, Fam::A85, Fam::Tokens, Fam::Trunc, Fam::NumSingle, Fam::ByteMut, Fam::NumPairs];

impl Fam {
    fn name(self) -> &'static str {
        match self {
            Fam::NumSingle => "numeric-slot-single",
            Fam::Payload => "payload-slot-single",
            Fam::ByteMut => "byte-mutation",
            Fam::Trunc => "truncation",
            Fam::Escapes => "micro-string-escapes",
            Fam::NameHex => "micro-name-hex",
            Fam::A85 => "micro-ascii85-groups",
            Fam::Tokens => "micro-token-sequences",
            Fam::Nesting => "nesting-depth",
            Fam::NumPairs => "numeric-slot-pairs",
        }
    }
    fn from_name(s: &str) -> Option<Fam> {
        FAMS.iter().copied().find(|f| f.name() == s)
    }
    fn id(self) -> usize {
        FAMS.iter().position(|f| *f == self).unwrap()
    }
}

const STRUCT_BYTES: [u8; 16] = [0x00, 0x0a, 0x20, b'%', b'(', b')', b'<', b'>', b'[', b']', b'/', b'\\', b'0', b'9', b'-', 0xff];
const QUICK_BYTES: [u8; 3] = [b' ', b'(', 0xff];

#[derive(Clone, Copy, Debug, PartialEq, Eq)]
enum ByteOp {
    Delete,
    Dup,
    DeleteFix,
    DupFix,
    Replace(u8),
}

const BODY_TOKENS: [&str; 20] = ["<<", ">>", "[", "]", "(", ")", "<", ">", "/", "/A", "0", "-1", "1.5", "R", "obj", "endobj", "stream\n", "endstream", "null", "%"];
const CONTENT_TOKENS: [&str; 20] = ["[", "]", "(", ")", "<", ">", "<<", ">>", "/F1", "0", "-1", "1.5", "BT", "ET", "Tj", "TJ", "Tf", "BI", "ID", "EI"];
const A85_ALPHA: [u8; 5] = [b'!', b's', b't', b'u', b'z'];
/// quick tier: lowest digit, the two digits around the 2^32 boundary for a leading position, and the `z` shortcut
const A85_ALPHA_QUICK: [u8; 4] = [b'!', b's', b'u', b'z'];
/// quick tier: the structurally richest seeds for the per-byte families (classic table, xref
/// stream + object stream + predictor, incremental update, Type0/ToUnicode with an unfiltered
/// CMap stream, hybrid file)
const QUICK_BYTE_SEEDS: [&str; 5] = ["classic", "xrefstm-objstm-pred12", "two-revisions-prev", "type0-tounicode", "hybrid-xrefstm"];
const A85_TERMS: [&str; 6] = ["~>", "~", "", ">", "~~>", " ~>"];
const HEXC: &[u8] = b"0123456789abcdefABCDEFgG# /)>\x00";
const NEST_DEPTHS: [usize; 15] = [1, 2, 8, 64, 100, 101, 255, 256, 999, 1000, 1001, 1024, 5000, 20000, 100000];
const NEST_KINDS: [&str; 14] = [
    "body-array",
    "body-dict",
    "body-string-parens",
    "body-array-dict-mixed",
    "content-array",
    "content-q",
    "content-BT",
    "content-BDC-dict",
    "pagetree-chain",
    "length-ref-chain",
    "form-xobject-chain",
    "form-xobject-cycle",
    "body-comment-run",
    "content-comment-run",
];

struct Space {
    thorough: bool,
    seeds: Vec<Seed>,
    notes: Vec<String>,
    byte_ops: Vec<ByteOp>,
    // numeric singles: flattened (seed, slot) with prefix sums over 2*nvalues
    ns_items: Vec<(usize, usize)>,
    ns_prefix: Vec<u64>,
    // payload: flattened items
    pl_items: Vec<PayloadItem>,
    pl_prefix: Vec<u64>,
    /// seeds (indices) used by the byte-mutation and truncation families
    bm_seeds: Vec<usize>,
    bm_prefix: Vec<u64>,
    tr_prefix: Vec<u64>,
    escapes: Vec<Vec<u8>>,
    namehex: Vec<Vec<u8>>,
    a85_alpha: Vec<u8>,
    a85_groups: u64,
    a85_prefixes: Vec<&'static str>,
    tok_maxlen: usize,
    nest: Vec<(usize, usize, bool)>,
    pairs: Vec<(usize, usize, usize)>,
    pair_vals: usize,
}

#[derive(Clone, Debug)]
enum PayloadItem {
    XrefField { seed: usize, xs: usize, row: usize, field: usize, values: Vec<u64> },
    ObjStmTok { seed: usize, os: usize, tok: usize },
}

fn prefix(counts: impl Iterator<Item = u64>) -> Vec<u64> {
    let mut v = vec![0u64];
    for c in counts {
        v.push(v.last().unwrap() + c);
    }
    v
}
fn locate(prefix: &[u64], idx: u64) -> (usize, u64) {
    // largest i with prefix[i] <= idx
    let i = match prefix.binary_search(&idx) {
        Ok(mut i) => {
            while i + 1 < prefix.len() && prefix[i + 1] == prefix[i] {
                i += 1;
            }
            i
        }
        Err(i) => i - 1,
    };
    (i, idx - prefix[i])
}

impl Space {
    fn new(thorough: bool) -> Space {
        THOROUGH.store(thorough, Ordering::SeqCst);
        NP_DYN.store(if thorough { PRESETS.len() as u64 } else { QUICK_PRESETS.len() as u64 }, Ordering::SeqCst);
        let (seeds, notes) = all_seeds();
        let mut byte_ops = vec![ByteOp::Delete, ByteOp::Dup];
        if thorough {
            byte_ops.push(ByteOp::DeleteFix);
            byte_ops.push(ByteOp::DupFix);
            byte_ops.extend(STRUCT_BYTES.iter().map(|b| ByteOp::Replace(*b)));
        } else {
            byte_ops.extend(QUICK_BYTES.iter().map(|b| ByteOp::Replace(*b)));
        }
        let mut ns_items = Vec::new();
        for (si, s) in seeds.iter().enumerate() {
            for k in 0..s.scan.slots.len() {
                ns_items.push((si, k));
            }
        }
        let ns_prefix = prefix(ns_items.iter().map(|(si, k)| 2 * seeds[*si].values[*k].len() as u64));
        let mut pl_items = Vec::new();
        for (si, s) in seeds.iter().enumerate() {
            for (xi, xs) in s.xrefstms.iter().enumerate() {
                for r in 0..xs.rows() {
                    for f in 0..3 {
                        if xs.w[f] > 0 {
                            let old = xs.field(&xs.payload, r, f);
                            let mut values = width_values(xs.w[f], s.bytes.len());
                            values.retain(|v| *v != old);
                            pl_items.push(PayloadItem::XrefField { seed: si, xs: xi, row: r, field: f, values });
                        }
                    }
                }
            }
            for (oi, os) in s.objstms.iter().enumerate() {
                for t in 0..os.toks.len() {
                    pl_items.push(PayloadItem::ObjStmTok { seed: si, os: oi, tok: t });
                }
            }
        }
        let pl_prefix = prefix(pl_items.iter().map(|it| match it {
            PayloadItem::XrefField { values, .. } => values.len() as u64,
            PayloadItem::ObjStmTok { .. } => CAT.len() as u64,
        }));
        let bm_seeds: Vec<usize> = (0..seeds.len()).filter(|i| thorough || QUICK_BYTE_SEEDS.contains(&seeds[*i].name.as_str())).collect();
        let bm_prefix = prefix(bm_seeds.iter().map(|i| seeds[*i].bytes.len() as u64 * byte_ops.len() as u64));
        let tr_prefix = prefix(bm_seeds.iter().map(|i| seeds[*i].bytes.len() as u64));
        // string escapes: \ddd (512), \dd (64), \d (8), \ + every byte (256)
        let mut escapes: Vec<Vec<u8>> = Vec::new();
        for v in 0..512u32 {
            escapes.push(format!("\\{:03o}", v).into_bytes());
        }
        for v in 0..64u32 {
            escapes.push(format!("\\{:02o}", v).into_bytes());
        }
        for v in 0..8u32 {
            escapes.push(format!("\\{:o}", v).into_bytes());
        }
        for b in 0..=255u8 {
            escapes.push(vec![b'\\', b]);
        }
        let mut namehex: Vec<Vec<u8>> = Vec::new();
        for &a in HEXC {
            for &b in HEXC {
                namehex.push(vec![b'#', a, b, b'y']);
            }
        }
        for &a in HEXC {
            namehex.push(vec![b'#', a]);
        }
        namehex.push(vec![b'#']);
        let a85_alpha: Vec<u8> = if thorough { A85_ALPHA.to_vec() } else { A85_ALPHA_QUICK.to_vec() };
        let a85_groups: u64 = (0..=5u32).map(|l| (a85_alpha.len() as u64).pow(l)).sum();
        let a85_prefixes = if thorough { vec!["", "87cUR"] } else { vec![""] };
        let tok_maxlen = if thorough { 4 } else { 3 };
        let mut nest = Vec::new();
        for k in 0..NEST_KINDS.len() {
            for &d in NEST_DEPTHS.iter() {
                let chain = (8..=11).contains(&k);
                if chain && d > 5000 {
                    continue;
                }
                // content-stream operator kinds: 20000 levels already take 0.4 s of CPU on an idle
                // machine, and per-case CPU clocks were seen to inflate tenfold on a loaded
                // (virtualised) one; stay far away from the 5 s deadline (the BDC property-list
                // kind keeps all depths: it ends early, by stack overflow or error)
                if ((4..=6).contains(&k) || k == 13) && d > 5000 {
                    continue;
                }
                if k == 12 && d > 20000 {
                    continue;
                }
                for closed in [true, false] {
                    if (chain || k >= 12) && !closed {
                        continue;
                    }
                    // unclosed nests deeper than 5000 add only quadratic recovery time
                    // (seconds per case) on top of what the closed ones already show
                    if !closed && d > 5000 {
                        continue;
                    }
                    nest.push((k, d, closed));
                }
            }
        }
        let mut pairs = Vec::new();
        if thorough {
            for (si, s) in seeds.iter().enumerate() {
                let n = s.scan.slots.len();
                for i in 0..n {
                    for j in i + 1..n {
                        let (a, b) = (&s.scan.slots[i], &s.scan.slots[j]);
                        if a.group == b.group && a.group != 0 && a.stream == b.stream {
                            pairs.push((si, i, j));
                        }
                    }
                }
            }
        }
        Space {
            thorough,
            seeds,
            notes,
            byte_ops,
            ns_items,
            ns_prefix,
            pl_items,
            pl_prefix,
            bm_seeds,
            bm_prefix,
            tr_prefix,
            escapes,
            namehex,
            a85_alpha,
            a85_groups,
            a85_prefixes,
            tok_maxlen,
            nest,
            pairs,
            pair_vals: PAIR_CAT.len(),
        }
    }

    fn tok_seqs(&self) -> u64 {
        (0..=self.tok_maxlen as u32).map(|l| 20u64.pow(l)).sum()
    }

    /// number of inputs (before the preset factor)
    fn inputs(&self, f: Fam) -> u64 {
        match f {
            Fam::NumSingle => *self.ns_prefix.last().unwrap(),
            Fam::Payload => *self.pl_prefix.last().unwrap(),
            Fam::ByteMut => *self.bm_prefix.last().unwrap(),
            Fam::Trunc => *self.tr_prefix.last().unwrap(),
            Fam::Escapes => self.escapes.len() as u64 * 2,
            Fam::NameHex => self.namehex.len() as u64 * 3,
            Fam::A85 => self.a85_groups * A85_TERMS.len() as u64 * self.a85_prefixes.len() as u64,
            Fam::Tokens => self.tok_seqs() * 3,
            Fam::Nesting => self.nest.len() as u64,
            Fam::NumPairs => self.pairs.len() as u64 * (self.pair_vals * self.pair_vals) as u64,
        }
    }
    fn cases(&self, f: Fam) -> u64 {
        self.inputs(f) * np()
    }

    fn decode_seq(&self, mut idx: u64, base: u64, maxlen: usize) -> Vec<usize> {
        for l in 0..=maxlen {
            let n = base.pow(l as u32);
            if idx < n {
                let mut v = vec![0usize; l];
                for k in (0..l).rev() {
                    v[k] = (idx % base) as usize;
                    idx /= base;
                }
                return v;
            }
            idx -= n;
        }
        Vec::new()
    }

    /// Build the bytes of one input and a description of it.
    fn build(&self, f: Fam, input: u64, want_desc: bool) -> (Vec<u8>, Value) {
        match f {
            Fam::NumSingle => {
                let (it, rem) = locate(&self.ns_prefix, input);
                let (si, k) = self.ns_items[it];
                let seed = &self.seeds[si];
                let vals = &seed.values[k];
                let fix = rem >= vals.len() as u64;
                let val = &vals[(rem % vals.len() as u64) as usize];
                let sl = &seed.scan.slots[k];
                let e = Edit { a: sl.a, b: sl.b, new: val.clone() };
                let bytes = if fix { with_fixups(seed, &[e], &[k]) } else { apply_edits(&seed.bytes, &[e]) };
                let d = if want_desc {
                    json!({"seed": seed.name, "slot": self.slot_label(si, k), "new": String::from_utf8_lossy(val), "offsets_repaired": fix})
                } else {
                    Value::Null
                };
                (bytes, d)
            }
            Fam::Payload => {
                let (it, rem) = locate(&self.pl_prefix, input);
                match &self.pl_items[it] {
                    PayloadItem::XrefField { seed, xs, row, field, values } => {
                        let s = &self.seeds[*seed];
                        let x = &s.xrefstms[*xs];
                        let mut p = x.payload.clone();
                        let v = values[rem as usize];
                        x.set_field(&mut p, *row, *field, v);
                        let st = &s.scan.streams[x.stream];
                        let e = Edit { a: st.a, b: st.b, new: x.encode(&p) };
                        let bytes = with_fixups(s, &[e], &[]);
                        let d = if want_desc {
                            json!({"seed": s.name, "xref_stream_entry": row, "field": field, "width": x.w[*field], "old": x.field(&x.payload, *row, *field), "new": v})
                        } else {
                            Value::Null
                        };
                        (bytes, d)
                    }
                    PayloadItem::ObjStmTok { seed, os, tok } => {
                        let s = &self.seeds[*seed];
                        let o = &s.objstms[*os];
                        let val = CAT[rem as usize].as_bytes();
                        let (ta, tb) = o.toks[*tok];
                        // rebuild header and body so that /First and the member offsets stay true
                        let in_header = tb <= o.first;
                        let (new_payload, new_first) = if in_header {
                            let mut h = o.payload[..o.first].to_vec();
                            h.splice(ta..tb, val.iter().copied());
                            let nf = h.len();
                            h.extend_from_slice(&o.payload[o.first..]);
                            (h, nf)
                        } else {
                            let delta = val.len() as isize - (tb - ta) as isize;
                            let mut header = Vec::new();
                            for (nt, _ot, off) in &o.pairs {
                                let num = &o.payload[o.toks[*nt].0..o.toks[*nt].1];
                                let noff = if o.first + *off > ta { (*off as isize + delta).max(0) as usize } else { *off };
                                header.extend_from_slice(num);
                                header.push(b' ');
                                header.extend_from_slice(noff.to_string().as_bytes());
                                header.push(b' ');
                            }
                            let nf = header.len();
                            let mut body = o.payload[o.first..].to_vec();
                            body.splice(ta - o.first..tb - o.first, val.iter().copied());
                            header.extend_from_slice(&body);
                            (header, nf)
                        };
                        let st = &s.scan.streams[o.stream];
                        let enc = if o.flate { rf::flate_encode(&new_payload) } else { new_payload };
                        let mut edits = vec![Edit { a: st.a, b: st.b, new: enc }];
                        let mut skip = vec![];
                        if new_first != o.first {
                            if let Some(fs) = o.first_slot {
                                let sl = &s.scan.slots[fs];
                                edits.push(Edit { a: sl.a, b: sl.b, new: new_first.to_string().into_bytes() });
                                skip.push(fs);
                            }
                        }
                        let bytes = with_fixups(s, &edits, &skip);
                        let d = if want_desc {
                            json!({"seed": s.name, "objstm_payload_token": tok, "in_header": in_header, "old": String::from_utf8_lossy(&o.payload[ta..tb]), "new": CAT[rem as usize]})
                        } else {
                            Value::Null
                        };
                        (bytes, d)
                    }
                }
            }
            Fam::ByteMut => {
                let (si, rem) = locate(&self.bm_prefix, input);
                let seed = &self.seeds[self.bm_seeds[si]];
                let nops = self.byte_ops.len() as u64;
                let pos = (rem / nops) as usize;
                let op = self.byte_ops[(rem % nops) as usize];
                let b = seed.bytes[pos];
                let bytes = match op {
                    ByteOp::Delete => apply_edits(&seed.bytes, &[Edit { a: pos, b: pos + 1, new: vec![] }]),
                    ByteOp::Dup => apply_edits(&seed.bytes, &[Edit { a: pos, b: pos + 1, new: vec![b, b] }]),
                    ByteOp::DeleteFix => with_fixups(seed, &[Edit { a: pos, b: pos + 1, new: vec![] }], &[]),
                    ByteOp::DupFix => with_fixups(seed, &[Edit { a: pos, b: pos + 1, new: vec![b, b] }], &[]),
                    ByteOp::Replace(x) => {
                        let mut v = seed.bytes.clone();
                        v[pos] = x;
                        v
                    }
                };
                let d = if want_desc {
                    let lo = pos.saturating_sub(12);
                    let hi = (pos + 12).min(seed.bytes.len());
                    json!({"seed": seed.name, "pos": pos, "op": format!("{op:?}"), "context": vx::show_bytes(&seed.bytes[lo..hi], 40), "old_byte": b})
                } else {
                    Value::Null
                };
                (bytes, d)
            }
            Fam::Trunc => {
                let (si, rem) = locate(&self.tr_prefix, input);
                let seed = &self.seeds[self.bm_seeds[si]];
                let bytes = seed.bytes[..rem as usize].to_vec();
                (bytes, if want_desc { json!({"seed": seed.name, "truncated_to": rem, "of": seed.bytes.len()}) } else { Value::Null })
            }
            Fam::Escapes => {
                let n = self.escapes.len() as u64;
                let place = input / n;
                let esc = &self.escapes[(input % n) as usize];
                let mut raw = vec![b'('];
                raw.extend_from_slice(esc);
                raw.extend_from_slice(b"x)");
                let content = [b"BT /F1 12 Tf 72 700 Td ".as_slice(), raw.as_slice(), b" Tj ET".as_slice()].concat();
                let bytes = micro_doc(if place == 0 { Micro::InfoString(&raw) } else { Micro::Content(&content) });
                (bytes, if want_desc { json!({"escape": vx::show_bytes(esc, 8), "placement": if place == 0 { "Info /Title string" } else { "content-stream Tj operand" }}) } else { Value::Null })
            }
            Fam::NameHex => {
                let n = self.namehex.len() as u64;
                let place = input / n;
                let tail = &self.namehex[(input % n) as usize];
                let mut name = b"/K".to_vec();
                name.extend_from_slice(tail);
                let bytes = match place {
                    0 => micro_doc(Micro::InfoKey(&name)),
                    1 => micro_doc(Micro::FontKey(&name)),
                    _ => micro_doc(Micro::Content(&[name.as_slice(), b" gs BT /F1 12 Tf (a) Tj ET"].concat())),
                };
                (bytes, if want_desc { json!({"name": vx::show_bytes(&name, 12), "placement": (["Info dictionary key", "font resource key + Tf operand", "content-stream gs operand"][place as usize])}) } else { Value::Null })
            }
            Fam::A85 => {
                let nt = A85_TERMS.len() as u64;
                let g = self.a85_groups;
                let pfx = self.a85_prefixes[(input / (g * nt)) as usize];
                let rem = input % (g * nt);
                let term = A85_TERMS[(rem % nt) as usize];
                let seq = self.decode_seq(rem / nt, self.a85_alpha.len() as u64, 5);
                let mut data = pfx.as_bytes().to_vec();
                data.extend(seq.iter().map(|i| self.a85_alpha[*i]));
                data.extend_from_slice(term.as_bytes());
                let bytes = micro_doc(Micro::ContentFiltered("ASCII85Decode", &data));
                (bytes, if want_desc { json!({"ascii85_data": String::from_utf8_lossy(&data), "placement": "content stream with /Filter /ASCII85Decode"}) } else { Value::Null })
            }
            Fam::Tokens => {
                let n = self.tok_seqs();
                let place = input / n;
                let seq = self.decode_seq(input % n, 20, self.tok_maxlen);
                let alpha = if place == 1 { &CONTENT_TOKENS } else { &BODY_TOKENS };
                let text: Vec<u8> = seq.iter().map(|i| alpha[*i]).collect::<Vec<_>>().join(" ").into_bytes();
                let bytes = match place {
                    0 => micro_doc(Micro::ResourcesBody(&text)),
                    1 => micro_doc(Micro::Content(&[b"q BT /F1 12 Tf 1 0 0 1 72 700 Tm ".as_slice(), &text, b" ET Q"].concat())),
                    _ => micro_doc(Micro::XrefDict(&text)),
                };
                (bytes, if want_desc { json!({"tokens": String::from_utf8_lossy(&text), "placement": (["body of the page's /Resources object", "content stream", "value of an extra key in the xref-stream dictionary"][place as usize])}) } else { Value::Null })
            }
            Fam::Nesting => {
                let (k, d, closed) = self.nest[input as usize];
                let bytes = nesting_doc(k, d, closed);
                (bytes, if want_desc { json!({"kind": NEST_KINDS[k], "depth": d, "closed": closed}) } else { Value::Null })
            }
            Fam::NumPairs => {
                let pv = self.pair_vals as u64;
                let (si, i, j) = self.pairs[(input / (pv * pv)) as usize];
                let rem = input % (pv * pv);
                let (vi, vj) = (PAIR_CAT[(rem / pv) as usize], PAIR_CAT[(rem % pv) as usize]);
                let seed = &self.seeds[si];
                let (a, b) = (&seed.scan.slots[i], &seed.scan.slots[j]);
                let edits = [Edit { a: a.a, b: a.b, new: vi.as_bytes().to_vec() }, Edit { a: b.a, b: b.b, new: vj.as_bytes().to_vec() }];
                let bytes = with_fixups(seed, &edits, &[i, j]);
                (bytes, if want_desc { json!({"seed": seed.name, "slot1": self.slot_label(si, i), "new1": vi, "slot2": self.slot_label(si, j), "new2": vj, "offsets_repaired": true}) } else { Value::Null })
            }
        }
    }

    fn slot_label(&self, si: usize, k: usize) -> String {
        let s = &self.seeds[si];
        let sl = &s.scan.slots[k];
        let lo = sl.a.saturating_sub(16);
        format!(
            "#{k} {:?} key=/{} in {}{} at byte {} old={} (…{}…)",
            sl.kind,
            sl.key,
            s.scan.group_label[sl.group as usize],
            if sl.stream.is_some() { " stream data" } else { "" },
            sl.a,
            tok_str(&s.bytes, sl),
            vx::show_bytes(&s.bytes[lo..(sl.b + 4).min(s.bytes.len())], 40)
        )
    }

    fn describe(&self, f: Fam, idx: u64) -> Value {
        let (_, mut d) = self.build(f, idx / np(), true);
        d["preset"] = json!(PRESETS[preset_of(idx)]);
        d["family"] = json!(f.name());
        d["case_index"] = json!(idx);
        d
    }
}

// ------------------------------------------------------------------ micro-grammar carrier documents

enum Micro<'a> {
    /// raw literal/hex string (with delimiters) as Info /Title
    InfoString(&'a [u8]),
    /// raw name (with '/') as a key of the Info dictionary
    InfoKey(&'a [u8]),
    /// raw name as key of the /Font resource dictionary and as Tf operand
    FontKey(&'a [u8]),
    /// raw content stream
    Content(&'a [u8]),
    ContentFiltered(&'a str, &'a [u8]),
    /// raw text as the whole body of the page's /Resources object (object 5)
    ResourcesBody(&'a [u8]),
    /// raw text as value of an extra key of the xref-stream dictionary
    XrefDict(&'a [u8]),
}

fn filler(fill: u8, n: usize) -> Vec<u8> {
    vec![fill; n]
}

/// 1 catalog, 2 pages, 3 page (/Resources 5 0 R, /Contents 4 0 R), 4 content, 5 resources,
/// 6 font, 7 info. Raw text is injected by same-length placeholder substitution.
fn micro_doc(m: Micro) -> Vec<u8> {
    let mut content: Vec<u8> = b"BT /F1 12 Tf 72 700 Td (micro) Tj ET".to_vec();
    let mut content_filter: Option<&str> = None;
    let mut resources: Obj = dict(vec![("Font", dict(vec![("F1", rf_(6))]))]);
    let mut info: Obj = dict(vec![("Title", Obj::str(b"micro"))]);
    let mut patch: Option<(Vec<u8>, Vec<u8>)> = None;
    let mut form = XrefForm::Table;
    let mut trailer_extra: Vec<(String, Obj)> = Vec::new();
    match m {
        Micro::InfoString(raw) => {
            let body = filler(b'X', raw.len() - 2);
            let mut ph = vec![b'('];
            ph.extend_from_slice(&body);
            ph.push(b')');
            info = dict(vec![("Title", Obj::Str(body))]);
            patch = Some((ph, raw.to_vec()));
        }
        Micro::InfoKey(raw) => {
            let key = String::from_utf8(filler(b'X', raw.len() - 1)).unwrap();
            info = dict(vec![("Title", Obj::str(b"t")), (key.as_str(), Obj::str(b"v"))]);
            let mut ph = vec![b'/'];
            ph.extend_from_slice(key.as_bytes());
            patch = Some((ph, raw.to_vec()));
        }
        Micro::FontKey(raw) => {
            let key = String::from_utf8(filler(b'X', raw.len() - 1)).unwrap();
            resources = dict(vec![("Font", dict(vec![("F1", rf_(6)), (key.as_str(), rf_(6))]))]);
            let mut ph = vec![b'/'];
            ph.extend_from_slice(key.as_bytes());
            patch = Some((ph, raw.to_vec()));
            content = [raw, b" 12 Tf 72 700 Td (a) Tj ET".as_slice()].concat();
            content.splice(0..0, b"BT ".iter().copied());
        }
        Micro::Content(raw) => content = raw.to_vec(),
        Micro::ContentFiltered(f, raw) => {
            content = raw.to_vec();
            content_filter = Some(f);
        }
        Micro::ResourcesBody(raw) => {
            // " " + raw has the length of "/" + X*len(raw)
            resources = Obj::Name(filler(b'X', raw.len()));
            let mut ph = vec![b'/'];
            ph.extend_from_slice(&filler(b'X', raw.len()));
            let mut r = vec![b' '];
            r.extend_from_slice(raw);
            patch = Some((ph, r));
        }
        Micro::XrefDict(raw) => {
            form = XrefForm::Stream;
            trailer_extra.push(("K".into(), Obj::Name(filler(b'X', raw.len()))));
            let mut ph = b"/K /".to_vec();
            ph.extend_from_slice(&filler(b'X', raw.len()));
            let mut r = b"/K  ".to_vec();
            r.extend_from_slice(raw);
            patch = Some((ph, r));
        }
    }
    let cs = match content_filter {
        Some(f) => stream(vec![("Filter", nm(f))], &content),
        None => stream(vec![], &content),
    };
    let pg = dict(vec![("Type", nm("Page")), ("Parent", rf_(2)), ("MediaBox", media()), ("Resources", rf_(5)), ("Contents", rf_(4))]);
    let mut r = Revision::new(form);
    r.trailer_extra = trailer_extra;
    for (n, o) in [(1, catalog(2)), (2, pages_node(&[3], 1, vec![])), (3, pg), (4, cs), (5, resources), (6, helv()), (7, info)] {
        r.add(n, o);
    }
    let mut fb = FileBuilder::new(1);
    fb.info = Some((7, 0));
    fb.revisions.push(r);
    let mut b = fb.build().bytes;
    if let Some((ph, raw)) = patch {
        // the placeholder may also occur in the content stream (FontKey): patch the first
        // occurrence that is followed by a non-'X' byte
        let mut from = 0;
        while let Some(p) = find_sub(&b, &ph, from) {
            let after = b.get(p + ph.len()).copied().unwrap_or(b' ');
            if after != b'X' {
                b[p..p + raw.len()].copy_from_slice(&raw);
                break;
            }
            from = p + 1;
        }
    }
    b
}

fn rep(s: &str, n: usize) -> Vec<u8> {
    s.as_bytes().repeat(n)
}

fn nesting_doc(kind: usize, d: usize, closed: bool) -> Vec<u8> {
    let open_close = |o: &str, c: &str| -> Vec<u8> {
        let mut v = rep(o, d);
        if closed {
            v.extend(rep(c, d));
        }
        v
    };
    match kind {
        0 => micro_doc(Micro::ResourcesBody(&open_close("[", "]"))),
        1 => micro_doc(Micro::ResourcesBody(&open_close("<</A ", ">>"))),
        2 => micro_doc(Micro::ResourcesBody(&open_close("(", ")"))),
        3 => micro_doc(Micro::ResourcesBody(&open_close("[<</A ", ">>]"))),
        4 => micro_doc(Micro::Content(&[b"BT /F1 12 Tf ".to_vec(), open_close("[", "]"), b" TJ ET".to_vec()].concat())),
        5 => micro_doc(Micro::Content(&[open_close("q ", "Q "), b"BT /F1 12 Tf (x) Tj ET".to_vec()].concat())),
        6 => micro_doc(Micro::Content(&[open_close("BT /F1 12 Tf ", "ET "), b"(x) Tj".to_vec()].concat())),
        7 => micro_doc(Micro::Content(&[b"/P ".to_vec(), open_close("<</A ", ">>"), b" BDC BT /F1 12 Tf (x) Tj ET EMC".to_vec()].concat())),
        12 => micro_doc(Micro::ResourcesBody(&[rep("%c\n", d), b"<< /Font << /F1 6 0 R >> >>".to_vec()].concat())),
        13 => micro_doc(Micro::Content(&[rep("%c\n", d), b"BT /F1 12 Tf (x) Tj ET".to_vec()].concat())),
        8 => {
            // catalog 1 -> pages 2 -> pages 3 -> ... -> pages d+1 -> page d+2 (content d+3)
            let mut objs: Vec<(u32, Obj)> = vec![(1, catalog(2))];
            for k in 0..d as u32 {
                let n = 2 + k;
                let mut extra = vec![];
                if k > 0 {
                    extra.push(("Parent", rf_(n - 1)));
                } else {
                    extra.push(("MediaBox", media()));
                    extra.push(("Resources", resources()));
                }
                objs.push((n, pages_node(&[n + 1], 1, extra)));
            }
            let pn = 2 + d as u32;
            objs.push((pn, dict(vec![("Type", nm("Page")), ("Parent", rf_(pn - 1)), ("Contents", rf_(pn + 1))])));
            objs.push((pn + 1, stream(vec![], b"BT /F1 12 Tf 72 700 Td (deep) Tj ET")));
            build_one(objs, XrefForm::Table, false, false, None)
        }
        9 => {
            // /Length 5 0 R; 5 = "6 0 R"; ...; last = integer
            let data = b"BT /F1 12 Tf 72 700 Td (chain) Tj ET";
            let mut objs: Vec<(u32, Obj)> = vec![(1, catalog(2)), (2, pages_node(&[3], 1, vec![])), (3, page(2, 4, vec![])), (4, stream(vec![("Length", rf_(5))], data))];
            for k in 0..d as u32 {
                objs.push((5 + k, rf_(6 + k)));
            }
            objs.push((5 + d as u32, int(data.len() as i64)));
            build_one(objs, XrefForm::Table, false, false, None)
        }
        _ => {
            // form XObjects: Fm(k) draws Fm(k+1); kind 11 closes the chain into a cycle
            let cycle = kind == 11;
            let mut objs: Vec<(u32, Obj)> = vec![(1, catalog(2)), (2, pages_node(&[3], 1, vec![]))];
            let res = |target: u32| dict(vec![("Font", dict(vec![("F1", helv())])), ("XObject", dict(vec![("Fm", rf_(target))]))]);
            objs.push((3, dict(vec![("Type", nm("Page")), ("Parent", rf_(2)), ("MediaBox", media()), ("Resources", res(5)), ("Contents", rf_(4))])));
            objs.push((4, stream(vec![], b"BT /F1 12 Tf 72 700 Td (top) Tj ET /Fm Do")));
            for k in 0..d as u32 {
                let n = 5 + k;
                let last = k + 1 == d as u32;
                let next = if last { 5 } else { n + 1 };
                let mut e = vec![("Type", nm("XObject")), ("Subtype", nm("Form")), ("BBox", media())];
                let body: &[u8] = if last && !cycle {
                    e.push(("Resources", dict(vec![("Font", dict(vec![("F1", helv())]))])));
                    b"BT /F1 12 Tf 72 600 Td (bottom) Tj ET"
                } else {
                    e.push(("Resources", res(next)));
                    b"BT /F1 12 Tf 72 650 Td (f) Tj ET /Fm Do"
                };
                objs.push((n, stream(e, body)));
            }
            build_one(objs, XrefForm::Table, false, false, None)
        }
    }
}

// =====================================================================================
// the driver: one case through the whole reading path
// =====================================================================================

static PHASE: AtomicUsize = AtomicUsize::new(0);
/// 16-byte shared-memory cell (a file in the scratch directory mapped MAP_SHARED): byte 0 =
/// driver phase, bytes 8..16 = index of the case being run. The supervisor reads it after a
/// worker died, so the in-flight case and phase are known without any per-case pipe traffic.
static STATE_PTR: AtomicUsize = AtomicUsize::new(0);
const PHASES: [&str; 9] = ["build", "open", "page_count", "get_page", "content_streams", "content_parse", "objects_and_decode", "extract_text", "extract_text_layout"];

fn phase(p: usize) {
    PHASE.store(p, Ordering::Relaxed);
    let sp = STATE_PTR.load(Ordering::Relaxed);
    if sp != 0 {
        unsafe { std::ptr::write_volatile(sp as *mut u8, p as u8) };
    }
}
fn state_case(idx: u64) {
    let sp = STATE_PTR.load(Ordering::Relaxed);
    if sp != 0 {
        unsafe { std::ptr::write_volatile((sp + 8) as *mut u64, idx) };
    }
}
fn map_state_file(path: &str) {
    unsafe {
        let c = std::ffi::CString::new(path).unwrap();
        let fd = libc::open(c.as_ptr(), libc::O_RDWR | libc::O_CREAT, 0o644);
        if fd < 0 {
            return;
        }
        libc::ftruncate(fd, 16);
        let m = libc::mmap(std::ptr::null_mut(), 16, libc::PROT_READ | libc::PROT_WRITE, libc::MAP_SHARED, fd, 0);
        libc::close(fd);
        if m != libc::MAP_FAILED {
            STATE_PTR.store(m as usize, Ordering::SeqCst);
        }
    }
}
fn read_state_file(path: &std::path::Path) -> (String, u64) {
    let b = std::fs::read(path).unwrap_or_default();
    if b.len() < 16 {
        return ("unknown".into(), u64::MAX);
    }
    let mut x = [0u8; 8];
    x.copy_from_slice(&b[8..16]);
    (PHASES.get(b[0] as usize).copied().unwrap_or("unknown").to_string(), u64::from_le_bytes(x))
}

fn err_class<E: std::fmt::Debug>(e: &E) -> String {
    let s = format!("{e:?}");
    s.chars().take_while(|c| c.is_ascii_alphanumeric() || *c == '_').take(24).collect()
}

const MAX_PAGES_WALKED: u32 = 12;

/// Returns (outcome signature, non-trivial?).
fn drive(bytes: &[u8], preset: usize, max_obj: u32) -> (String, bool) {
    let opts = preset_options(preset);
    let mut sig = String::with_capacity(96);
    phase(1);
    let reader = match PdfReader::new_with_options(std::io::Cursor::new(bytes.to_vec()), opts.clone()) {
        Ok(r) => r,
        Err(e) => return (format!("open:E{}", err_class(&e)), false),
    };
    sig.push_str("open:ok");
    let doc = PdfDocument::new(reader);
    phase(2);
    let n = match doc.page_count() {
        Ok(n) => {
            sig.push_str(&format!("|pc:{}", n.min(99)));
            n
        }
        Err(e) => {
            sig.push_str(&format!("|pc:E{}", err_class(&e)));
            0
        }
    };
    let (mut pg_ok, mut pg_err, mut cs_ok, mut cs_err, mut cp_ok, mut cp_err, mut res) = (0, 0, 0, 0, 0, 0, 0);
    for i in 0..n.min(MAX_PAGES_WALKED) {
        phase(3);
        match doc.get_page(i) {
            Ok(pg) => {
                pg_ok += 1;
                if let Ok(Some(_)) = doc.get_page_resources(&pg) {
                    res += 1;
                }
                let _ = (pg.width(), pg.height());
                phase(4);
                match doc.get_page_content_streams(&pg) {
                    Ok(streams) => {
                        cs_ok += 1;
                        phase(5);
                        for s in &streams {
                            match ContentParser::parse(s) {
                                Ok(_) => cp_ok += 1,
                                Err(_) => cp_err += 1,
                            }
                        }
                    }
                    Err(_) => cs_err += 1,
                }
            }
            Err(_) => pg_err += 1,
        }
    }
    sig.push_str(&format!("|pg:{pg_ok}/{pg_err}|res:{res}|cs:{cs_ok}/{cs_err}|cp:{cp_ok}/{cp_err}"));
    phase(6);
    let (mut o_ok, mut o_null, mut o_err, mut d_ok, mut d_err) = (0, 0, 0, 0, 0);
    for num in 0..=max_obj {
        match doc.get_object(num, 0) {
            Ok(PdfObject::Null) => o_null += 1,
            Ok(PdfObject::Stream(s)) => {
                o_ok += 1;
                match doc.decode_stream(&s) {
                    Ok(_) => d_ok += 1,
                    Err(_) => d_err += 1,
                }
                match s.decode(&opts) {
                    Ok(_) => d_ok += 1,
                    Err(_) => d_err += 1,
                }
            }
            Ok(_) => o_ok += 1,
            Err(_) => o_err += 1,
        }
    }
    sig.push_str(&format!("|obj:{o_ok}/{o_null}/{o_err}|dec:{d_ok}/{d_err}"));
    phase(7);
    match doc.extract_text() {
        Ok(v) => sig.push_str(&format!("|tx:ok{}", v.iter().filter(|t| !t.text.is_empty()).count())),
        Err(e) => sig.push_str(&format!("|tx:E{}", err_class(&e))),
    }
    phase(8);
    let lo = ExtractionOptions { preserve_layout: true, sort_by_position: true, detect_columns: true, ..Default::default() };
    match doc.extract_text_with_options(lo) {
        Ok(_) => sig.push_str("|txl:ok"),
        Err(e) => sig.push_str(&format!("|txl:E{}", err_class(&e))),
    }
    (sig, o_ok > 0)
}

impl Space {
    fn max_obj(&self, f: Fam, input: u64) -> u32 {
        let seed_of = |prefix: &[u64]| locate(prefix, input).0;
        match f {
            Fam::NumSingle => {
                let (it, _) = locate(&self.ns_prefix, input);
                self.seeds[self.ns_items[it].0].max_obj + 3
            }
            Fam::Payload => {
                let (it, _) = locate(&self.pl_prefix, input);
                let si = match &self.pl_items[it] {
                    PayloadItem::XrefField { seed, .. } => *seed,
                    PayloadItem::ObjStmTok { seed, .. } => *seed,
                };
                self.seeds[si].max_obj + 3
            }
            Fam::ByteMut => self.seeds[self.bm_seeds[seed_of(&self.bm_prefix)]].max_obj + 3,
            Fam::Trunc => self.seeds[self.bm_seeds[seed_of(&self.tr_prefix)]].max_obj + 3,
            Fam::NumPairs => {
                let pv = (self.pair_vals * self.pair_vals) as u64;
                self.seeds[self.pairs[(input / pv) as usize].0].max_obj + 3
            }
            Fam::Nesting => (self.nest[input as usize].1 as u32 + 8).min(64),
            _ => 10,
        }
    }
}

// =====================================================================================
// worker process
// =====================================================================================

/// User-mode CPU time of this thread. Kernel time is left out on purpose: under memory
/// pressure the page faults that follow a fork are charged as system time and would make
/// the per-case clock depend on what else the machine is doing.
fn thread_cpu_us() -> u64 {
    let mut ru: libc::rusage = unsafe { std::mem::zeroed() };
    unsafe {
        libc::getrusage(libc::RUSAGE_THREAD, &mut ru);
    }
    ru.ru_utime.tv_sec as u64 * 1_000_000 + ru.ru_utime.tv_usec as u64
}

fn clean(s: &str) -> String {
    s.chars().map(|c| if c == '\t' || c == '\n' || c == '\r' { ' ' } else { c }).collect()
}

/// One case, in this process. Returns the record line (without newline).
fn lenient_is_tolerant() -> bool {
    static SAME: std::sync::OnceLock<bool> = std::sync::OnceLock::new();
    *SAME.get_or_init(|| format!("{:?}", ParseOptions::lenient()) == format!("{:?}", ParseOptions::tolerant()))
}

fn run_case_here(space: &Space, f: Fam, idx: u64) -> String {
    let input = idx / np();
    let preset = preset_of(idx);
    if preset == 4 && lenient_is_tolerant() {
        // ParseOptions::lenient() is field-for-field ParseOptions::tolerant() (checked just
        // now): the tolerant case next to this one is the same execution
        return format!("R {idx} 2 0 0 0 0 0 0");
    }
    state_case(idx);
    phase(0);
    let (bytes, _) = space.build(f, input, false);
    let ih = vx::hbytes(&bytes);
    let max_obj = space.max_obj(f, input);
    let base = alloc_track::CUR.load(Ordering::Relaxed);
    alloc_track::PEAK.store(base, Ordering::Relaxed);
    let t0 = thread_cpu_us();
    let r = guard_case(|| drive(&bytes, preset, max_obj));
    let cpu = thread_cpu_us().saturating_sub(t0);
    let peak = (alloc_track::PEAK.load(Ordering::Relaxed) - base).max(0) as u64;
    match r {
        Ok((sig, nontriv)) => format!("R {idx} 0 {} {:x} {:x} {} {} {}", nontriv as u8, ih, vx::h64(&sig), peak / 1024, cpu, if sig.starts_with("open:ok") { 1 } else { 0 }),
        Err((key, detail)) => format!("R {idx} 1 0 {:x} {:x} {} {} 0\t{}\t{}\t{}", ih, vx::h64(&key), peak / 1024, cpu, clean(&key), clean(&detail), PHASES[PHASE.load(Ordering::Relaxed)]),
    }
}

static SIG_FD: AtomicI32 = AtomicI32::new(-1);
static STACK_LO: AtomicUsize = AtomicUsize::new(0);

extern "C" fn on_fault(sig: libc::c_int, info: *mut libc::siginfo_t, _ctx: *mut libc::c_void) {
    let fd = SIG_FD.load(Ordering::Relaxed);
    let addr = unsafe { (*info).si_addr() as usize };
    let lo = STACK_LO.load(Ordering::Relaxed);
    let kind: &[u8] = if sig == libc::SIGUSR1 {
        b"U "
    } else if lo != 0 && addr + (1 << 20) >= lo && addr < lo + (64 << 10) {
        b"F stack-overflow "
    } else {
        b"F bad-access "
    };
    let frame = if sig == libc::SIGUSR1 { library_stack() } else { recursing_library_frame() };
    let line = [kind, frame.as_bytes(), b"\n"].concat();
    unsafe {
        libc::write(fd, line.as_ptr() as *const libc::c_void, line.len());
        if sig != libc::SIGUSR1 {
            // die of the original fault
            libc::signal(sig, libc::SIG_DFL);
        }
    }
}

/// Single-case mode: report the innermost library function on SIGSEGV/SIGBUS (stack overflow
/// or bad access) and on SIGUSR1 (sent by the supervisor before it kills a hung worker).
fn install_fault_handlers(fd: i32) {
    SIG_FD.store(fd, Ordering::SeqCst);
    // The worker forks one child per batch, so everything a crashing child would otherwise
    // have to set up again is warmed here once: the symbol table, the C unwinder behind
    // backtrace(3), and Rust's own unwinder (one caught panic).
    let _ = SYMTAB.get_or_init(load_symtab);
    let _ = first_library_frame();
    let _ = std::panic::catch_unwind(|| panic!("warm-up"));
    unsafe {
        let mut attr: libc::pthread_attr_t = std::mem::zeroed();
        if libc::pthread_getattr_np(libc::pthread_self(), &mut attr) == 0 {
            let mut sa: *mut libc::c_void = std::ptr::null_mut();
            let mut sz: libc::size_t = 0;
            if libc::pthread_attr_getstack(&attr, &mut sa, &mut sz) == 0 {
                STACK_LO.store(sa as usize, Ordering::SeqCst);
            }
            libc::pthread_attr_destroy(&mut attr);
        }
        let size = 1usize << 19;
        let mem = libc::mmap(std::ptr::null_mut(), size, libc::PROT_READ | libc::PROT_WRITE, libc::MAP_PRIVATE | libc::MAP_ANONYMOUS, -1, 0);
        let ss = libc::stack_t { ss_sp: mem, ss_flags: 0, ss_size: size };
        libc::sigaltstack(&ss, std::ptr::null_mut());
        let mut act: libc::sigaction = std::mem::zeroed();
        act.sa_sigaction = on_fault as usize;
        act.sa_flags = libc::SA_SIGINFO | libc::SA_ONSTACK;
        libc::sigemptyset(&mut act.sa_mask);
        libc::sigaction(libc::SIGSEGV, &act, std::ptr::null_mut());
        libc::sigaction(libc::SIGBUS, &act, std::ptr::null_mut());
        libc::sigaction(libc::SIGUSR1, &act, std::ptr::null_mut());
        // warm the unwinder outside the handler
        let mut buf = [std::ptr::null_mut::<libc::c_void>(); 4];
        libc::backtrace(buf.as_mut_ptr(), 4);
    }
}

pub fn worker_main(args: &[String]) -> i32 {
    let thorough = args.first().map(|s| s == "thorough").unwrap_or(false);
    // the protocol gets its own descriptor; fd 1 is pointed at /dev/null so that nothing the
    // library might print can corrupt it
    let fd = unsafe { libc::dup(1) };
    unsafe {
        let devnull = libc::open(b"/dev/null\0".as_ptr() as *const libc::c_char, libc::O_WRONLY);
        if devnull >= 0 {
            libc::dup2(devnull, 1);
            libc::close(devnull);
        }
    }
    if let Some(p) = args.get(1) {
        map_state_file(p);
    }
    install_worker_panic_hook();
    let t_start = Instant::now();
    let space = Space::new(thorough);
    let t_space = t_start.elapsed();
    install_fault_handlers(fd);
    if std::env::var("C01_TIMING").is_ok() {
        eprintln!("worker start: space {:?}, handlers {:?}", t_space, t_start.elapsed() - t_space);
    }
    alloc_track::FD.store(fd, Ordering::SeqCst);
    alloc_track::LIMIT.store(alloc_track::CUR.load(Ordering::Relaxed).max(0) + MEM_LIMIT, Ordering::SeqCst);
    alloc_track::TRACK.store(true, Ordering::SeqCst);
    let emit = |s: &[u8]| unsafe {
        let mut off = 0;
        while off < s.len() {
            let n = libc::write(fd, s[off..].as_ptr() as *const libc::c_void, s.len() - off);
            if n <= 0 {
                std::process::exit(3);
            }
            off += n as usize;
        }
    };
    emit(b"H ready\n");
    let stdin = std::io::stdin();
    let mut line = String::new();
    loop {
        line.clear();
        match stdin.lock().read_line(&mut line) {
            Ok(0) | Err(_) => return 0,
            Ok(_) => {}
        }
        let parts: Vec<&str> = line.split_whitespace().collect();
        if parts.len() < 3 {
            continue;
        }
        let Some(f) = parts[1].parse::<usize>().ok().and_then(|i| FAMS.get(i).copied()) else { continue };
        let start: u64 = parts[2].parse().unwrap_or(0);
        let count: u64 = parts.get(3).and_then(|s| s.parse().ok()).unwrap_or(1);
        let stride: u64 = parts.get(4).and_then(|s| s.parse().ok()).unwrap_or(1).max(1);
        // Each batch runs in a forked child of this process (which has the case space built
        // and stays alive): a child that aborts, overflows its stack or is killed by the
        // supervisor costs a fork, not a fresh start. Records are written case by case, so the
        // supervisor always knows which case was in flight.
        unsafe {
            libc::ftruncate(2, 0);
            libc::lseek(2, 0, libc::SEEK_SET);
        }
        let pid = unsafe { libc::fork() };
        if pid == 0 {
            let me = unsafe { libc::getpid() };
            state_case(start);
            emit(format!("C {me}\n").as_bytes());
            // Records are buffered for up to 20 ms; the index of the case in flight is in the
            // shared cell, so a record lost with this buffer only means that case is run again.
            let mut buf: Vec<u8> = Vec::with_capacity(1 << 15);
            let mut last_flush = Instant::now();
            for j in 0..count {
                let idx = start + j * stride;
                let rec = run_case_here(&space, f, idx);
                buf.extend_from_slice(rec.as_bytes());
                buf.push(b'\n');
                if buf.len() > 24_000 || last_flush.elapsed() > Duration::from_millis(20) {
                    emit(&buf);
                    buf.clear();
                    last_flush = Instant::now();
                }
            }
            buf.extend_from_slice(b"E\n");
            emit(&buf);
            unsafe { libc::_exit(0) };
        } else if pid < 0 {
            emit(b"X fork-failed\n");
        } else {
            let mut status: libc::c_int = 0;
            loop {
                let r = unsafe { libc::waitpid(pid, &mut status, 0) };
                if r == pid || r < 0 {
                    break;
                }
            }
            if libc::WIFSIGNALED(status) {
                emit(format!("X sig {}\n", libc::WTERMSIG(status)).as_bytes());
            } else if libc::WIFEXITED(status) && libc::WEXITSTATUS(status) != 0 {
                emit(format!("X exit {}\n", libc::WEXITSTATUS(status)).as_bytes());
            }
        }
    }
}

// =====================================================================================
// supervisor
// =====================================================================================

#[derive(Clone, Debug, Default)]
struct Rec {
    idx: u64,
    status: u8,
    nontriv: bool,
    ih: u64,
    oh: u64,
    peak_kib: u64,
    cpu_us: u64,
    opened: bool,
    key: String,
    detail: String,
    phase: String,
}

fn parse_rec(line: &str) -> Option<Rec> {
    let mut tabs = line.split('\t');
    let head = tabs.next()?;
    let p: Vec<&str> = head.split(' ').collect();
    if p.len() < 9 || p[0] != "R" {
        return None;
    }
    Some(Rec {
        idx: p[1].parse().ok()?,
        status: p[2].parse().ok()?,
        nontriv: p[3] == "1",
        ih: u64::from_str_radix(p[4], 16).ok()?,
        oh: u64::from_str_radix(p[5], 16).ok()?,
        peak_kib: p[6].parse().ok()?,
        cpu_us: p[7].parse().ok()?,
        opened: p[8] == "1",
        key: tabs.next().unwrap_or("").to_string(),
        detail: tabs.next().unwrap_or("").to_string(),
        phase: tabs.next().unwrap_or("").to_string(),
    })
}

struct Worker {
    child: std::process::Child,
    stdin: std::process::ChildStdin,
    rx: mpsc::Receiver<String>,
    errpath: std::path::PathBuf,
    statepath: std::path::PathBuf,
}

impl Worker {
    fn spawn(thorough: bool, scratch: &std::path::Path, tag: &str) -> Result<Worker, String> {
        let errpath = scratch.join(format!("{tag}.err"));
        let errf = std::fs::File::create(&errpath).map_err(|e| format!("{}: {e}", errpath.display()))?;
        let statepath = scratch.join(format!("{tag}.st"));
        let _ = std::fs::write(&statepath, [0u8; 16]);
        let mut c = std::process::Command::new(vx::proc::self_exe());
        c.args(["--worker", "C01", if thorough { "thorough" } else { "quick" }, statepath.to_str().unwrap_or("")])
            .stdin(std::process::Stdio::piped())
            .stdout(std::process::Stdio::piped())
            .stderr(errf)
            .env("VX_RLIMIT_AS", (6u64 << 30).to_string())
            .env("C01_SEED_CACHE", scratch.join("seeds.bin"))
            .env("RUST_BACKTRACE", "0");
        let mut child = c.spawn().map_err(|e| format!("spawn worker: {e}"))?;
        let stdin = child.stdin.take().unwrap();
        let stdout = child.stdout.take().unwrap();
        let (tx, rx) = mpsc::channel::<String>();
        std::thread::spawn(move || {
            let mut r = BufReader::with_capacity(1 << 16, stdout);
            let mut line = String::new();
            loop {
                line.clear();
                match r.read_line(&mut line) {
                    Ok(0) | Err(_) => break,
                    Ok(_) => {
                        let l = line.trim_end_matches('\n').to_string();
                        if l.is_empty() {
                            continue;
                        }
                        if tx.send(l).is_err() {
                            break;
                        }
                    }
                }
            }
        });
        let w = Worker { child, stdin, rx, errpath, statepath };
        match w.rx.recv_timeout(Duration::from_secs(120)) {
            Ok(l) if l.starts_with("H ") => Ok(w),
            other => {
                let mut w = w;
                let _ = w.child.kill();
                let _ = w.child.wait();
                Err(format!("worker did not start: {other:?}"))
            }
        }
    }
    fn kill(mut self) -> std::process::ExitStatus {
        let _ = self.child.kill();
        self.child.wait().expect("wait")
    }
    /// (user, user+system) CPU seconds of the process
    fn cpu_seconds(&self, pid: Option<i32>) -> (f64, f64) {
        let pid = pid.unwrap_or(self.child.id() as i32);
        let Ok(s) = std::fs::read_to_string(format!("/proc/{pid}/stat")) else { return (0.0, 0.0) };
        let Some(p) = s.rfind(')') else { return (0.0, 0.0) };
        let f: Vec<&str> = s[p + 1..].split_whitespace().collect();
        // after ")" the fields start at index 0 = state (field 3); utime = field 14, stime = 15
        // the deadline counts user time only, for the same reason as the worker's per-case clock
        let ut: f64 = f.get(11).and_then(|x| x.parse().ok()).unwrap_or(0.0);
        let stt: f64 = f.get(12).and_then(|x| x.parse().ok()).unwrap_or(0.0);
        let hz = (unsafe { libc::sysconf(libc::_SC_CLK_TCK) } as f64).max(1.0);
        (ut / hz, (ut + stt) / hz)
    }
}

fn signal_name(sig: i32) -> String {
    match sig {
        4 => "SIGILL".into(),
        6 => "SIGABRT".into(),
        7 => "SIGBUS".into(),
        8 => "SIGFPE".into(),
        9 => "SIGKILL".into(),
        11 => "SIGSEGV".into(),
        n => format!("signal{n}"),
    }
}

#[derive(Debug)]
enum Single {
    Done(Rec),
    Crash { how: String, phase: String, oom: Option<(u64, String)>, fault: Option<String>, stderr_class: String, stderr_tail: String },
    Hang { phase: String, cpu_s: f64, wall_s: f64, frame: String, samples: Vec<String> },
    Machinery(String),
}

fn stderr_class(path: &std::path::Path) -> (String, String) {
    let b = std::fs::read(path).unwrap_or_default();
    let s = String::from_utf8_lossy(&b).to_string();
    let class = if s.contains("overflowed its stack") {
        "stack-overflow"
    } else if s.contains("memory allocation of") {
        "alloc-failed"
    } else if s.contains("panic in a function that cannot unwind") || s.contains("panicked while panicking") {
        "double-panic"
    } else {
        "other"
    };
    let tail: String = s.chars().rev().take(300).collect::<Vec<_>>().into_iter().rev().collect();
    (class.into(), vx::one_line(&tail, 300))
}

/// What the wait loop saw while one case was in flight.
#[derive(Default)]
struct Flight {
    since: Option<Instant>,
    cpu_base: Option<f64>,
    marks: Vec<(f64, f64)>,
    oom: Option<(u64, String)>,
    fault: Option<String>,
    /// pid of the forked child that runs the current batch
    child_pid: Option<i32>,
}

enum Got {
    Record(Rec),
    BatchEnd,
    /// what happened, and the index of the case that was in flight (from the shared cell)
    Failed(Single, u64),
}

/// Wait for the next record (or the end-of-batch marker) of worker `w`. A worker that dies,
/// or that spends more than the deadline on the in-flight case, is consumed and reported
/// as `Failed`.
fn next_event(wopt: &mut Option<Worker>, fl: &mut Flight) -> Got {
    let since = *fl.since.get_or_insert_with(Instant::now);
    loop {
        let w = wopt.as_mut().expect("worker");
        match w.rx.recv_timeout(Duration::from_millis(500)) {
            Ok(l) => {
                if l == "E" {
                    *fl = Flight::default();
                    return Got::BatchEnd;
                } else if l.starts_with("R ") {
                    if let Some(r) = parse_rec(&l) {
                        let cp = fl.child_pid;
                        *fl = Flight::default();
                        fl.child_pid = cp;
                        return Got::Record(r);
                    }
                } else if let Some(m) = l.strip_prefix("M ") {
                    let mut it = m.split(' ');
                    let sz = it.next().and_then(|x| x.parse().ok()).unwrap_or(0);
                    fl.oom = Some((sz, it.next().unwrap_or("unknown").to_string()));
                } else if let Some(m) = l.strip_prefix("F ") {
                    fl.fault = Some(m.replace(' ', ":"));
                } else if let Some(m) = l.strip_prefix("C ") {
                    fl.child_pid = m.trim().parse().ok();
                } else if let Some(m) = l.strip_prefix("X ") {
                    // the batch child died; the worker itself is alive and ready for the next batch
                    let how = match m.split(' ').collect::<Vec<_>>().as_slice() {
                        ["sig", n] => signal_name(n.parse().unwrap_or(0)),
                        ["exit", n] => format!("exit{n}"),
                        _ => m.to_string(),
                    };
                    let (class, tail) = stderr_class(&w.errpath);
                    let (phase, inflight) = read_state_file(&w.statepath);
                    let f = std::mem::take(fl);
                    return Got::Failed(Single::Crash { how, phase, oom: f.oom, fault: f.fault, stderr_class: class, stderr_tail: tail }, inflight);
                }
            }
            Err(mpsc::RecvTimeoutError::Timeout) => {
                let wall = since.elapsed().as_secs_f64();
                if wall < 1.0 {
                    continue;
                }
                if fl.child_pid.is_none() && wall < 120.0 {
                    // the batch child has not announced itself yet (slow fork): nothing to measure
                    continue;
                }
                let (cpu_now, all_now) = w.cpu_seconds(fl.child_pid);
                let base = *fl.cpu_base.get_or_insert(cpu_now);
                let cpu = cpu_now - base;
                fl.marks.push((wall, all_now));
                // blocked = no CPU at all (user or system) used during the last 30 s of wall time
                let blocked = wall >= 60.0 && fl.marks.iter().find(|m| m.0 >= wall - 30.0).map(|m| all_now - m.1 < 0.05 && wall - m.0 >= 25.0).unwrap_or(false);
                if cpu >= DEADLINE_CPU_S || blocked || wall >= 300.0 {
                    // three stack samples 100 ms apart: the deepest frame common to all of them
                    // is the function whose loop does not end
                    let mut stacks: Vec<Vec<String>> = Vec::new();
                    for _ in 0..3 {
                        unsafe {
                            libc::kill(fl.child_pid.unwrap_or(w.child.id() as i32), libc::SIGUSR1);
                        }
                        let t1 = Instant::now();
                        while t1.elapsed() < Duration::from_secs(10) {
                            match w.rx.recv_timeout(Duration::from_millis(100)) {
                                Ok(l) => {
                                    if let Some(f) = l.strip_prefix("U ") {
                                        stacks.push(f.split('>').map(|x| x.to_string()).collect());
                                        break;
                                    }
                                }
                                Err(mpsc::RecvTimeoutError::Disconnected) => break,
                                Err(_) => {}
                            }
                        }
                        std::thread::sleep(Duration::from_millis(100));
                    }
                    // name the hang by the two outermost library frames (always on the stack, so
                    // the name does not depend on where in the loop a sample lands)
                    let mut frame = String::from("unknown");
                    if let Some(first) = stacks.first() {
                        let mut k = first.len();
                        for st in &stacks[1..] {
                            k = k.min(st.iter().zip(first.iter()).take_while(|(a, b)| a == b).count());
                        }
                        if k > 0 {
                            frame = first[..k.min(2)].join(">");
                        }
                    }
                    let samples: Vec<String> = stacks.iter().map(|s| s.join(">")).collect();
                    let (phase, inflight) = read_state_file(&w.statepath);
                    match fl.child_pid {
                        Some(cp) => {
                            // kill the batch child only and swallow the worker's "X" notice
                            unsafe {
                                libc::kill(cp, libc::SIGKILL);
                            }
                            let t2 = Instant::now();
                            let mut alive = true;
                            while t2.elapsed() < Duration::from_secs(30) {
                                match w.rx.recv_timeout(Duration::from_millis(200)) {
                                    Ok(l) if l.starts_with("X ") => break,
                                    Ok(_) => {}
                                    Err(mpsc::RecvTimeoutError::Disconnected) => {
                                        alive = false;
                                        break;
                                    }
                                    Err(_) => {}
                                }
                            }
                            if !alive {
                                if let Some(w) = wopt.take() {
                                    w.kill();
                                }
                            }
                        }
                        None => {
                            if let Some(w) = wopt.take() {
                                w.kill();
                            }
                        }
                    }
                    *fl = Flight::default();
                    return Got::Failed(Single::Hang { phase, cpu_s: cpu, wall_s: wall, frame, samples }, inflight);
                }
            }
            Err(mpsc::RecvTimeoutError::Disconnected) => {
                let mut w = wopt.take().unwrap();
                let st = w.child.wait().expect("wait");
                use std::os::unix::process::ExitStatusExt;
                let how = match st.signal() {
                    Some(s) => signal_name(s),
                    None => format!("exit{}", st.code().unwrap_or(-1)),
                };
                let (class, tail) = stderr_class(&w.errpath);
                let (phase, inflight) = read_state_file(&w.statepath);
                let f = std::mem::take(fl);
                return Got::Failed(Single::Crash { how, phase, oom: f.oom, fault: f.fault, stderr_class: class, stderr_tail: tail }, inflight);
            }
        }
    }
}

/// Run one case alone in a fresh worker (used by --replay).
fn run_single(thorough: bool, scratch: &std::path::Path, tag: &str, f: Fam, idx: u64) -> Single {
    let mut w = match Worker::spawn(thorough, scratch, tag) {
        Ok(w) => w,
        Err(e) => return Single::Machinery(e),
    };
    if writeln!(w.stdin, "B {} {} 1", f.id(), idx).and_then(|_| w.stdin.flush()).is_err() {
        return Single::Machinery("cannot write to single worker".into());
    }
    let mut wopt = Some(w);
    let mut fl = Flight::default();
    match next_event(&mut wopt, &mut fl) {
        Got::Record(r) => {
            if let Some(mut w) = wopt.take() {
                drop(w.stdin);
                let _ = w.child.wait();
            }
            Single::Done(r)
        }
        Got::BatchEnd => Single::Machinery("batch ended without a record".into()),
        Got::Failed(s, _) => s,
    }
}

#[derive(Default)]
struct VAcc {
    first_idx: u64,
    count: u64,
    detail: String,
}

#[derive(Default)]
struct FamAcc {
    execs: u64,
    opened: u64,
    nontriv_cases: u64,
    inputs: HashSet<u64>,
    outcomes: HashSet<u64>,
    nontriv: HashSet<u64>,
    viol: BTreeMap<String, VAcc>,
    max_peak_kib: u64,
    max_peak_idx: u64,
    max_cpu_us: u64,
    max_cpu_idx: u64,
    cpu_total_us: u64,
    panics: u64,
    crashes: u64,
    hangs: u64,
    respawns: u64,
    identical_preset: u64,
}

impl FamAcc {
    fn violation(&mut self, key: String, idx: u64, detail: String) {
        let e = self.viol.entry(key).or_insert_with(|| VAcc { first_idx: idx, count: 0, detail: detail.clone() });
        if idx < e.first_idx {
            e.first_idx = idx;
            e.detail = detail;
        }
        e.count += 1;
    }
    fn record(&mut self, r: &Rec) {
        if r.status == 2 {
            self.identical_preset += 1;
            return;
        }
        self.execs += 1;
        self.inputs.insert(r.ih);
        self.outcomes.insert(r.oh);
        if r.opened {
            self.opened += 1;
        }
        if r.nontriv {
            self.nontriv_cases += 1;
            self.nontriv.insert(vx::hmix(r.ih, r.idx % np()));
        }
        if r.peak_kib > self.max_peak_kib {
            self.max_peak_kib = r.peak_kib;
            self.max_peak_idx = r.idx;
        }
        if r.cpu_us > self.max_cpu_us {
            self.max_cpu_us = r.cpu_us;
            self.max_cpu_idx = r.idx;
        }
        self.cpu_total_us += r.cpu_us;
        if r.status == 1 {
            self.panics += 1;
            self.violation(r.key.clone(), r.idx, format!("{} (driver phase {})", r.detail, r.phase));
        }
        if r.cpu_us as f64 > DEADLINE_CPU_S * 1e6 {
            self.violation("C01/deadline:case-completed-after-more-than-20s-cpu".into(), r.idx, format!("case took {:.1} s of CPU", r.cpu_us as f64 / 1e6));
        }
    }
    fn record_single(&mut self, idx: u64, s: Single) -> Option<String> {
        match s {
            Single::Done(r) => {
                self.record(&r);
                None
            }
            Single::Crash { how, phase, oom, fault, stderr_class, stderr_tail } => {
                self.execs += 1;
                self.crashes += 1;
                self.outcomes.insert(vx::h64(&("crash", &how, &phase)));
                match (oom, fault) {
                    (Some((size, site)), _) => self.violation(format!("C01/alloc-over-1GiB:{site}"), idx, format!("allocation of {size} bytes would exceed 1 GiB of live heap (driver phase {phase}); the process aborts ({how})")),
                    (None, Some(f)) => self.violation(format!("C01/{f}"), idx, format!("worker process died with {how} in driver phase {phase}; innermost library function {f}")),
                    (None, None) => self.violation(format!("C01/crash:{how}:{stderr_class}:in-{phase}"), idx, format!("worker process died with {how} in driver phase {phase}; stderr: {stderr_tail}")),
                }
                None
            }
            Single::Hang { phase, cpu_s, wall_s, frame, samples } => {
                self.execs += 1;
                self.hangs += 1;
                self.outcomes.insert(vx::h64(&("hang", &phase)));
                let key = if frame == "unknown" { format!("C01/hang:in-{phase}") } else { format!("C01/hang:{frame}") };
                self.violation(key, idx, format!("no result after {cpu_s:.1} s CPU / {wall_s:.1} s wall in driver phase {phase}; killed; library call stacks sampled before the kill: {samples:?}"));
                None
            }
            Single::Machinery(e) => Some(e),
        }
    }
    fn merge(&mut self, o: FamAcc) {
        self.execs += o.execs;
        self.opened += o.opened;
        self.nontriv_cases += o.nontriv_cases;
        self.inputs.extend(o.inputs);
        self.outcomes.extend(o.outcomes);
        self.nontriv.extend(o.nontriv);
        for (k, v) in o.viol {
            match self.viol.get_mut(&k) {
                Some(e) => {
                    e.count += v.count;
                    if v.first_idx < e.first_idx {
                        e.first_idx = v.first_idx;
                        e.detail = v.detail;
                    }
                }
                None => {
                    self.viol.insert(k, v);
                }
            }
        }
        if o.max_peak_kib > self.max_peak_kib {
            self.max_peak_kib = o.max_peak_kib;
            self.max_peak_idx = o.max_peak_idx;
        }
        if o.max_cpu_us > self.max_cpu_us {
            self.max_cpu_us = o.max_cpu_us;
            self.max_cpu_idx = o.max_cpu_idx;
        }
        self.cpu_total_us += o.cpu_total_us;
        self.panics += o.panics;
        self.crashes += o.crashes;
        self.hangs += o.hangs;
        self.respawns += o.respawns;
        self.identical_preset += o.identical_preset;
    }
}

struct Sweep {
    thorough: bool,
    scratch: std::path::PathBuf,
    totals: Vec<u64>,
    cursor: Mutex<(usize, u64)>,
    issued: Vec<AtomicU64>,
    deadline: Instant,
    capped: AtomicBool,
    machinery: Mutex<Vec<String>>,
    done: AtomicU64,
}

impl Sweep {
    /// Chunks are strided: chunk k of a family with S chunks holds the cases k, k+S, k+2S, …
    /// so that neighbouring cases (which tend to share a slow or crashing behaviour) are
    /// spread over all workers. Returns (family, first index, count, stride).
    fn next_chunk(&self) -> Option<(Fam, u64, u64, u64)> {
        let mut c = self.cursor.lock().unwrap();
        if Instant::now() >= self.deadline {
            if c.0 < FAMS.len() {
                self.capped.store(true, Ordering::SeqCst);
            }
            return None;
        }
        loop {
            if c.0 >= FAMS.len() {
                return None;
            }
            let total = self.totals[c.0];
            let nchunks = (total + CHUNK - 1) / CHUNK;
            if c.1 >= nchunks {
                c.0 += 1;
                c.1 = 0;
                continue;
            }
            let k = c.1;
            let count = (total - k + nchunks - 1) / nchunks;
            c.1 += 1;
            self.issued[c.0].store(c.1, Ordering::SeqCst);
            return Some((FAMS[c.0], k, count, nchunks));
        }
    }
}

fn manager(slot: usize, sw: &Sweep) -> Vec<FamAcc> {
    let mut accs: Vec<FamAcc> = (0..FAMS.len()).map(|_| FamAcc::default()).collect();
    let mut worker: Option<Worker> = None;
    let mut spawn_failures = 0;
    while let Some((fam, first, count, stride)) = sw.next_chunk() {
        let acc = &mut accs[fam.id()];
        let end = first + count * stride;
        let mut next = first;
        // a failed case waiting to be recorded once the cases before it (whose records were
        // lost with the dead child's buffer) have been run again
        let mut pending: Option<(u64, Single)> = None;
        while next < end {
            if pending.as_ref().map(|p| p.0 == next).unwrap_or(false) {
                let (f, s) = pending.take().unwrap();
                acc.respawns += 1;
                if let Some(e) = acc.record_single(f, s) {
                    sw.machinery.lock().unwrap().push(format!("{} #{f}: {e}", fam.name()));
                }
                sw.done.fetch_add(1, Ordering::Relaxed);
                next += stride;
                continue;
            }
            if worker.is_none() {
                match Worker::spawn(sw.thorough, &sw.scratch, &format!("w{slot}")) {
                    Ok(w) => worker = Some(w),
                    Err(e) => {
                        spawn_failures += 1;
                        if spawn_failures > 5 {
                            sw.machinery.lock().unwrap().push(format!("manager {slot}: {e}"));
                            return accs;
                        }
                        continue;
                    }
                }
            }
            let upto = pending.as_ref().map(|p| p.0).unwrap_or(end);
            let cmd = format!("B {} {} {} {}\n", fam.id(), next, (upto - next) / stride, stride);
            {
                let w = worker.as_mut().unwrap();
                if w.stdin.write_all(cmd.as_bytes()).and_then(|_| w.stdin.flush()).is_err() {
                    // dead before it could be asked: nothing was in flight
                    if let Some(w) = worker.take() {
                        w.kill();
                    }
                    spawn_failures += 1;
                    if spawn_failures > 50 {
                        sw.machinery.lock().unwrap().push(format!("manager {slot}: workers keep dying before accepting work"));
                        return accs;
                    }
                    continue;
                }
            }
            let mut fl = Flight::default();
            loop {
                match next_event(&mut worker, &mut fl) {
                    Got::Record(r) => {
                        if r.idx != next {
                            sw.machinery.lock().unwrap().push(format!("{}: record for case {} while {} was expected", fam.name(), r.idx, next));
                        }
                        acc.record(&r);
                        next = r.idx + stride;
                        sw.done.fetch_add(1, Ordering::Relaxed);
                    }
                    Got::BatchEnd => {
                        next = upto;
                        break;
                    }
                    Got::Failed(s, inflight) => {
                        // the shared cell names the case in flight; anything between the last
                        // record received and that case finished but went down with the buffer
                        let f = if inflight >= next && inflight < upto && (inflight - first) % stride == 0 { inflight } else { next };
                        pending = Some((f, s));
                        break;
                    }
                }
            }
        }
    }
    if let Some(mut w) = worker.take() {
        drop(w.stdin);
        let _ = w.child.wait();
    }
    accs
}

fn replay_choices(thorough: bool, idx: u64) -> Vec<u32> {
    vec![thorough as u32, (idx >> 32) as u32, (idx & 0xffff_ffff) as u32]
}

pub fn run(rep: &mut vx::Report) {
    rep.level = "fault_enumeration";
    let scratch = vx::verif_root().join(".scratch").join(format!("C01-{}", std::process::id()));
    let _ = std::fs::create_dir_all(&scratch);
    struct Cleanup(std::path::PathBuf);
    impl Drop for Cleanup {
        fn drop(&mut self) {
            let _ = std::fs::remove_dir_all(&self.0);
        }
    }
    let _cleanup = Cleanup(scratch.clone());

    // ---------------------------------------------------------------- replay of one case
    if let Some(t) = &rep.replay {
        let Some(fam) = Fam::from_name(&t.section) else { return };
        if t.choices.len() != 3 {
            return;
        }
        let thorough = t.choices[0] == 1;
        let idx = ((t.choices[1] as u64) << 32) | t.choices[2] as u64;
        let space = Space::new(thorough);
        write_seed_cache(&scratch.join("seeds.bin"), &space.seeds);
        rep.replay_ran = true;
        if idx >= space.cases(fam) {
            println!("replay: index {idx} outside family {} ({} cases)", fam.name(), space.cases(fam));
            return;
        }
        println!("replay section={} tier={} case={}", fam.name(), if thorough { "thorough" } else { "quick" }, serde_json::to_string(&space.describe(fam, idx)).unwrap_or_default());
        let (bytes, _) = space.build(fam, idx / np(), false);
        println!("input ({} bytes): {}", bytes.len(), vx::show_bytes(&bytes, 6000));
        let mut acc = FamAcc::default();
        let s = run_single(thorough, &scratch, "replay", fam, idx);
        println!("result: {s:?}");
        if let Some(e) = acc.record_single(idx, s) {
            rep.machinery_error(e);
        }
        for (k, v) in acc.viol {
            println!("violation key={k} detail={}", v.detail);
            rep.replay_hits.push(vx::Violation { key: k, detail: v.detail });
        }
        return;
    }

    let thorough = rep.tier.is_thorough();
    let t_start = Instant::now();
    let space = Space::new(thorough);
    write_seed_cache(&scratch.join("seeds.bin"), &space.seeds);
    rep.rule(
        "a case = (input, preset): input = one member of a mutation family applied to one seed file (or one micro-grammar / nesting document), preset in {strict, default, reader_new(=PdfReader::new), tolerant, lenient, skip_errors} (thorough) or {strict, default, skip_errors} (quick); \
         quick bounds: 14-value catalogue, per-byte families on the 5 structurally richest seeds with {delete, duplicate, ' ', '(', 0xFF}, ASCII85 groups over {!,s,u,z}, token sequences <= 3, no pairs; thorough: 28-value catalogue, all 11 seeds x 20 byte operations, ASCII85 over {!,s,t,u,z} in two placements, token sequences <= 4, all pairs of slots of one object / xref section; \
         cases are numbered family by family and every index is executed in an isolated worker process. distinct_inputs = distinct input byte strings; distinct_outcomes = distinct outcome signatures \
         (open result class, page count, per-phase ok/err counts, or panic key / crash / hang); non-trivial = the file opened and at least one indirect object was loaded as a non-null value.",
    );
    rep.assume("the oracle is 'every step returns Ok or Err': no panic (overflow checks on), no abnormal process end, <= 5 s of user-mode CPU per case (300 s wall at most), <= 1 GiB live heap per worker (counting global allocator refuses the allocation that would cross it)");
    rep.assume("refpdf::builder/filters produce the seed files (strict-validated below); one seed is the repository fixture interop_qpdf_rc4-40_empty.pdf, one is written by the library's own writer");
    rep.assume("ParseOptions::lenient() is compared field by field (Debug rendering) with ParseOptions::tolerant() at run time; when identical, the lenient case is not executed a second time and is counted separately");
    rep.assume("pages beyond the first 12 and object numbers beyond max-object-of-seed+3 (gen 0 only) are not walked by the driver");
    for n in &space.notes {
        rep.note("seed_note", json!(n));
    }

    // ---------------------------------------------------------------- seeds: validate + baseline
    {
        let t0 = Instant::now();
        let mut st = vx::SectionStats { name: "seed-baseline".into(), mode: "FULL".into(), exhaustive: true, ..Default::default() };
        let mut outs = HashSet::new();
        let mut table = Vec::new();
        for s in &space.seeds {
            if s.origin.starts_with("refpdf") || s.origin == "hand-assembled" {
                let issues = refpdf::file::validate(&s.bytes);
                if !issues.is_empty() {
                    rep.machinery_error(format!("seed {} does not pass the strict validator: {:?}", s.name, issues));
                }
            }
            let mut row = Vec::new();
            let mut any_full = false;
            for p in 0..PRESETS.len() {
                let r = vx::guard(|| drive(&s.bytes, p, s.max_obj + 3));
                st.executions += 1;
                match r {
                    Ok((sig, nt)) => {
                        let want = format!("open:ok|pc:{}|pg:{}/0|", s.expect_pages, s.expect_pages);
                        if sig.starts_with(&want) && nt && sig.contains("|tx:ok") {
                            any_full = true;
                            st.distinct_nontrivial += 1;
                        }
                        outs.insert(vx::h64(&sig));
                        row.push(json!({"preset": PRESETS[p], "outcome": sig}));
                    }
                    Err(pmsg) => {
                        outs.insert(vx::h64(&pmsg));
                        row.push(json!({"preset": PRESETS[p], "outcome": format!("PANIC {pmsg}")}));
                    }
                }
            }
            if !any_full {
                rep.machinery_error(format!("seed {} is not read completely under any preset: {}", s.name, serde_json::to_string(&row).unwrap_or_default()));
            }
            table.push(json!({"seed": s.name, "origin": s.origin, "bytes": s.bytes.len(), "numeric_slots": s.scan.slots.len(), "streams": s.scan.streams.len(),
                "xref_stream_payload_fields": s.xrefstms.iter().map(|x| x.rows() * 3).sum::<usize>(), "objstm_payload_tokens": s.objstms.iter().map(|o| o.toks.len()).sum::<usize>(), "baseline": row}));
        }
        st.states = st.executions;
        st.transitions = st.executions;
        st.evaluations = st.executions;
        st.distinct_inputs = space.seeds.len() as u64;
        st.distinct_outcomes = outs.len() as u64;
        st.max_depth = 0;
        st.samples = table.iter().take(3).cloned().collect();
        st.wall_s = t0.elapsed().as_secs_f64();
        rep.note("seeds", json!(table));
        rep.add_section(st, vec![]);
    }
    if let Ok(dir) = std::env::var("C01_DUMP") {
        let _ = std::fs::create_dir_all(&dir);
        for s in &space.seeds {
            let _ = std::fs::write(format!("{dir}/{}.pdf", s.name), &s.bytes);
            eprintln!("seed {}: streams {:?}", s.name, s.scan.streams);
            eprintln!("   offtoks {:?}", s.offtoks);
            for (k, sl) in s.scan.slots.iter().enumerate() {
                eprintln!("   {}", space.slot_label(space.seeds.iter().position(|x| x.name == s.name).unwrap(), k));
                let _ = sl;
            }
        }
    }
    if std::env::var("C01_SEEDS_ONLY").is_ok() {
        return;
    }

    // ---------------------------------------------------------------- the sweep
    // The budget (55 s quick, 14 min thorough) is meant for 16 idle cores. When other work
    // already occupies the machine the same CPU budget takes proportionally longer, so the
    // wall cap is stretched by the load factor seen at start (never shrunk).
    let ncpu = std::thread::available_parallelism().map(|n| n.get()).unwrap_or(16) as f64;
    let load1 = std::fs::read_to_string("/proc/loadavg").ok().and_then(|s| s.split_whitespace().next().and_then(|x| x.parse::<f64>().ok())).unwrap_or(0.0);
    let load_factor = ((load1 + ncpu) / ncpu).max(1.0);
    let base_cap = if thorough { 840.0 } else { 55.0 };
    let wall_cap = std::env::var("C01_WALL_CAP_S").ok().and_then(|s| s.parse::<f64>().ok()).unwrap_or(base_cap * load_factor);
    rep.note("wall_cap", json!({"base_s": base_cap, "load1_at_start": load1, "cpus": ncpu, "load_factor": load_factor, "effective_s": wall_cap}));
    let only: Option<String> = std::env::var("C01_ONLY").ok();
    let totals: Vec<u64> = FAMS.iter().map(|f| if only.as_deref().map(|o| o.split(',').any(|x| x == f.name())).unwrap_or(true) { space.cases(*f) } else { 0 }).collect();
    let sw = Sweep {
        thorough,
        scratch: scratch.clone(),
        totals: totals.clone(),
        cursor: Mutex::new((0, 0)),
        issued: (0..FAMS.len()).map(|_| AtomicU64::new(0)).collect(),
        deadline: t_start + Duration::from_secs_f64(wall_cap),
        capped: AtomicBool::new(false),
        machinery: Mutex::new(Vec::new()),
        done: AtomicU64::new(0),
    };
    let nworkers = vx::default_threads().max(1);
    let t_sweep = Instant::now();
    let mut merged: Vec<FamAcc> = (0..FAMS.len()).map(|_| FamAcc::default()).collect();
    let finished = AtomicBool::new(false);
    std::thread::scope(|s| {
        {
            let (sw, finished) = (&sw, &finished);
            s.spawn(move || {
                let mut last = Instant::now();
                while !finished.load(Ordering::SeqCst) {
                    std::thread::sleep(Duration::from_millis(200));
                    if last.elapsed() >= Duration::from_secs(30) {
                        last = Instant::now();
                        let c = sw.cursor.lock().unwrap();
                        eprintln!("[C01] progress: {} cases done, at family {} chunk {} of {}, {:.0} s", sw.done.load(Ordering::Relaxed), FAMS.get(c.0).map(|f| f.name()).unwrap_or("-"), c.1, (sw.totals.get(c.0).copied().unwrap_or(0) + CHUNK - 1) / CHUNK, t_sweep.elapsed().as_secs_f64());
                    }
                }
            });
        }
        let hs: Vec<_> = (0..nworkers).map(|slot| { let sw = &sw; s.spawn(move || manager(slot, sw)) }).collect();
        for h in hs {
            let accs = h.join().expect("manager thread");
            for (i, a) in accs.into_iter().enumerate() {
                merged[i].merge(a);
            }
        }
        finished.store(true, Ordering::SeqCst);
    });
    let sweep_wall = t_sweep.elapsed().as_secs_f64();
    for m in sw.machinery.lock().unwrap().drain(..) {
        rep.machinery_error(m);
    }
    let total_cpu: u64 = merged.iter().map(|a| a.cpu_total_us).sum::<u64>().max(1);
    for (i, fam) in FAMS.iter().enumerate() {
        let total = totals[i];
        if total == 0 {
            continue;
        }
        let acc = std::mem::take(&mut merged[i]);
        let issued = sw.issued[i].load(Ordering::SeqCst);
        let mut st = vx::SectionStats { name: fam.name().into(), mode: if *fam == Fam::NumPairs { "FULL(pairs)".into() } else { "FULL".into() }, ..Default::default() };
        st.executions = acc.execs;
        st.evaluations = acc.execs;
        st.states = acc.execs;
        st.transitions = acc.execs;
        st.distinct_inputs = acc.inputs.len() as u64;
        st.distinct_outcomes = acc.outcomes.len() as u64;
        st.distinct_nontrivial = acc.nontriv.len() as u64;
        st.max_depth = if *fam == Fam::NumPairs { 2 } else { 1 };
        if acc.execs + acc.identical_preset < total {
            st.caps_hit.push(format!("wall cap {wall_cap:.0} s reached: {} of {total} cases run ({} of {} strided chunks handed out; chunk k holds the cases k, k+S, k+2S, …)", acc.execs + acc.identical_preset, issued, (total + CHUNK - 1) / CHUNK));
        }
        st.exhaustive = st.caps_hit.is_empty();
        let step = (total / 6).max(1);
        let mut k = 0;
        while k < total && st.samples.len() < 8 {
            st.samples.push(space.describe(*fam, k));
            k += step;
        }
        st.samples.push(space.describe(*fam, total - 1));
        st.wall_s = sweep_wall * acc.cpu_total_us as f64 / total_cpu as f64;
        st.extra.insert("inputs".into(), json!(space.inputs(*fam)));
        st.extra.insert("presets".into(), json!(PRESETS));
        st.extra.insert("cases_total".into(), json!(total));
        st.extra.insert("cases_not_rerun_because_lenient_equals_tolerant".into(), json!(acc.identical_preset));
        st.extra.insert("opened_ok".into(), json!(acc.opened));
        st.extra.insert("nontrivial_cases".into(), json!(acc.nontriv_cases));
        st.extra.insert("panicking_cases".into(), json!(acc.panics));
        st.extra.insert("crashed_cases".into(), json!(acc.crashes));
        st.extra.insert("hung_cases".into(), json!(acc.hangs));
        st.extra.insert("abnormal_case_ends_handled".into(), json!(acc.respawns));
        st.extra.insert("max_peak_heap_bytes".into(), json!(acc.max_peak_kib * 1024));
        st.extra.insert("max_peak_heap_case".into(), json!(acc.max_peak_idx));
        st.extra.insert("max_case_cpu_ms".into(), json!(acc.max_cpu_us as f64 / 1000.0));
        st.extra.insert("max_case_cpu_case".into(), json!(acc.max_cpu_idx));
        st.extra.insert("cpu_seconds".into(), json!(acc.cpu_total_us as f64 / 1e6));
        let found: Vec<vx::FoundViolation> = acc
            .viol
            .iter()
            .map(|(k, v)| {
                let d = space.describe(*fam, v.first_idx);
                vx::FoundViolation {
                    key: k.clone(),
                    detail: format!("{} | first case: {}", v.detail, serde_json::to_string(&d).unwrap_or_default()),
                    section: fam.name().into(),
                    choices: replay_choices(thorough, v.first_idx),
                    labels: vec!["tier(0=quick,1=thorough)".into(), "case_index_hi".into(), "case_index_lo".into()],
                    count: v.count,
                    rendered: Some(d),
                }
            })
            .collect();
        rep.add_section(st, found);
    }
    rep.note("workers", json!(nworkers));
    rep.note("family_cases", json!(FAMS.iter().map(|f| (f.name().to_string(), json!(space.cases(*f)))).collect::<serde_json::Map<String, Value>>()));
    rep.note("lenient_preset_identical_to_tolerant", json!(lenient_is_tolerant()));
    rep.note("sweep_wall_s", json!(sweep_wall));
    rep.note("cases_per_second", json!(sw.done.load(Ordering::Relaxed) as f64 / sweep_wall.max(1e-9)));
    rep.note("catalogue", json!(if thorough { CAT.to_vec() } else { QUICK_CAT.to_vec() }));
    rep.note(
        "tier_bounds",
        json!({
            "tier": if thorough { "thorough" } else { "quick" },
            "presets": (0..np()).map(|k| PRESETS[preset_of(k)]).collect::<Vec<_>>(),
            "byte_and_truncation_seeds": space.bm_seeds.iter().map(|i| space.seeds[*i].name.clone()).collect::<Vec<_>>(),
            "byte_operations": space.byte_ops.iter().map(|o| format!("{o:?}")).collect::<Vec<_>>(),
            "ascii85_alphabet": String::from_utf8_lossy(&space.a85_alpha),
            "ascii85_prefixes": space.a85_prefixes,
            "token_sequence_max_length": space.tok_maxlen,
            "pairs": thorough,
            "family_order": FAMS.iter().map(|f| f.name()).collect::<Vec<_>>(),
        }),
    );
    rep.note("pair_catalogue", json!(PAIR_CAT));
}
