//! C01 — not built yet.
pub const BUILT: bool = false;
pub fn run(_rep: &mut vx::Report) {}
pub fn worker_main(_args: &[String]) -> i32 {
    2
}
