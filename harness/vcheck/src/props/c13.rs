//! C13 — text in embedded fonts is recoverable exactly.
//!
//! Space (all enumerated, nothing sampled):
//!  * `one-font`: each bundled font (Roboto-Regular.ttf → CIDFontType2, SourceSans3-Regular.otf
//!    → CIDFontType0) × every string of length 0..=3 over an 8-character alphabet (digits 1
//!    and 2 — consecutive codes of equal width —, composite-accented Latin, space, fi ligature,
//!    Cyrillic, Greek Omega, Ohm sign — a second code point on the SAME glyph), repeats included.
//!  * `two-fonts`: one page carrying a string in Roboto and a string in SourceSans3:
//!    quick: every pair of strings of length 0..=2 (73 × 73); thorough: every pair in which at
//!    least one string has length <= 2 and the other length <= 3 (585 × 73 + 73 × 512).
//!  * `astral`: strings over {1, U+1F16A} of length 1..=2 containing the astral character —
//!    recorded, not asserted (a 2-byte Identity-H code cannot address a CID above 0xFFFF).
//! The document is authored with the public API (`Document::add_font_from_bytes`,
//! `Page::text().set_font(Font::Custom).at().write()`, `Document::to_bytes`).
//! Oracle per case:
//!  (i)  the library's `TextExtractor` (via `PdfDocument::extract_text_from_page`) returns
//!       the drawn string(s);
//!  (ii) an independent extractor — refpdf::file (xref, page tree, resources, stream
//!       decoding), refpdf::content (operators), refpdf::cmap (ToUnicode) — returns them:
//!       Tj/TJ string bytes → 2-byte codes (Encoding must be Identity-H) → ToUnicode;
//!  (iii) for every code shown, the /W entry of its CID (or /DW) equals the ORIGINAL font's
//!       hmtx advance × 1000 / unitsPerEm within 1 unit;
//!  (iv) every CID reaches, through CIDToGIDMap (CIDFontType2) or the CFF charset
//!       (CIDFontType0 with a CID-keyed CFF), a glyph that exists in the embedded font
//!       program and whose flattened outline equals the outline of the glyph the ORIGINAL
//!       font maps the drawn character to (refpdf::ttf / refpdf::cff).
use oxidize_pdf::parser::{PdfDocument, PdfReader};
use oxidize_pdf::{Document, Font as LibFont, Page};
use refpdf::cff::Cff;
use refpdf::cmap::{CMap, Value};
use refpdf::content::parse_content;
use refpdf::file::PdfFile;
use refpdf::syntax::Obj;
use refpdf::ttf::{self, Font};
use serde_json::json;
use std::collections::BTreeMap;
use std::io::Cursor;
use vx::{Ctx, Explore, Report};

pub const BUILT: bool = true;

/// '1','2': consecutive code points with equal advance (→ `cfirst clast w` in /W, bfrange in
/// ToUnicode); é: composite glyph in Roboto; space: empty glyph; U+FB01: ligature far up the
/// BMP; Ж: Cyrillic; Ω and U+2126: two code points on one glyph.
const ALPHABET: [char; 8] = ['1', '2', '\u{E9}', ' ', '\u{FB01}', '\u{416}', '\u{3A9}', '\u{2126}'];
const ASTRAL: char = '\u{1F16A}';

// ------------------------------------------------------------------------------------
// reference view of a font program (outline + advance), cf. C12

#[derive(Clone, Debug, PartialEq)]
enum Shape {
    Tt(ttf::Outline),
    Cff(Vec<refpdf::cff::PathOp>),
}
impl Shape {
    fn diff(&self, o: &Shape) -> Option<String> {
        match (self, o) {
            (Shape::Tt(a), Shape::Tt(b)) => ttf::outline_diff(a, b),
            (Shape::Cff(a), Shape::Cff(b)) => refpdf::cff::path_diff(a, b),
            _ => Some("outline kinds differ".into()),
        }
    }
}

enum Program {
    Tt(Font),
    OtfCff(Font, Cff),
    RawCff(Cff),
}
impl Program {
    fn open_sfnt(b: &[u8]) -> Result<Program, String> {
        let f = Font::parse(b)?;
        if f.is_glyf() {
            Ok(Program::Tt(f))
        } else {
            let c = Cff::parse(f.sfnt.need_table(b"CFF ")?)?;
            Ok(Program::OtfCff(f, c))
        }
    }
    fn num_glyphs(&self) -> usize {
        match self {
            Program::Tt(f) | Program::OtfCff(f, _) => f.num_glyphs as usize,
            Program::RawCff(c) => c.num_glyphs(),
        }
    }
    fn shape(&self, gid: usize) -> Result<Shape, String> {
        match self {
            Program::Tt(f) => f.flatten(gid as u16).map(Shape::Tt),
            Program::OtfCff(_, c) | Program::RawCff(c) => c.glyph(gid).map(|g| Shape::Cff(g.path)),
        }
    }
    fn advance(&self, gid: usize) -> Result<f64, String> {
        match self {
            Program::Tt(f) | Program::OtfCff(f, _) => f.advance(gid as u16).map(|a| a as f64),
            Program::RawCff(c) => c.glyph(gid).map(|g| g.width),
        }
    }
}

struct Original {
    res_name: &'static str,
    file: &'static str,
    data: Vec<u8>,
    program: Program,
    cmap: ttf::Cmap,
    upem: f64,
}
impl Original {
    fn bundled(res_name: &'static str, file: &'static str) -> Original {
        let p = vx::repo_root().join("test-pdfs").join(file);
        let data = std::fs::read(&p).unwrap_or_else(|e| panic!("{}: {e}", p.display()));
        let program = Program::open_sfnt(&data).unwrap_or_else(|e| panic!("reference reader cannot open {file}: {e}"));
        let (cmap, upem) = match &program {
            Program::Tt(f) | Program::OtfCff(f, _) => (f.cmap().expect("cmap"), f.units_per_em as f64),
            _ => unreachable!(),
        };
        Original { res_name, file, data, program, cmap, upem }
    }
    fn gid(&self, ch: char) -> usize {
        self.cmap.unicode_lookup(ch as u32).unwrap_or(0) as usize
    }
}

// ------------------------------------------------------------------------------------
// independent reading of the written file

struct ShownText {
    /// resource name given to Tf
    font_res: Vec<u8>,
    /// concatenated string bytes of the Tj/TJ/'/" operators of one text object
    bytes: Vec<u8>,
}

struct EmbeddedFont {
    encoding: Vec<u8>,
    to_unicode: Option<CMap>,
    subtype: Vec<u8>,
    dw: f64,
    w: Obj,
    /// CIDToGIDMap: None = absent, Some(None) = /Identity, Some(Some(bytes)) = stream
    cid_to_gid: Option<Option<Vec<u8>>>,
    program: Result<Program, String>,
    program_kind: String,
}

fn read_font(f: &PdfFile, font: &Obj) -> Result<EmbeddedFont, String> {
    let name = |o: Obj| o.as_name().map(|n| n.to_vec()).unwrap_or_default();
    if name(f.dget(font, "Subtype")) != b"Type0" {
        return Err(format!("font /Subtype is {:?}, expected Type0", String::from_utf8_lossy(&name(f.dget(font, "Subtype")))));
    }
    let encoding = name(f.dget(font, "Encoding"));
    let to_unicode = match f.dget(font, "ToUnicode") {
        Obj::Stream(s) => Some(CMap::parse(&f.stream_data(&s)?).map_err(|e| format!("ToUnicode CMap does not parse: {e}"))?),
        Obj::Null => None,
        o => return Err(format!("/ToUnicode is a {}", o.type_name())),
    };
    let desc_arr = f.dget(font, "DescendantFonts");
    let d = desc_arr.as_array().and_then(|a| a.first()).map(|o| f.resolve(o)).ok_or("no /DescendantFonts[0]")?;
    let subtype = name(f.dget(&d, "Subtype"));
    let dw = f.dget(&d, "DW").as_num().unwrap_or(1000.0);
    let w = f.deep_resolve(&f.dget(&d, "W"), 3);
    let cid_to_gid = match f.dget(&d, "CIDToGIDMap") {
        Obj::Null => None,
        Obj::Name(n) if n == b"Identity" => Some(None),
        Obj::Stream(s) => Some(Some(f.stream_data(&s)?)),
        o => return Err(format!("/CIDToGIDMap is a {}", o.type_name())),
    };
    let fd = f.dget(&d, "FontDescriptor");
    let (program, program_kind) = if let Obj::Stream(s) = f.dget(&fd, "FontFile2") {
        (f.stream_data(&s).and_then(|b| Program::open_sfnt(&b)), "FontFile2".to_string())
    } else if let Obj::Stream(s) = f.dget(&fd, "FontFile3") {
        let st = name(f.resolve_opt(s.dict.get("Subtype")));
        let kind = format!("FontFile3/{}", String::from_utf8_lossy(&st));
        let p = f.stream_data(&s).and_then(|b| match st.as_slice() {
            b"CIDFontType0C" | b"Type1C" => Cff::parse(&b).map(Program::RawCff),
            b"OpenType" => Program::open_sfnt(&b),
            other => Err(format!("FontFile3 /Subtype {:?}", String::from_utf8_lossy(other))),
        });
        (p, kind)
    } else {
        (Err("FontDescriptor has neither FontFile2 nor FontFile3".to_string()), "none".to_string())
    };
    Ok(EmbeddedFont { encoding, to_unicode, subtype, dw, w, cid_to_gid, program, program_kind })
}

impl EmbeddedFont {
    /// ISO 32000-1 §9.7.4.3: `c [w1 w2 ...]` and `cfirst clast w`.
    fn width(&self, cid: u32) -> Result<f64, String> {
        let Some(a) = self.w.as_array() else { return Ok(self.dw) };
        let mut i = 0;
        let mut found = None;
        while i < a.len() {
            let c = a[i].as_int().ok_or("/W: expected an integer CID")? as u32;
            match a.get(i + 1) {
                Some(Obj::Array(ws)) => {
                    if cid >= c && ((cid - c) as usize) < ws.len() {
                        found = Some(ws[(cid - c) as usize].as_num().ok_or("/W: width not a number")?);
                        bump(&forms().w_array_form);
                    }
                    i += 2;
                }
                Some(o) => {
                    let last = o.as_int().ok_or("/W: expected clast")? as u32;
                    let w = a.get(i + 2).and_then(|x| x.as_num()).ok_or("/W: expected w after cfirst clast")?;
                    if cid >= c && cid <= last {
                        found = Some(w);
                        bump(&forms().w_range_form);
                    }
                    i += 3;
                }
                None => return Err("/W: dangling CID".into()),
            }
        }
        if found.is_none() {
            bump(&forms().w_default);
        }
        Ok(found.unwrap_or(self.dw))
    }

    /// Glyph a CID selects in the embedded program (§9.7.4.2).
    fn gid_of_cid(&self, cid: u32) -> Result<usize, String> {
        let prog = self.program.as_ref().map_err(|e| format!("embedded font program unreadable: {e}"))?;
        match self.subtype.as_slice() {
            b"CIDFontType2" => match &self.cid_to_gid {
                Some(Some(map)) => {
                    bump(&forms().cid_to_gid_stream);
                    let i = 2 * cid as usize;
                    Ok(if i + 1 < map.len() { (map[i] as usize) << 8 | map[i + 1] as usize } else { 0 })
                }
                Some(None) | None => Ok(cid as usize),
            },
            b"CIDFontType0" => match prog {
                Program::RawCff(c) | Program::OtfCff(_, c) => {
                    if c.is_cid {
                        bump(&forms().cff_charset);
                        Ok(if cid > 0xFFFF { 0 } else { c.gid_of_charset_id(cid as u16).unwrap_or(0) })
                    } else {
                        Ok(cid as usize) // name-keyed CFF: CIDs are glyph indices
                    }
                }
                Program::Tt(_) => Err("CIDFontType0 with a glyf-flavoured font program".into()),
            },
            o => Err(format!("descendant /Subtype {:?}", String::from_utf8_lossy(o))),
        }
    }
}

/// Text-showing operators of a content stream, grouped per BT..ET, with the font in force.
fn shown_texts(content: &[u8]) -> Result<Vec<ShownText>, String> {
    let ops = parse_content(content)?;
    let mut out = Vec::new();
    let mut font: Vec<u8> = Vec::new();
    let mut cur: Option<ShownText> = None;
    for op in &ops {
        match op.operator.as_slice() {
            b"BT" => cur = Some(ShownText { font_res: font.clone(), bytes: Vec::new() }),
            b"ET" => {
                if let Some(c) = cur.take() {
                    out.push(c);
                }
            }
            b"Tf" => {
                font = op.operands.first().and_then(|o| o.as_name()).map(|n| n.to_vec()).ok_or("Tf without a name")?;
                if let Some(c) = cur.as_mut() {
                    if c.bytes.is_empty() {
                        c.font_res = font.clone();
                    } else {
                        // font change inside a text object: start a new run
                        let done = cur.replace(ShownText { font_res: font.clone(), bytes: Vec::new() });
                        out.extend(done);
                    }
                }
            }
            b"Tj" | b"'" | b"\"" => {
                let s = op.operands.last().and_then(|o| o.as_str_bytes()).ok_or("Tj without a string")?;
                cur.as_mut().ok_or("Tj outside BT..ET")?.bytes.extend_from_slice(s);
            }
            b"TJ" => {
                let a = op.operands.first().and_then(|o| o.as_array()).ok_or("TJ without an array")?;
                for e in a {
                    if let Some(s) = e.as_str_bytes() {
                        cur.as_mut().ok_or("TJ outside BT..ET")?.bytes.extend_from_slice(s);
                    }
                }
            }
            _ => {}
        }
    }
    Ok(out)
}

// ------------------------------------------------------------------------------------

/// Which syntactic forms of /W and ToUnicode the enumerated cases went through.
#[derive(Default)]
struct Forms {
    w_array_form: std::sync::atomic::AtomicU64,
    w_range_form: std::sync::atomic::AtomicU64,
    w_default: std::sync::atomic::AtomicU64,
    bfchar: std::sync::atomic::AtomicU64,
    bfrange: std::sync::atomic::AtomicU64,
    cid_to_gid_stream: std::sync::atomic::AtomicU64,
    cff_charset: std::sync::atomic::AtomicU64,
}
static FORMS: std::sync::OnceLock<Forms> = std::sync::OnceLock::new();
fn forms() -> &'static Forms {
    FORMS.get_or_init(Forms::default)
}
fn bump(a: &std::sync::atomic::AtomicU64) {
    a.fetch_add(1, std::sync::atomic::Ordering::Relaxed);
}

#[derive(Default)]
struct Fails {
    by_key: BTreeMap<String, (String, u32)>,
}
impl Fails {
    fn add(&mut self, key: impl Into<String>, detail: impl Into<String>) {
        let e = self.by_key.entry(key.into()).or_insert_with(|| (detail.into(), 0));
        e.1 += 1;
    }
}

fn show(s: &str) -> String {
    s.chars().map(|c| if c.is_ascii_graphic() { c.to_string() } else { format!("\\u{{{:X}}}", c as u32) }).collect()
}

/// What the library extractor may add around / between separately drawn strings.
fn matches_with_separators(extracted: &str, parts: &[&str]) -> bool {
    // exact concatenation with whitespace-only separators between the drawn strings
    // (the strings are drawn on different lines; the line separator is the extractor's policy)
    fn rec(rest: &str, parts: &[&str]) -> bool {
        match parts.split_first() {
            None => rest.chars().all(|c| c == '\n' || c == '\r'),
            Some((p, tail)) => {
                // optional separator made of newline characters, then the part
                let mut r = rest;
                loop {
                    if let Some(after) = r.strip_prefix(*p) {
                        if rec(after, tail) {
                            return true;
                        }
                    }
                    match r.chars().next() {
                        Some(c) if c == '\n' || c == '\r' => r = &r[c.len_utf8()..],
                        _ => return false,
                    }
                }
            }
        }
    }
    rec(extracted, parts)
}

struct Drawn<'a> {
    orig: &'a Original,
    text: String,
}

fn run_case(c: &mut Ctx, drawn: &[Drawn], assert_all: bool) -> Vec<String> {
    let ctx = drawn.iter().map(|d| format!("{}:\"{}\"", d.orig.res_name, show(&d.text))).collect::<Vec<_>>().join(" + ");
    c.input(vx::h64(&drawn.iter().map(|d| (d.orig.res_name, d.text.clone())).collect::<Vec<_>>()));
    if drawn.iter().any(|d| !d.text.is_empty()) {
        c.nontrivial();
    }
    let mut fails = Fails::default();
    // ---- author
    let built = vx::guard(|| -> Result<Vec<u8>, String> {
        let mut doc = Document::new();
        let mut registered: Vec<&str> = Vec::new();
        for d in drawn {
            if !registered.contains(&d.orig.res_name) {
                doc.add_font_from_bytes(d.orig.res_name, d.orig.data.clone()).map_err(|e| format!("add_font_from_bytes: {e}"))?;
                registered.push(d.orig.res_name);
            }
        }
        let mut page = Page::a4();
        for (i, d) in drawn.iter().enumerate() {
            page.text()
                .set_font(LibFont::Custom(d.orig.res_name.to_string()), 12.0)
                .at(50.0, 700.0 - 40.0 * i as f64)
                .write(&d.text)
                .map_err(|e| format!("write: {e}"))?;
        }
        doc.add_page(page);
        doc.to_bytes().map_err(|e| format!("to_bytes: {e}"))
    });
    let bytes = match built {
        Ok(Ok(b)) => b,
        Ok(Err(e)) => {
            c.fail("C13/authoring-failed", format!("{ctx}: {e}"));
            return vec!["authoring-failed".into()];
        }
        Err(p) => {
            c.fail(format!("C13/authoring-panicked@{}", vx::panic_site(&p)), format!("{ctx}: {p}"));
            return vec!["authoring-panicked".into()];
        }
    };
    let parts: Vec<&str> = drawn.iter().map(|d| d.text.as_str()).filter(|t| !t.is_empty()).collect();
    // documented policy of the library extractor (text::extraction::sanitize_extracted_text:
    // "Collapses multiple consecutive spaces into a single space"): the expected text for
    // comparison (i) is the drawn text with runs of U+0020 collapsed. Comparison (ii) is exact.
    let collapsed: Vec<String> = parts.iter().map(|p| collapse_spaces(p)).collect();
    let lib_parts: Vec<&str> = collapsed.iter().map(|s| s.as_str()).collect();
    let mut oh = 0u64;

    // ---- (i) library extractor
    let lib = vx::guard(|| {
        let reader = PdfReader::new(Cursor::new(bytes.clone())).map_err(|e| format!("PdfReader: {e}"))?;
        let doc = PdfDocument::new(reader);
        doc.extract_text_from_page(0).map(|t| t.text).map_err(|e| format!("extract_text_from_page: {e}"))
    });
    match lib {
        Ok(Ok(text)) => {
            let ok = matches_with_separators(&text, &lib_parts);
            oh = vx::hmix(oh, ok as u64);
            if !ok {
                let want: String = lib_parts.join("\n");
                let key = classify_library_extraction(&text, &lib_parts);
                fails.add(key, format!("drew \"{}\", TextExtractor returned \"{}\"", show(&want), show(&text)));
            }
        }
        Ok(Err(e)) => fails.add("C13/library-extraction-failed", e),
        Err(p) => fails.add(format!("C13/library-extraction-panicked@{}", vx::panic_site(&p)), p),
    }

    // ---- (ii)–(iv) independent reading
    match independent(&bytes, drawn, &mut fails) {
        Ok(h) => oh = vx::hmix(oh, h),
        Err(e) => fails.add("C13/written-file-unreadable-by-reference-reader", e),
    }
    c.add_evaluations(drawn.iter().map(|d| d.text.chars().count() as u64).sum());
    c.sample(json!({"drawn": ctx, "file_len": bytes.len()}));
    let mut fh = 0u64;
    let mut keys = Vec::new();
    for (k, (d, n)) in fails.by_key {
        fh = vx::hmix(fh, vx::h64(&k));
        keys.push(format!("{k}: {d}"));
        if assert_all {
            c.fail(k, format!("{ctx}: {d} ({n} occurrence(s) in this case)"));
        }
    }
    c.outcome(vx::hmix(oh, fh));
    keys
}

fn collapse_spaces(s: &str) -> String {
    let mut out = String::new();
    for ch in s.chars() {
        if ch == ' ' && out.ends_with(' ') {
            continue;
        }
        out.push(ch);
    }
    out
}

/// Key for a library-extraction mismatch (narrow signatures first).
fn classify_library_extraction(got: &str, parts: &[&str]) -> String {
    let want_nows: String = parts.iter().flat_map(|p| p.chars()).filter(|c| !c.is_whitespace()).collect();
    let got_nows: String = got.chars().filter(|c| !c.is_whitespace()).collect();
    if want_nows == got_nows {
        // only white space differs
        "C13/library-extraction-differs-in-white-space-only".to_string()
    } else {
        "C13/library-extraction-differs".to_string()
    }
}

fn independent(bytes: &[u8], drawn: &[Drawn], fails: &mut Fails) -> Result<u64, String> {
    let f = PdfFile::parse(bytes)?;
    let pages = f.pages()?;
    let page = pages.first().ok_or("no page")?;
    let content = f.page_content(page)?;
    let shown: Vec<ShownText> = shown_texts(&content)?.into_iter().filter(|s| !s.bytes.is_empty()).collect();
    let expected: Vec<&Drawn> = drawn.iter().filter(|d| !d.text.is_empty()).collect();
    let mut oh = shown.len() as u64;
    if shown.len() != expected.len() {
        fails.add(
            "C13/content-stream-shows-a-different-number-of-strings",
            format!("{} non-empty text-showing runs in the content stream, {} strings drawn", shown.len(), expected.len()),
        );
        return Ok(oh);
    }
    let res = page.resources().map(|r| f.resolve(r)).ok_or("page has no /Resources")?;
    let fonts = f.dget(&res, "Font");
    for (st, d) in shown.iter().zip(&expected) {
        let fd = f.resolve_opt(fonts.dict_get(&String::from_utf8_lossy(&st.font_res)));
        if fd.is_null() {
            fails.add("C13/font-resource-missing", format!("/{} not in /Resources /Font", String::from_utf8_lossy(&st.font_res)));
            continue;
        }
        let ef = match read_font(&f, &fd) {
            Ok(e) => e,
            Err(e) => {
                fails.add("C13/font-dictionary-unreadable", e);
                continue;
            }
        };
        oh = vx::hmix(oh, vx::h64(&(&ef.subtype, &ef.program_kind, ef.cid_to_gid.is_some())));
        if ef.encoding != b"Identity-H" {
            fails.add("C13/encoding-not-identity-h", format!("/Encoding /{}", String::from_utf8_lossy(&ef.encoding)));
            continue;
        }
        if st.bytes.len() % 2 != 0 {
            fails.add("C13/odd-number-of-bytes-under-identity-h", format!("{} bytes", st.bytes.len()));
            continue;
        }
        let codes: Vec<[u8; 2]> = st.bytes.chunks(2).map(|p| [p[0], p[1]]).collect();
        // (ii) ToUnicode
        let mut text = String::new();
        let mut undecodable = false;
        match &ef.to_unicode {
            None => {
                fails.add("C13/no-tounicode", "Type0 font without /ToUnicode");
                undecodable = true;
            }
            Some(cm) => {
                for code in &codes {
                    if !cm.in_codespace(code) {
                        fails.add("C13/code-outside-tounicode-codespace", format!("<{:02X}{:02X}>", code[0], code[1]));
                        undecodable = true;
                        continue;
                    }
                    let mut cands = cm.candidates(code);
                    cands.dedup();
                    match cm.entries.iter().find(|e| e.covers(code)) {
                        Some(refpdf::cmap::Entry::BfChar { .. }) => bump(&forms().bfchar),
                        Some(_) => bump(&forms().bfrange),
                        None => {}
                    }
                    match cands.as_slice() {
                        [Value::Exact(dst)] => match refpdf::cmap::utf16be_to_string(dst) {
                            Some(s) => text.push_str(&s),
                            None => {
                                fails.add("C13/tounicode-destination-not-utf16", format!("<{:02X}{:02X}> -> {:02X?}", code[0], code[1], dst));
                                undecodable = true;
                            }
                        },
                        [] => {
                            fails.add("C13/code-missing-from-tounicode", format!("<{:02X}{:02X}> shown but not in ToUnicode", code[0], code[1]));
                            undecodable = true;
                        }
                        other => {
                            fails.add("C13/tounicode-ambiguous", format!("<{:02X}{:02X}> -> {other:?}", code[0], code[1]));
                            undecodable = true;
                        }
                    }
                }
            }
        }
        if !undecodable && text != d.text {
            fails.add(
                "C13/independent-extraction-differs",
                format!("drew \"{}\", content codes through ToUnicode give \"{}\"", show(&d.text), show(&text)),
            );
        }
        oh = vx::hmix(oh, (text == d.text) as u64);
        // codes ↔ characters (BMP text: one 2-byte code per character)
        let chars: Vec<char> = d.text.chars().collect();
        if chars.iter().any(|&ch| ch as u32 > 0xFFFF) {
            // astral: nothing below can be pinned (no 2-byte code addresses the CID)
            let units: Vec<u16> = d.text.encode_utf16().collect();
            oh = vx::hmix(oh, (codes.len() == units.len()) as u64);
            for code in &codes {
                let cid = (code[0] as u32) << 8 | code[1] as u32;
                let g = ef.gid_of_cid(cid).unwrap_or(0);
                oh = vx::hmix(oh, (g != 0) as u64);
                if g == 0 {
                    fails.add("C13/astral-character-shown-through-codes-without-glyph", format!("CID {cid:#06x} selects .notdef"));
                }
            }
            continue;
        }
        if codes.len() != chars.len() {
            fails.add("C13/code-count-differs-from-character-count", format!("{} codes for {} characters", codes.len(), chars.len()));
            continue;
        }
        for (code, &ch) in codes.iter().zip(&chars) {
            let cid = (code[0] as u32) << 8 | code[1] as u32;
            let og = d.orig.gid(ch);
            assert!(og != 0, "alphabet character U+{:04X} not mapped by {}", ch as u32, d.orig.file);
            // (iii) declared width
            let adv = d.orig.program.advance(og).expect("original advance");
            let want = adv * 1000.0 / d.orig.upem;
            match ef.width(cid) {
                Ok(w) => {
                    if (w - want).abs() > 1.0 {
                        fails.add(
                            "C13/declared-width-differs-from-font-advance",
                            format!("U+{:04X} CID {cid}: /W (or /DW) gives {w}, font advance {adv}/{} em = {want:.2}", ch as u32, d.orig.upem),
                        );
                    }
                }
                Err(e) => fails.add("C13/w-array-malformed", e),
            }
            // (iv) glyph presence and identity
            match ef.gid_of_cid(cid) {
                Err(e) => fails.add("C13/embedded-font-program-unusable", e),
                Ok(g) => {
                    let prog = ef.program.as_ref().unwrap();
                    if g >= prog.num_glyphs() {
                        fails.add(
                            "C13/cid-maps-to-glyph-outside-embedded-program",
                            format!("U+{:04X} CID {cid} -> glyph {g}, embedded program has {}", ch as u32, prog.num_glyphs()),
                        );
                        continue;
                    }
                    let a = d.orig.program.shape(og).expect("original outline");
                    match prog.shape(g) {
                        Ok(b) => {
                            if let Some(diff) = a.diff(&b) {
                                let key = if g == 0 {
                                    if matches!(prog, Program::RawCff(c) if c.is_cid) && shares_glyph_with_another_drawn_char(d, ch) {
                                        // KF signature: CFF charset holds ONE CID per glyph
                                        "C13/cff-charset-keeps-one-cid-per-glyph-other-code-point-gets-notdef"
                                    } else {
                                        "C13/cid-selects-notdef-in-embedded-program"
                                    }
                                } else {
                                    "C13/embedded-glyph-outline-differs-from-original"
                                };
                                fails.add(key, format!("U+{:04X} CID {cid} -> embedded glyph {g} vs original glyph {og}: {diff}", ch as u32));
                            }
                        }
                        Err(e) => fails.add("C13/embedded-glyph-undecodable", format!("U+{:04X} CID {cid} -> glyph {g}: {e}", ch as u32)),
                    }
                    if let Ok(ea) = prog.advance(g) {
                        if g != 0 && ea != adv {
                            fails.add("C13/embedded-glyph-advance-differs-from-original", format!("U+{:04X}: embedded {ea}, original {adv}", ch as u32));
                        }
                    }
                }
            }
        }
    }
    Ok(oh)
}

/// Is there another drawn character (same string) that the original font maps to the same glyph?
fn shares_glyph_with_another_drawn_char(d: &Drawn, ch: char) -> bool {
    let g = d.orig.gid(ch);
    d.text.chars().any(|o| o != ch && d.orig.gid(o) == g)
}

fn strings_upto(len: usize, alphabet: &[char]) -> Vec<String> {
    let mut out = vec![String::new()];
    let mut prev = vec![String::new()];
    for _ in 0..len {
        let mut next = Vec::new();
        for p in &prev {
            for &c in alphabet {
                let mut s = p.clone();
                s.push(c);
                next.push(s);
            }
        }
        out.extend(next.iter().cloned());
        prev = next;
    }
    out
}

pub fn run(rep: &mut Report) {
    let thorough = rep.tier.is_thorough();
    // Every case clones the 0.3-0.5 MB font several times inside the library; with the default
    // glibc thresholds each clone is an mmap/munmap pair and 16 threads serialise on the
    // address-space lock. Serve those buffers from the arenas instead (process-local tuning).
    unsafe {
        libc::mallopt(libc::M_MMAP_THRESHOLD, 16 << 20);
        libc::mallopt(libc::M_TRIM_THRESHOLD, 256 << 20);
        libc::mallopt(libc::M_TOP_PAD, 16 << 20);
    }
    rep.rule(
        "case = (font(s), drawn string(s)); every string of length 0..=3 over the 8-character alphabet is enumerated per font, \
         and every pair of shorter strings for the two-font page; non-trivial = at least one non-empty string is drawn; \
         distinct input = (font, string) tuple",
    );
    rep.assume("refpdf::file/content/cmap read the written PDF correctly; refpdf::ttf/cff read font programs correctly (validated on every glyph of both bundled fonts)");
    rep.assume("strings drawn by separate write() calls at different baselines may be separated by newline characters in the library's extracted text; nothing else may be added, dropped or changed");
    rep.assume("a width agrees when it is within 1 unit of advance*1000/unitsPerEm (either rounding convention)");

    let roboto = Original::bundled("Roboto", "Roboto-Regular.ttf");
    let sans = Original::bundled("SourceSans3", "SourceSans3-Regular.otf");
    for o in [&roboto, &sans] {
        for ch in ALPHABET.iter().chain([ASTRAL].iter()) {
            assert!(o.gid(*ch) != 0, "{} does not map U+{:04X}", o.file, *ch as u32);
        }
    }
    let s3 = strings_upto(3, &ALPHABET);
    let s2 = strings_upto(2, &ALPHABET);

    rep.explore("one-font", Explore::full(), |c: &mut Ctx| {
        let fi = c.choose("font", 2);
        let si = c.choose("string", s3.len());
        let orig = if fi == 0 { &roboto } else { &sans };
        let _ = run_case(c, &[Drawn { orig, text: s3[si].clone() }], true);
    });

    let len3: Vec<String> = s3[s2.len()..].to_vec();
    rep.explore("two-fonts", Explore::full(), |c: &mut Ctx| {
        let (a, b) = if !thorough {
            let i = c.choose("roboto_string", s2.len());
            let j = c.choose("sourcesans_string", s2.len());
            (s2[i].clone(), s2[j].clone())
        } else if !c.flag("sourcesans_has_length_3") {
            let i = c.choose("roboto_string", s3.len());
            let j = c.choose("sourcesans_string", s2.len());
            (s3[i].clone(), s2[j].clone())
        } else {
            let i = c.choose("roboto_string", s2.len());
            let j = c.choose("sourcesans_string", len3.len());
            (s2[i].clone(), len3[j].clone())
        };
        let _ = run_case(c, &[Drawn { orig: &roboto, text: a }, Drawn { orig: &sans, text: b }], true);
    });

    // ---- astral characters: recorded, not asserted
    let astral_strings: Vec<String> = strings_upto(2, &['1', ASTRAL]).into_iter().filter(|s| s.contains(ASTRAL)).collect();
    let astral_log: std::sync::Mutex<BTreeMap<String, Vec<String>>> = std::sync::Mutex::new(BTreeMap::new());
    rep.explore("astral", Explore::full(), |c: &mut Ctx| {
        let fi = c.choose("font", 2);
        let si = c.choose("string", astral_strings.len());
        let orig = if fi == 0 { &roboto } else { &sans };
        let keys = run_case(c, &[Drawn { orig, text: astral_strings[si].clone() }], false);
        astral_log.lock().unwrap().insert(format!("{} \"{}\"", orig.res_name, show(&astral_strings[si])), keys);
    });
    rep.note("astral_observations", json!(*astral_log.lock().unwrap()));
    let ld = |a: &std::sync::atomic::AtomicU64| a.load(std::sync::atomic::Ordering::Relaxed);
    let fm = forms();
    rep.note(
        "forms_exercised",
        json!({"W c [w..]": ld(&fm.w_array_form), "W cfirst clast w": ld(&fm.w_range_form), "W absent -> DW": ld(&fm.w_default),
               "ToUnicode bfchar": ld(&fm.bfchar), "ToUnicode bfrange": ld(&fm.bfrange),
               "CIDToGIDMap stream lookups": ld(&fm.cid_to_gid_stream), "CFF charset lookups": ld(&fm.cff_charset)}),
    );
    rep.note(
        "astral",
        json!("strings containing U+1F16A (mapped by both fonts) are written as UTF-16 surrogate pairs = two 2-byte Identity-H codes; no CID above 0xFFFF is addressable, so nothing is asserted for them; their outcomes are counted in section 'astral'"),
    );
}
