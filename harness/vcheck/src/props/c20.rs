//! C20 — writing the same document twice gives identical bytes.
//!
//! Space: programs (one document-building recipe per combination of feature levels: fonts,
//! images, patterns/shadings/graphics states, annotations, form fields, navigation) × the 8
//! unencrypted writer configurations (xref table|stream × object streams off|on × stream
//! compression on|off). Programs × configurations are enumerated exhaustively (quick: 32
//! programs, thorough: 240).
//! Every cell is serialized 4× in this process (document A twice, then freshly built documents
//! B and C once each) and once in each of 2 fresh processes (`vcheck --worker C20 …`);
//! thorough: 6× in-process (4 fresh builds) and 3 fresh processes.
//! The clock is held fixed through the public API: `set_creation_date`/`set_modification_date`
//! and `PdfWriter::write_document` (the `Document::to_bytes*`/`save*` wrappers overwrite the
//! modification date with the wall clock; they are covered by the `unpinned-clock` section,
//! where only the date fields are masked).
//! Oracle: byte identity. A difference is localised (first differing offset, enclosing
//! object) and classified by exact signature for the finding key.
//! Not enumerated (stated limit): `HashMap` iteration order. It is covered by repetition
//! across fresh maps (fresh builds, run in whatever explorer thread picks the cell up) and
//! fresh processes — an order-dependent emission over k ≥ 2 entries escapes the 4 independent
//! re-orderings of one quick cell with probability ≤ k!⁻⁴, and the verdict per finding key is
//! the OR over all cells that contain the feature.
use oxidize_pdf::annotations::{
    Icon, LinkAnnotation, MarkupAnnotation, SquareAnnotation, StampAnnotation, StampName, TextAnnotation,
};
use oxidize_pdf::forms::{
    create_checkbox_widget, ButtonWidget, CheckBox, FieldType, PushButton, TextField, Widget, WidgetAppearance,
};
use oxidize_pdf::graphics::{
    AxialShading, BlendMode, ColorStop, ConicShading, FreeFormGouraudShading, GouraudVertex, PaintType,
    Point as ShPoint, RadialShading, ShadingDefinition, TilingPattern, TilingType,
};
use oxidize_pdf::structure::{Destination, NamedDestinations, OutlineItem, OutlineTree, PageDestination};
use oxidize_pdf::viewer_preferences::ViewerPreferences;
use oxidize_pdf::writer::{PdfWriter, WriterConfig};
use oxidize_pdf::{Action, Color, ColorSpace, Document, DocumentMetadata, Font, Image, Page, PageLabelBuilder, Point, Rectangle};
use refpdf::syntax::{Dict, Obj, Parser};
use serde_json::json;
use std::sync::OnceLock;
use vx::{Ctx, Explore, Report};

pub const BUILT: bool = true;

// ------------------------------------------------------------------ programs

#[derive(Clone, Copy, Debug, PartialEq, Eq, Hash)]
pub struct Prog {
    fonts: usize,
    images: usize,
    gfx: usize,
    annots: usize,
    forms: usize,
    nav: usize,
}

const FONTS_LEVELS: [&str; 3] = ["standard fonts", "standard + 1 embedded TrueType", "standard + 2 embedded TrueType"];
const IMAGES_LEVELS: [&str; 2] = ["no images", "RGB + RGBA(soft mask) + gray on page 1, RGB on page 2"];
const GFX_LEVELS: [&str; 2] = ["plain paths", "2 tiling patterns, axial+radial+conic+mesh shadings, 3 ExtGStates"];
const ANNOTS_LEVELS: [&str; 2] = ["no annotations", "link, text note, highlight, square, stamp"];
const FORMS_LEVELS: [&str; 5] = [
    "no form",
    "text field (FormManager, /AP /N) filled with fill_field",
    "check box + push button (FormManager, widget /AP with /N /R /D)",
    "check box widget annotation (create_checkbox_widget, /AP /N << /Yes /Off >>)",
    "text field + check box + legacy check box together",
];
const NAV_LEVELS: [&str; 2] = ["no navigation", "outline, named destinations, page labels, open action, viewer preferences"];

fn levels(thorough: bool) -> [usize; 6] {
    // number of levels per feature in this tier; 0 for gfx/annots = tied to the images level
    // (quick: "page extras" = images + graphics resources + annotations, none/all as one feature)
    if thorough {
        [3, 2, 2, 2, 5, 2]
    } else {
        [2, 2, 0, 0, 4, 2]
    }
}

fn prog_from_index(mut i: usize, lv: &[usize; 6]) -> Prog {
    let mut v = [0usize; 6];
    for k in (0..6).rev() {
        let n = lv[k].max(1);
        v[k] = i % n;
        i /= n;
    }
    if lv[2] == 0 {
        v[2] = v[1];
    }
    if lv[3] == 0 {
        v[3] = v[1];
    }
    Prog { fonts: v[0], images: v[1], gfx: v[2], annots: v[3], forms: v[4], nav: v[5] }
}
fn prog_index(p: &Prog, lv: &[usize; 6]) -> usize {
    let v = [p.fonts, p.images, if lv[2] == 0 { 0 } else { p.gfx }, if lv[3] == 0 { 0 } else { p.annots }, p.forms, p.nav];
    let mut i = 0;
    for k in 0..6 {
        i = i * lv[k].max(1) + v[k];
    }
    i
}

fn config_of(i: usize) -> WriterConfig {
    WriterConfig {
        use_xref_streams: i & 1 != 0,
        use_object_streams: i & 2 != 0,
        pdf_version: if i & 3 != 0 { "1.5" } else { "1.7" }.to_string(),
        compress_streams: i & 4 == 0,
        incremental_update: false,
    }
}
fn config_name(i: usize) -> String {
    format!(
        "xref={} objstm={} compress={}",
        if i & 1 != 0 { "stream" } else { "table" },
        if i & 2 != 0 { "on" } else { "off" },
        if i & 4 == 0 { "on" } else { "off" }
    )
}

fn font_bytes() -> &'static Vec<u8> {
    static F: OnceLock<Vec<u8>> = OnceLock::new();
    F.get_or_init(|| {
        let p = vx::repo_root().join("test-pdfs/Roboto-Regular.ttf");
        std::fs::read(&p).unwrap_or_else(|e| panic!("cannot read {}: {e}", p.display()))
    })
}

fn rect(x: f64, y: f64, w: f64, h: f64) -> Rectangle {
    Rectangle::new(Point::new(x, y), Point::new(x + w, y + h))
}

fn e<T, E: std::fmt::Display>(r: Result<T, E>, what: &str) -> Result<T, String> {
    r.map_err(|e| format!("{what}: {e}"))
}

/// Pin both dates to 2026-01-02 03:04:05 UTC without naming the chrono crate (vcheck does not
/// depend on it): `DateTime<Utc>::default()` is the Unix epoch and `+ std::time::Duration` is
/// implemented for it.
fn pin_dates(doc: &mut Document) {
    fn epoch_like<T: Default>(_witness: &T) -> T {
        T::default()
    }
    let now = DocumentMetadata::default().creation_date.expect("default creation date");
    let epoch = epoch_like(&now);
    let fixed = epoch + std::time::Duration::from_secs(1_767_323_045);
    doc.set_creation_date(fixed);
    doc.set_modification_date(fixed);
}

/// Build the document of a program. Deterministic recipe: the same calls in the same order.
pub fn build(p: &Prog) -> Result<Document, String> {
    let mut doc = Document::new();
    pin_dates(&mut doc);
    doc.set_title("Determinism probe (Año €)");
    doc.set_author("vcheck C20");
    doc.set_subject("same content, same bytes");
    doc.set_keywords("a, b; (c) \\ d");

    if p.fonts >= 1 {
        e(doc.add_font_from_bytes("alpha", font_bytes().clone()), "add_font alpha")?;
    }
    if p.fonts >= 2 {
        e(doc.add_font_from_bytes("beta", font_bytes().clone()), "add_font beta")?;
    }

    // ---------------- page 1
    let mut page = Page::a4();
    e(page.text().set_font(Font::Helvetica, 12.0).at(72.0, 780.0).write("Helvetica line (one)"), "text")?;
    e(page.text().set_font(Font::TimesBold, 14.0).at(72.0, 760.0).write("Times bold \\ back (paren)"), "text")?;
    e(page.text().set_font(Font::CourierOblique, 10.0).at(72.0, 744.0).write("Courier oblique"), "text")?;
    if p.fonts >= 1 {
        e(page.text().set_font(Font::custom("alpha"), 12.0).at(72.0, 724.0).write("Alpha lazy dog 0123"), "custom text")?;
    }
    if p.fonts >= 2 {
        e(page.text().set_font(Font::custom("beta"), 11.0).at(72.0, 708.0).write("Beta quick fox xyz"), "custom text")?;
    }
    page.graphics()
        .set_fill_color(Color::rgb(0.2, 0.4, 0.6))
        .rect(72.0, 640.0, 100.0, 40.0)
        .fill()
        .set_stroke_color(Color::rgb(0.9, 0.1, 0.1))
        .set_line_width(1.5)
        .move_to(72.0, 630.0)
        .line_to(300.0, 630.0)
        .stroke();

    if p.images >= 1 {
        let rgb = Image::from_raw_data(vec![255, 0, 0, 0, 255, 0, 0, 0, 255, 255, 255, 0], 2, 2, ColorSpace::DeviceRGB, 8);
        page.add_image("ImB", rgb);
        let rgba = e(Image::from_rgba_data(vec![255, 0, 0, 255, 0, 255, 0, 192, 0, 0, 255, 128, 255, 255, 0, 64], 2, 2), "rgba")?;
        page.add_image("ImA", rgba);
        let gray = e(Image::from_gray_data(vec![0, 64, 128, 255, 10, 20], 3, 2), "gray")?;
        page.add_image("ImC", gray);
        e(page.draw_image("ImB", 320.0, 700.0, 40.0, 40.0), "draw")?;
        e(page.draw_image("ImA", 370.0, 700.0, 40.0, 40.0), "draw")?;
        e(page.draw_image("ImC", 420.0, 700.0, 60.0, 40.0), "draw")?;
    }

    if p.gfx >= 1 {
        for (name, colour) in [("PatB", "1 0 0 rg"), ("PatA", "0 0 1 rg"), ("PatC", "0 1 0 rg")] {
            let mut pat = TilingPattern::new(name.to_string(), PaintType::Colored, TilingType::ConstantSpacing, [0.0, 0.0, 10.0, 10.0], 10.0, 10.0);
            pat.add_command(colour);
            pat.add_command("0 0 5 5 re");
            pat.add_command("f");
            e(page.add_pattern(name, pat), "pattern")?;
        }
        page.graphics().add_command("/Pattern cs");
        page.graphics().add_command("/PatB scn");
        page.graphics().rect(72.0, 560.0, 60.0, 40.0).fill();
        let stops = || vec![ColorStop::new(0.0, Color::rgb(1.0, 0.0, 0.0)), ColorStop::new(1.0, Color::rgb(0.0, 0.0, 1.0))];
        let ax = AxialShading::new("ShB".to_string(), ShPoint::new(0.0, 0.0), ShPoint::new(100.0, 0.0), stops());
        e(page.add_shading("ShB", ShadingDefinition::Axial(ax)), "axial")?;
        let rad = RadialShading::new("ShA".to_string(), ShPoint::new(50.0, 50.0), 0.0, ShPoint::new(50.0, 50.0), 40.0, stops());
        e(page.add_shading("ShA", ShadingDefinition::Radial(rad)), "radial")?;
        let conic = ConicShading::new("ShD", ShPoint::new(50.0, 50.0), [0.0, 100.0, 0.0, 100.0], stops());
        e(page.add_conic_shading("ShD", conic), "conic")?;
        let mesh = FreeFormGouraudShading::new(
            "ShC",
            "DeviceRGB",
            vec![0.0, 100.0, 0.0, 100.0, 0.0, 1.0, 0.0, 1.0, 0.0, 1.0],
            vec![
                GouraudVertex { flag: 0, x: 0.0, y: 0.0, color: Color::rgb(1.0, 0.0, 0.0) },
                GouraudVertex { flag: 0, x: 100.0, y: 0.0, color: Color::rgb(0.0, 1.0, 0.0) },
                GouraudVertex { flag: 0, x: 50.0, y: 100.0, color: Color::rgb(0.0, 0.0, 1.0) },
            ],
        );
        e(page.add_mesh_shading("ShC", mesh), "mesh")?;
        page.graphics().save_state().rect(150.0, 560.0, 100.0, 40.0).clip().end_path().paint_shading("ShB").restore_state();
        e(page.graphics().set_alpha(0.5), "alpha")?;
        page.graphics().set_fill_color(Color::rgb(1.0, 0.5, 0.0)).rect(260.0, 560.0, 40.0, 40.0).fill();
        e(page.graphics().set_blend_mode(BlendMode::Multiply), "blend")?;
        e(page.graphics().set_alpha(0.25), "alpha")?;
        page.graphics().rect(280.0, 570.0, 40.0, 40.0).fill();
    }

    if p.annots >= 1 {
        let r = rect(72.0, 500.0, 128.0, 20.0);
        page.add_annotation(LinkAnnotation::to_uri(r, "https://example.org/a(b)").to_annotation());
        page.add_annotation(TextAnnotation::new(Point::new(300.0, 500.0)).with_contents("note (one)").with_icon(Icon::Comment).to_annotation());
        page.add_annotation(MarkupAnnotation::highlight(r).with_author("me").with_contents("hl").to_annotation());
        page.add_annotation(SquareAnnotation::new(rect(72.0, 460.0, 50.0, 30.0)).with_interior_color(Color::rgb(0.9, 0.9, 1.0)).to_annotation());
        page.add_annotation(StampAnnotation::new(rect(150.0, 460.0, 80.0, 30.0), StampName::Draft).to_annotation());
    }

    // forms: widgets go on the page before it is added; fill_field after
    let want_text = p.forms == 1 || p.forms == 4;
    let want_btn = p.forms == 2 || p.forms == 4;
    let want_legacy = p.forms == 3 || p.forms == 4;
    if want_text {
        let w = Widget::new(rect(100.0, 400.0, 200.0, 20.0)).with_appearance(WidgetAppearance::default());
        let fref = e(doc.enable_forms().add_text_field(TextField::new("email"), w.clone(), None), "add_text_field")?;
        e(page.add_form_widget_with_ref(w, fref), "widget")?;
        let w2 = Widget::new(rect(100.0, 370.0, 200.0, 20.0)).with_appearance(WidgetAppearance::default());
        let fref2 = e(doc.enable_forms().add_text_field(TextField::new("name").with_value("N. N."), w2.clone(), None), "add_text_field")?;
        e(page.add_form_widget_with_ref(w2, fref2), "widget")?;
    }
    if want_btn {
        let mut cbw = Widget::new(rect(100.0, 340.0, 15.0, 15.0));
        e(cbw.generate_appearance(FieldType::Button, Some("Yes")), "generate_appearance")?;
        let cref = e(doc.enable_forms().add_checkbox(CheckBox::new("agree").checked(), cbw.clone(), None), "add_checkbox")?;
        e(page.add_form_widget_with_ref(cbw, cref), "widget")?;
        let mut pbw = Widget::new(rect(130.0, 340.0, 60.0, 15.0));
        e(pbw.generate_appearance(FieldType::Button, None), "generate_appearance")?;
        let pref = e(doc.enable_forms().add_push_button(PushButton::new("send").with_caption("Send"), pbw.clone(), None), "add_push_button")?;
        e(page.add_form_widget_with_ref(pbw, pref), "widget")?;
    }
    if want_legacy {
        doc.enable_forms();
        let a = e(create_checkbox_widget(&CheckBox::new("legacy").checked(), &ButtonWidget::new(rect(100.0, 310.0, 15.0, 15.0))), "create_checkbox_widget")?;
        page.add_annotation(a);
        let b = e(create_checkbox_widget(&CheckBox::new("legacy2"), &ButtonWidget::new(rect(130.0, 310.0, 15.0, 15.0))), "create_checkbox_widget")?;
        page.add_annotation(b);
    }
    doc.add_page(page);
    if want_text {
        e(doc.fill_field("email", "user@example.com"), "fill_field")?;
    }

    // ---------------- page 2
    let mut page2 = Page::letter();
    e(page2.text().set_font(Font::HelveticaBold, 16.0).at(72.0, 700.0).write("Second page"), "text")?;
    if p.fonts >= 1 {
        e(page2.text().set_font(Font::custom("alpha"), 9.0).at(72.0, 680.0).write("more glyphs: QWERTZ"), "custom text")?;
    }
    if p.images >= 1 {
        let rgb = Image::from_raw_data(vec![9, 8, 7, 6, 5, 4], 2, 1, ColorSpace::DeviceRGB, 8);
        page2.add_image("ImZ", rgb);
        e(page2.draw_image("ImZ", 72.0, 600.0, 50.0, 25.0), "draw")?;
    }
    if p.gfx >= 1 {
        e(page2.graphics().set_alpha(0.75), "alpha")?;
        page2.graphics().rect(72.0, 500.0, 30.0, 30.0).fill();
    }
    if p.annots >= 1 {
        page2.add_annotation(TextAnnotation::new(Point::new(100.0, 400.0)).with_contents("p2").to_annotation());
    }
    doc.add_page(page2);

    if p.nav >= 1 {
        let d = |n: u32| Destination::fit(PageDestination::PageNumber(n));
        let mut tree = OutlineTree::new();
        let mut ch = OutlineItem::new("Chapter 1").with_destination(d(0));
        ch.add_child(OutlineItem::new("Section 1.1").with_destination(Destination::xyz(PageDestination::PageNumber(0), Some(72.0), Some(700.0), None)));
        ch.add_child(OutlineItem::new("Section 1.2 (closed)").with_destination(d(1)).closed());
        tree.add_item(ch);
        tree.add_item(OutlineItem::new("Chapter 2").with_destination(d(1)).bold());
        tree.add_item(OutlineItem::new("Appendix").italic());
        doc.set_outline(tree);
        let mut nd = NamedDestinations::new();
        nd.add_destination("zeta".to_string(), d(1).to_array());
        nd.add_destination("alpha".to_string(), d(0).to_array());
        nd.add_destination("mid(dle)".to_string(), Destination::fit_h(PageDestination::PageNumber(0), Some(400.0)).to_array());
        doc.set_named_destinations(nd);
        doc.set_page_labels(PageLabelBuilder::new().roman_pages(1, false).decimal_pages(1).build());
        doc.set_open_action(Action::goto(d(0)));
        doc.set_viewer_preferences(ViewerPreferences::new().display_doc_title(true).fit_window(true));
    }
    Ok(doc)
}

pub fn serialize(doc: &mut Document, cfg: usize) -> Result<Vec<u8>, String> {
    // capacity hint only: with object streams the writer numbers the stream 1000000 and emits a
    // cross-reference section with a million entries (20 MB as a table, 6 MB as a raw stream)
    let cap = match (cfg & 3, cfg & 4) {
        (2, _) => 20_200_000,
        (3, 4) => 6_200_000,
        _ => 1 << 16,
    };
    let mut buf = Vec::with_capacity(cap);
    {
        let mut w = PdfWriter::with_config(&mut buf, config_of(cfg));
        e(w.write_document(doc), "write_document")?;
    }
    Ok(buf)
}

/// Cost accounting (thread CPU time for in-process work, wall time for worker processes),
/// reported in the evidence so that the tier budgets can be judged on a loaded machine.
mod cost {
    use std::sync::atomic::{AtomicU64, Ordering};
    pub static BUILD: AtomicU64 = AtomicU64::new(0);
    pub static SER: [AtomicU64; 8] = [const { AtomicU64::new(0) }; 8];
    pub static CMP: AtomicU64 = AtomicU64::new(0);
    pub static WORKER_WALL: [AtomicU64; 8] = [const { AtomicU64::new(0) }; 8];
    pub fn cpu_ns() -> u64 {
        let mut ts = libc::timespec { tv_sec: 0, tv_nsec: 0 };
        unsafe { libc::clock_gettime(libc::CLOCK_THREAD_CPUTIME_ID, &mut ts) };
        ts.tv_sec as u64 * 1_000_000_000 + ts.tv_nsec as u64
    }
    pub fn add(a: &AtomicU64, since: u64) {
        a.fetch_add(cpu_ns().saturating_sub(since), Ordering::Relaxed);
    }
    pub fn ms(a: &AtomicU64) -> u64 {
        a.load(Ordering::Relaxed) / 1_000_000
    }
}

fn timed_build(p: &Prog) -> Result<Document, String> {
    let t = cost::cpu_ns();
    let r = build(p);
    cost::add(&cost::BUILD, t);
    r
}
fn timed_serialize(doc: &mut Document, cfg: usize) -> Result<Vec<u8>, String> {
    let t = cost::cpu_ns();
    let r = serialize(doc, cfg);
    cost::add(&cost::SER[cfg], t);
    r
}

fn guarded<T>(f: impl FnOnce() -> Result<T, String>) -> Result<T, String> {
    match vx::guard(f) {
        Ok(r) => r,
        Err(p) => Err(format!("panic: {p}")),
    }
}

// ------------------------------------------------------------------ localisation

#[derive(Debug, Clone)]
pub struct Locus {
    offset: usize,
    len_a: usize,
    len_b: usize,
    /// "object 12 0" / "xref table" / "trailer" / "header"
    region: String,
    /// /Type and /Subtype of the enclosing object when it parses
    class: String,
    obj_start: Option<usize>,
}

fn first_diff(a: &[u8], b: &[u8]) -> Option<usize> {
    if a == b {
        return None; // memcmp fast path: the usual case, and the files can be 20 MB
    }
    let n = a.len().min(b.len());
    match (0..n).find(|&i| a[i] != b[i]) {
        Some(i) => Some(i),
        None if a.len() != b.len() => Some(n),
        None => None,
    }
}

/// Offset of the last "N G obj" header that starts a line at or before `pos`.
fn enclosing_obj_header(b: &[u8], pos: usize) -> Option<(usize, u32, u16)> {
    let mut i = pos.min(b.len());
    loop {
        // find previous line start
        let ls = b[..i].iter().rposition(|&c| c == b'\n').map(|p| p + 1).unwrap_or(0);
        let le = b[ls..].iter().position(|&c| c == b'\n').map(|p| ls + p).unwrap_or(b.len());
        let line = &b[ls..le];
        if line.ends_with(b" obj") {
            let txt = String::from_utf8_lossy(&line[..line.len() - 4]).to_string();
            let mut it = txt.split(' ');
            if let (Some(n), Some(g), None) = (it.next(), it.next(), it.next()) {
                if let (Ok(n), Ok(g)) = (n.parse::<u32>(), g.parse::<u16>()) {
                    return Some((ls, n, g));
                }
            }
        }
        if line == b"xref" || line == b"trailer" {
            return None;
        }
        if ls == 0 {
            return None;
        }
        i = ls - 1;
    }
}

fn parse_obj_at(b: &[u8], start: usize) -> Option<(Obj, usize)> {
    let mut p = Parser::new(b, start);
    match p.indirect_object(&|l| l.as_int()) {
        Ok((_, _, o)) => Some((o, p.pos)),
        Err(_) => None,
    }
}

fn class_of(o: &Obj) -> String {
    let d: Option<&Dict> = match o {
        Obj::Dict(d) => Some(d),
        Obj::Stream(s) => Some(&s.dict),
        _ => None,
    };
    match d {
        None => o.type_name().to_string(),
        Some(d) => {
            let nm = |k: &str| d.get(k).and_then(|x| x.as_name()).map(|n| String::from_utf8_lossy(n).to_string());
            let mut s = match (nm("Type"), nm("Subtype")) {
                (Some(t), Some(st)) => format!("{t}/{st}"),
                (Some(t), None) => t,
                (None, Some(st)) => format!("-/{st}"),
                (None, None) => {
                    if d.get("Title").is_some() && d.get("Parent").is_some() {
                        "outline-item".to_string()
                    } else if d.get("FT").is_some() {
                        "field".to_string()
                    } else if d.get("Producer").is_some() {
                        "Info".to_string()
                    } else {
                        "untyped".to_string()
                    }
                }
            };
            if matches!(o, Obj::Stream(_)) {
                s.push_str(" stream");
            }
            s
        }
    }
}

pub fn locate(a: &[u8], b: &[u8]) -> Option<Locus> {
    let off = first_diff(a, b)?;
    let (region, class, obj_start) = match enclosing_obj_header(a, off) {
        Some((start, n, g)) => {
            let class = parse_obj_at(a, start).map(|(o, _)| class_of(&o)).unwrap_or_else(|| "unparsable".into());
            (format!("object {n} {g}"), class, Some(start))
        }
        None => {
            let before = &a[..off.min(a.len())];
            let r = if refpdf::file::find_first(before, b"trailer", 0).is_some() {
                "trailer"
            } else if before.windows(5).any(|w| w == b"xref\n") {
                "xref table"
            } else {
                "header"
            };
            (r.to_string(), r.to_string(), None)
        }
    };
    Some(Locus { offset: off, len_a: a.len(), len_b: b.len(), region, class, obj_start })
}

/// Entries of the dictionary of the object starting at `start`, with the end offset of the
/// dictionary text (the `>>`), parsed leniently enough for both serializers.
fn dict_of_obj(b: &[u8], start: usize) -> Option<(Dict, usize)> {
    let mut p = Parser::new(b, start);
    p.obj_header().ok()?;
    p.skip_ws();
    match p.parse_object().ok()? {
        Obj::Dict(d) => Some((d, p.pos)),
        _ => None,
    }
}

/// Classify a difference by exact signature. Anything unrecognised gets a generic key built
/// from the class of the enclosing object, so that it surfaces as a new violation.
pub fn classify(a: &[u8], b: &[u8], l: &Locus) -> String {
    // --- signature 1: the cross-reference stream dictionary has the same entries in a
    // different order, and nothing else differs
    if l.class.starts_with("XRef") {
        if let Some(start) = l.obj_start {
            if a.len() == b.len() && a[..start] == b[..start] {
                if let (Some((da, ea)), Some((db, eb))) = (dict_of_obj(a, start), dict_of_obj(b, start)) {
                    let order_a: Vec<&Vec<u8>> = da.keys().collect();
                    let order_b: Vec<&Vec<u8>> = db.keys().collect();
                    if ea == eb && da.same(&db) && order_a != order_b && a[ea..] == b[eb..] {
                        return "C20/xref-stream-dictionary-entries-in-hash-order".into();
                    }
                }
            }
        }
        return "C20/xref-stream-differs".into();
    }
    // --- signature 2: appearance streams of a widget annotation get their object numbers in the
    // iteration order of the HashMap-backed /AP dictionary. Recognised when both files hold the
    // same object graph up to object numbering (canonical renderings equal) and the only
    // numbering difference visible from the widgets is a permutation of the references inside
    // /AP — at the state level (/N /R /D) or inside a state's sub-dictionary (/N << /Yes /Off >>).
    if let (Some(la), Some(lb)) = (loose_load(a), loose_load(b)) {
        if let (Some((ca, ma)), Some((cb, mb))) = (canonical_graph(&la), canonical_graph(&lb)) {
            if ca == cb {
                // object numbers that differ between the two files for the same node of the graph
                let back: std::collections::BTreeMap<usize, u32> = mb.iter().map(|(n, c)| (*c, *n)).collect();
                let moved: Vec<u32> = ma.iter().filter(|(n, c)| back.get(c) != Some(n)).map(|(n, _)| *n).collect();
                match ap_permutation(&la, &lb, &moved) {
                    Some(ApPerm::States) => return "C20/widget-ap-state-streams-numbered-in-hash-order".into(),
                    Some(ApPerm::SubStates) => return "C20/widget-ap-substate-streams-numbered-in-hash-order".into(),
                    None => return format!("C20/same-object-graph-different-numbering-or-order-first-diff-in-{}", l.class.replace(' ', "-")),
                }
            }
        }
    }
    format!("C20/bytes-differ-in-{}", l.class.replace(' ', "-"))
}

/// Objects of a file read sequentially from the top (the writer emits them back to back), with
/// object streams expanded; independent of the cross-reference section, which some writer
/// configurations get wrong (not this property's business).
struct Loose {
    objs: std::collections::BTreeMap<u32, Obj>,
    root: Option<Obj>,
    info: Option<Obj>,
}

fn loose_load(b: &[u8]) -> Option<Loose> {
    let mut l = Loose { objs: Default::default(), root: None, info: None };
    let mut p = Parser::new(b, 0);
    // header line and binary comment are comments to skip_ws
    loop {
        p.skip_ws();
        if p.at_end() {
            break;
        }
        if p.starts_with(b"xref") {
            // classic table: jump to the trailer dictionary
            let t = refpdf::file::find_first(b, b"trailer", p.pos)?;
            let mut tp = Parser::new(b, t + 7);
            tp.skip_ws();
            if let Ok(Obj::Dict(d)) = tp.parse_object() {
                l.root = d.get("Root").cloned();
                l.info = d.get("Info").cloned();
            }
            break;
        }
        if p.starts_with(b"startxref") {
            break;
        }
        let (num, _gen, o) = p.indirect_object(&|x| x.as_int()).ok()?;
        if let Obj::Stream(s) = &o {
            let ty = s.dict.get("Type").and_then(|t| t.as_name());
            if ty == Some(b"XRef") {
                l.root = s.dict.get("Root").cloned();
                l.info = s.dict.get("Info").cloned();
                // the xref stream itself is not part of the document graph
                continue;
            }
            if ty == Some(b"ObjStm") {
                let data = refpdf::filters::decode_stream(&s.dict, &s.data).ok()?;
                let n = s.dict.get("N").and_then(|x| x.as_int())? as usize;
                let first = s.dict.get("First").and_then(|x| x.as_int())? as usize;
                let mut hp = Parser::new(&data[..first.min(data.len())], 0);
                let mut pairs = Vec::new();
                for _ in 0..n {
                    let (Ok(Obj::Int(a)), Ok(Obj::Int(o))) = (hp.parse_object(), hp.parse_object()) else { return None };
                    pairs.push((a as u32, o as usize));
                }
                for (i, (num, off)) in pairs.iter().enumerate() {
                    let end = pairs.get(i + 1).map(|x| first + x.1).unwrap_or(data.len()).min(data.len());
                    let mut mp = Parser::new(&data[..end], (first + off).min(end));
                    l.objs.insert(*num, mp.parse_object().ok()?);
                }
                continue;
            }
        }
        l.objs.insert(num, o);
    }
    l.root.as_ref()?;
    Some(l)
}

/// Canonical rendering of everything reachable from /Root and /Info: objects are renumbered
/// in order of first visit (dictionary keys visited in sorted order), so two files get the
/// same rendering iff their object graphs are equal up to object numbering.
fn canonical_graph(f: &Loose) -> Option<(Vec<u8>, std::collections::BTreeMap<u32, usize>)> {
    use std::collections::BTreeMap;
    fn walk(o: &Obj, map: &mut BTreeMap<u32, usize>, queue: &mut Vec<u32>, out: &mut Vec<u8>) {
        match o {
            Obj::Ref(n, _) => {
                let id = match map.get(n) {
                    Some(&i) => i,
                    None => {
                        let i = map.len();
                        map.insert(*n, i);
                        queue.push(*n);
                        i
                    }
                };
                out.extend_from_slice(format!("R{id} ").as_bytes());
            }
            Obj::Array(a) => {
                out.push(b'[');
                for x in a {
                    walk(x, map, queue, out);
                }
                out.push(b']');
            }
            Obj::Dict(d) => walk_dict(d, map, queue, out),
            Obj::Stream(s) => {
                walk_dict(&s.dict, map, queue, out);
                out.extend_from_slice(b"stream");
                out.extend_from_slice(&s.data);
                out.extend_from_slice(b"endstream");
            }
            other => {
                refpdf::syntax::write_obj(other, out);
                out.push(b' ');
            }
        }
    }
    fn walk_dict(d: &Dict, map: &mut BTreeMap<u32, usize>, queue: &mut Vec<u32>, out: &mut Vec<u8>) {
        let mut ks: Vec<&(Vec<u8>, Obj)> = d.iter().collect();
        ks.sort_by(|x, y| x.0.cmp(&y.0));
        out.extend_from_slice(b"<<");
        for (k, v) in ks {
            out.push(b'/');
            out.extend_from_slice(k);
            out.push(b' ');
            walk(v, map, queue, out);
        }
        out.extend_from_slice(b">>");
    }
    let mut map = BTreeMap::new();
    let mut queue: Vec<u32> = Vec::new();
    let mut out = Vec::new();
    walk(f.root.as_ref()?, &mut map, &mut queue, &mut out);
    if let Some(info) = &f.info {
        walk(info, &mut map, &mut queue, &mut out);
    }
    let mut qi = 0;
    while qi < queue.len() {
        let n = queue[qi];
        qi += 1;
        out.extend_from_slice(format!("\nobj{} ", map[&n]).as_bytes());
        match f.objs.get(&n) {
            Some(o) => walk(o, &mut map, &mut queue, &mut out),
            None => out.extend_from_slice(b"missing"),
        }
        if queue.len() > 200_000 {
            return None;
        }
    }
    Some((out, map))
}

enum ApPerm {
    States,
    SubStates,
}

/// How the references inside the widgets' /AP dictionaries differ between two files with the
/// same object graph: permuted among the direct entries of /AP, or only inside sub-dictionaries.
fn ap_permutation(fa: &Loose, fb: &Loose, moved: &[u32]) -> Option<ApPerm> {
    // per widget (in object-number order, which is the same in both files): (direct refs, nested refs)
    fn ap_refs(f: &Loose) -> Vec<(Vec<u32>, Vec<u32>)> {
        fn nested(o: &Obj, out: &mut Vec<u32>, depth: usize) {
            match o {
                Obj::Ref(n, _) => out.push(*n),
                Obj::Dict(d) if depth < 3 => {
                    let mut ks: Vec<&(Vec<u8>, Obj)> = d.iter().collect();
                    ks.sort_by(|x, y| x.0.cmp(&y.0));
                    for (_, v) in ks {
                        nested(v, out, depth + 1);
                    }
                }
                _ => {}
            }
        }
        let mut v = Vec::new();
        for o in f.objs.values() {
            if o.dict_get("Subtype").and_then(|s| s.as_name()) == Some(b"Widget") {
                let mut direct = Vec::new();
                let mut deep = Vec::new();
                if let Some(Obj::Dict(ap)) = o.dict_get("AP") {
                    let mut ks: Vec<&(Vec<u8>, Obj)> = ap.iter().collect();
                    ks.sort_by(|x, y| x.0.cmp(&y.0));
                    for (_, val) in ks {
                        match val {
                            Obj::Ref(n, _) => direct.push(*n),
                            other => nested(other, &mut deep, 0),
                        }
                    }
                }
                v.push((direct, deep));
            }
        }
        v
    }
    let (ra, rb) = (ap_refs(fa), ap_refs(fb));
    if ra.len() != rb.len() || ra == rb {
        return None;
    }
    // nothing but appearance streams may have changed its number
    let ap_objs: std::collections::BTreeSet<u32> = ra.iter().flat_map(|(d, n)| d.iter().chain(n.iter()).copied()).collect();
    if !moved.iter().all(|n| ap_objs.contains(n)) {
        return None;
    }
    let same_set = |x: &Vec<u32>, y: &Vec<u32>| {
        let (mut xs, mut ys) = (x.clone(), y.clone());
        xs.sort();
        ys.sort();
        xs == ys
    };
    // every widget refers to the same set of objects in both files, only the assignment differs
    if !ra.iter().zip(rb.iter()).all(|(x, y)| {
        let mut ax = x.0.clone();
        ax.extend(&x.1);
        let mut by = y.0.clone();
        by.extend(&y.1);
        same_set(&ax, &by)
    }) {
        return None;
    }
    if ra.iter().zip(rb.iter()).any(|(x, y)| x.0 != y.0) {
        Some(ApPerm::States)
    } else {
        Some(ApPerm::SubStates)
    }
}

fn describe(a: &[u8], b: &[u8], l: &Locus) -> String {
    let lo = l.offset.saturating_sub(24);
    format!(
        "first difference at byte {} (lengths {} / {}) in {} [{}]; A: {:?}  B: {:?}",
        l.offset,
        l.len_a,
        l.len_b,
        l.region,
        l.class,
        vx::show_bytes(&a[lo.min(a.len())..(l.offset + 40).min(a.len())], 64),
        vx::show_bytes(&b[lo.min(b.len())..(l.offset + 40).min(b.len())], 64)
    )
}

// ------------------------------------------------------------------ worker

/// `vcheck --worker C20 <quick|thorough> <program index> <config index> <len> <hash>`: build,
/// serialize once; when the result has the given length and hash write `same` to stdout,
/// otherwise the bytes themselves (so that the parent can localise the difference; a 20 MB
/// file does not go through the pipe unless it differs). Exit 0 same, 1 different,
/// 3 build/serialize error (message on stdout).
pub fn worker_main(args: &[String]) -> i32 {
    use std::io::Write;
    let thorough = args.first().map(|s| s == "thorough").unwrap_or(false);
    let (Some(pi), Some(ci)) = (args.get(1).and_then(|s| s.parse::<usize>().ok()), args.get(2).and_then(|s| s.parse::<usize>().ok())) else {
        eprintln!("usage: --worker C20 <quick|thorough> <program> <config>");
        return 2;
    };
    vx::install_panic_hook();
    let lv = levels(thorough);
    let p = prog_from_index(pi, &lv);
    let r = guarded(|| {
        let mut d = build(&p)?;
        serialize(&mut d, ci)
    });
    let want_len = args.get(3).and_then(|s| s.parse::<usize>().ok());
    let want_hash = args.get(4).and_then(|s| s.parse::<u64>().ok());
    let mut out = std::io::stdout().lock();
    match r {
        Ok(b) => {
            if Some(b.len()) == want_len && Some(vx::hbytes(&b)) == want_hash {
                let _ = out.write_all(b"same");
                return 0;
            }
            let _ = out.write_all(&b);
            let _ = out.flush();
            1
        }
        Err(e) => {
            let _ = out.write_all(e.as_bytes());
            3
        }
    }
}

// ------------------------------------------------------------------ the check

/// Differences found, aggregated over all cells. They are NOT reported through `Ctx::fail`:
/// whether a hash-order-dependent emission shows up in one particular cell is a matter of
/// chance (that is the stated limit of this check), and the explorer rightly treats a body
/// whose violations change between two runs of the same path as broken machinery. The body
/// therefore stays deterministic (same choices, same input, constant outcome) and the verdict
/// per finding key is the OR over all cells, which is stable. In replay mode the body reports
/// through `Ctx::fail` and repeats the serialization often enough to reproduce.
#[derive(Default)]
struct Agg {
    by_key: std::collections::BTreeMap<String, AggEntry>,
}
struct AggEntry {
    count: u64,
    cells: u64,
    detail: String,
    choices: Vec<u32>,
    case: serde_json::Value,
}

struct Diffs {
    /// (key, detail), at most one per key per cell
    found: Vec<(String, String)>,
}
impl Diffs {
    fn add(&mut self, key: String, detail: String) {
        if !self.found.iter().any(|(k, _)| *k == key) {
            self.found.push((key, detail));
        }
    }
    fn compare(&mut self, ctx: &str, what: &str, reference: &[u8], other: &[u8]) {
        let t = cost::cpu_ns();
        if let Some(l) = locate(reference, other) {
            let key = classify(reference, other, &l);
            self.add(key, format!("{ctx}: {what}: {}", describe(reference, other, &l)));
        }
        cost::add(&cost::CMP, t);
    }
}

/// Replace the time-dependent fields by a constant: PDF dates `D:YYYYMMDDHHMMSS` and XMP
/// dates `YYYY-MM-DDTHH:MM:SS`. Fixed-width, so offsets are preserved.
fn mask_dates(b: &mut [u8]) {
    let n = b.len();
    let mut i = 0;
    while i + 16 <= n {
        if b[i] == b'D' && b[i + 1] == b':' && b[i + 2..i + 16].iter().all(|c| c.is_ascii_digit()) {
            for x in &mut b[i + 2..i + 16] {
                *x = b'0';
            }
            i += 16;
            continue;
        }
        i += 1;
    }
    let mut i = 0;
    while i + 19 <= n {
        let s = &b[i..i + 19];
        let pat = |k: usize| s[k].is_ascii_digit();
        if (0..4).all(pat) && s[4] == b'-' && pat(5) && pat(6) && s[7] == b'-' && pat(8) && pat(9) && s[10] == b'T'
            && pat(11) && pat(12) && s[13] == b':' && pat(14) && pat(15) && s[16] == b':' && pat(17) && pat(18)
        {
            for k in [0usize, 1, 2, 3, 5, 6, 8, 9, 11, 12, 14, 15, 17, 18] {
                b[i + k] = b'0';
            }
            i += 19;
            // fractional seconds (xmp:ModifyDate carries the sub-second part of the clock)
            if i < n && b[i] == b'.' {
                i += 1;
                while i < n && b[i].is_ascii_digit() {
                    b[i] = b'0';
                    i += 1;
                }
            }
            continue;
        }
        i += 1;
    }
}

/// Widths of the fractional-second parts of all XMP-style dates (after masking: runs of '0' after
/// "00:00:00.").
fn date_widths(b: &[u8]) -> Vec<usize> {
    let pat = b"0000-00-00T00:00:00";
    let mut v = Vec::new();
    let mut i = 0;
    while let Some(p) = refpdf::file::find_first(b, pat, i) {
        let mut j = p + pat.len();
        let mut w = 0;
        if j < b.len() && b[j] == b'.' {
            j += 1;
            while j < b.len() && b[j] == b'0' {
                w += 1;
                j += 1;
            }
        }
        v.push(w);
        i = j;
    }
    v
}

fn choose_prog(c: &mut Ctx, lv: &[usize; 6]) -> Prog {
    let fonts = c.choose("fonts", lv[0]);
    let images = c.choose("images", lv[1]);
    let gfx = if lv[2] == 0 { images } else { c.choose("gfx", lv[2]) };
    let annots = if lv[3] == 0 { images } else { c.choose("annots", lv[3]) };
    Prog { fonts, images, gfx, annots, forms: c.choose("forms", lv[4]), nav: c.choose("nav", lv[5]) }
}

fn prog_json(p: &Prog) -> serde_json::Value {
    json!({
        "fonts": FONTS_LEVELS[p.fonts], "images": IMAGES_LEVELS[p.images], "gfx": GFX_LEVELS[p.gfx],
        "annots": ANNOTS_LEVELS[p.annots], "forms": FORMS_LEVELS[p.forms], "nav": NAV_LEVELS[p.nav],
    })
}

/// All serializations of one cell. `fresh_builds` = number of freshly built documents besides A.
fn run_cell(p: &Prog, cfg: usize, pi: usize, tier_name: &str, fresh_builds: usize, processes: usize) -> (Diffs, usize) {
    let mut d = Diffs { found: Vec::new() };
    let ctx = format!("program {:?} [{}]", p, config_name(cfg));
    let a = guarded(|| {
        let mut doc = timed_build(p)?;
        let a1 = timed_serialize(&mut doc, cfg)?;
        let a2 = timed_serialize(&mut doc, cfg)?;
        Ok((a1, a2))
    });
    let (a1, a2) = match a {
        Ok(x) => x,
        Err(e) => {
            let key = if e.starts_with("panic") { format!("C20/write-panics@{}", vx::panic_site(&e)) } else { "C20/program-cannot-be-built-or-written".to_string() };
            d.add(key, format!("{ctx}: {e}"));
            return (d, 0);
        }
    };
    d.compare(&ctx, "second write_document on the same Document", &a1, &a2);
    drop(a2);
    for i in 0..fresh_builds {
        match guarded(|| {
            let mut doc = timed_build(p)?;
            timed_serialize(&mut doc, cfg)
        }) {
            Ok(b) => d.compare(&ctx, &format!("fresh build #{}", i + 2), &a1, &b),
            Err(e) => d.add("C20/program-not-reproducible-error".into(), format!("{ctx}: fresh build #{}: {e}", i + 2)),
        }
    }
    let pis = pi.to_string();
    let cis = cfg.to_string();
    let lens = a1.len().to_string();
    let hs = vx::hbytes(&a1).to_string();
    for i in 0..processes {
        let t0 = std::time::Instant::now();
        let r = vx::proc::run_self_collect(&["--worker", "C20", tier_name, &pis, &cis, &lens, &hs], &[]);
        cost::WORKER_WALL[cfg].fetch_add(t0.elapsed().as_nanos() as u64, std::sync::atomic::Ordering::Relaxed);
        match r {
            Ok((0, b)) if b == b"same" => {}
            Ok((1, b)) => d.compare(&ctx, &format!("fresh process {}", i + 1), &a1, &b),
            Ok((code, b)) => d.add("C20/worker-process-failed".into(), format!("{ctx}: fresh process {}: exit {code}: {}", i + 1, vx::show_bytes(&b, 200))),
            Err(e) => d.add("C20/MACHINERY-worker-spawn-failed".into(), format!("{ctx}: fresh process {}: {e}", i + 1)),
        }
    }
    (d, a1.len())
}

fn record(agg: &std::sync::Mutex<Agg>, d: Diffs, choices: Vec<u32>, case: serde_json::Value) {
    if d.found.is_empty() {
        return;
    }
    let mut g = agg.lock().unwrap();
    for (key, detail) in d.found {
        let cost = |c: &Vec<u32>| (c.iter().filter(|&&x| x != 0).count(), c.clone());
        match g.by_key.get_mut(&key) {
            Some(en) => {
                en.count += 1;
                en.cells += 1;
                if cost(&choices) < cost(&en.choices) {
                    en.choices = choices.clone();
                    en.detail = detail;
                    en.case = case.clone();
                }
            }
            None => {
                g.by_key.insert(key, AggEntry { count: 1, cells: 1, detail, choices: choices.clone(), case: case.clone() });
            }
        }
    }
}

fn publish(rep: &mut Report, section: &str, labels: &[&str], agg: std::sync::Mutex<Agg>) {
    let agg = agg.into_inner().unwrap();
    let mut counts = serde_json::Map::new();
    for (key, en) in agg.by_key {
        counts.insert(key.clone(), json!({"cells_with_this_difference": en.cells}));
        rep.violations.push(vx::FoundViolation {
            key,
            detail: en.detail,
            section: section.to_string(),
            choices: en.choices,
            labels: labels.iter().map(|s| s.to_string()).collect(),
            count: en.count,
            rendered: Some(en.case),
        });
    }
    rep.note(&format!("differences_{}", section.replace('-', "_")), serde_json::Value::Object(counts));
}

pub fn run(rep: &mut Report) {
    let thorough = rep.tier.is_thorough();
    let lv = levels(thorough);
    let tier_name = if thorough { "thorough" } else { "quick" };
    let replay = rep.is_replay();
    rep.rule("cell = (program, writer configuration); program = one level per feature (fonts, images, graphics resources, \
              annotations, form fields, navigation), all combinations; configuration = all 8 combinations of xref \
              table|stream, object streams off|on, stream compression on|off without encryption (quick tier: images, \
              graphics resources and annotations are one feature, 1 embedded font, 4 form levels = 32 programs; thorough: all \
              levels independent = 240 programs); every cell is \
              serialized 4x in-process (same Document twice, two freshly built Documents) and once in each of 2 fresh \
              processes (thorough: 6x in-process with four fresh builds, 3 fresh processes); non-trivial = at least one feature above its base level; distinct = distinct (program, configuration)");
    rep.assume("the clock is held fixed by set_creation_date + set_modification_date and by serializing through \
                PdfWriter::write_document; Document::to_bytes*/save*/write overwrite the modification date with the wall clock \
                (cannot be pinned) and are compared with PDF and XMP date fields masked in section unpinned-clock");
    rep.assume("programs x configurations are enumerated exhaustively; HashMap iteration order is NOT enumerated: it is covered by \
                repetition over fresh maps (3 builds per cell, in whatever explorer thread runs the cell) and 2 fresh processes \
                (4 hash seeds independent of the first per cell); an order-dependent emission over k>=2 entries escapes one cell with \
                probability <= (1/k!)^4, and the verdict per finding key is the OR over all cells containing the feature");
    rep.assume("because a difference caused by hash order shows up by chance, differences are aggregated over the section and reported \
                once per key after it (not through Ctx::fail, whose re-run determinism check would misread them as broken machinery); \
                --replay repeats the cell with 24 fresh builds so that it reproduces");
    rep.assume("HeaderFooter date/time placeholders (Local::now, no setter) are not used by the programs");
    rep.assume("the build recipe itself is deterministic (same API calls in the same order); /Info build signature and producer are compile-time constants");
    let _ = font_bytes();

    let agg = std::sync::Mutex::new(Agg::default());
    rep.explore("cells", Explore::full(), |c: &mut Ctx| {
        let p = choose_prog(c, &lv);
        let cfg = c.choose("config", 8);
        c.input(vx::h64(&(p, cfg)));
        if p != (Prog { fonts: 0, images: 0, gfx: 0, annots: 0, forms: 0, nav: 0 }) {
            c.nontrivial();
        }
        let (fresh, procs) = if replay { (24, 2) } else if thorough { (4, 3) } else { (2, 2) };
        let (d, len) = run_cell(&p, cfg, prog_index(&p, &lv), tier_name, fresh, procs);
        c.outcome(vx::h64(&"serializations compared"));
        let case = json!({"program": prog_json(&p), "config": config_name(cfg), "bytes": len, "serializations": 2 + fresh + procs});
        if replay {
            for (k, det) in d.found {
                c.fail(k, det);
            }
        } else {
            record(&agg, d, c.choices(), case.clone());
        }
        c.sample(case);
    });
    if !replay {
        let mut labels = vec!["fonts", "images"];
        if lv[2] != 0 {
            labels.push("gfx");
        }
        if lv[3] != 0 {
            labels.push("annots");
        }
        labels.extend(["forms", "nav", "config"]);
        publish(rep, "cells", &labels, agg);
        rep.note("cost_ms", json!({
            "build_cpu": cost::ms(&cost::BUILD),
            "serialize_cpu_by_config": (0..8).map(|i| json!({"config": config_name(i), "ms": cost::ms(&cost::SER[i])})).collect::<Vec<_>>(),
            "compare_and_classify_cpu": cost::ms(&cost::CMP),
            "worker_process_wall_by_config": (0..8).map(|i| json!({"config": config_name(i), "ms": cost::ms(&cost::WORKER_WALL[i])})).collect::<Vec<_>>(),
        }));
    }

    // second clause of the property: with the clock not fixed only the time fields may differ
    let agg2 = std::sync::Mutex::new(Agg::default());
    rep.explore("unpinned-clock", Explore::full(), |c: &mut Ctx| {
        let p = choose_prog(c, &[1, 2, 1, 2, 2, 2]);
        // configurations in which the dates are stored in clear (no object streams)
        let cfg = *c.pick_from("config", &[0usize, 1, 4, 5]);
        c.input(vx::h64(&(p, cfg)));
        c.nontrivial();
        let ctx = format!("program {:?} [{}] through Document::to_bytes_with_config", p, config_name(cfg));
        let mut d = Diffs { found: Vec::new() };
        let mut outs = Vec::new();
        for _ in 0..if replay { 8 } else { 3 } {
            match guarded(|| {
                let mut doc = build(&p)?;
                e(doc.to_bytes_with_config(config_of(cfg)), "to_bytes_with_config")
            }) {
                Ok(mut b) => {
                    mask_dates(&mut b);
                    outs.push(b);
                }
                Err(e) => {
                    d.add("C20/program-cannot-be-built-or-written".into(), format!("{ctx}: {e}"));
                    break;
                }
            }
        }
        // chrono prints 0, 3, 6 or 9 fractional digits depending on the clock value; an output whose
        // date fields have another width than the first one's cannot be compared byte by byte
        let sig0 = outs.first().map(|o| date_widths(o));
        for b in outs.iter().skip(1) {
            if Some(date_widths(b)) == sig0 {
                d.compare(&ctx, "another build, dates masked", &outs[0], b);
            }
        }
        c.outcome(vx::h64(&"3 serializations compared"));
        let case = json!({"program": prog_json(&p), "config": config_name(cfg), "masked": "D:YYYYMMDDHHMMSS and YYYY-MM-DDTHH:MM:SS"});
        if replay {
            for (k, det) in d.found {
                c.fail(k, det);
            }
        } else {
            record(&agg2, d, c.choices(), case.clone());
        }
        c.sample(case);
    });
    if !replay {
        publish(rep, "unpinned-clock", &["fonts", "images", "gfx", "annots", "forms", "nav", "config"], agg2);
    }
}
